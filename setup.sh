#!/bin/sh
# Builds the harness from files on disk only (offline).
set -e
cd "$(dirname "$0")"
export GOFLAGS=-mod=mod GOPROXY=off GOSUMDB=off GOTOOLCHAIN=local
mkdir -p .bin evidence replays
cp /repo/go.sum harness/go.sum
(cd harness && go build -tags verif -o ../.bin/vcheck ./cmd/vcheck)
(cd harness && go build -race -tags verif -o ../.bin/vcheck-race ./cmd/vcheck)
(cd harness && go test -tags verif ./ref/... ./exact/... ./model/... 2>&1 | tail -n 20)
echo "setup ok"
