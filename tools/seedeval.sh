#!/bin/sh
# tools/seedeval.sh <worktree> <seed-number> <tier> <check ids...>
# Confirms a seeded change (suite passes, demo fails with / passes without) and runs checks against it.
wt=$1; n=$2; tier=$3; shift 3
export GOFLAGS=-mod=mod GOPROXY=off GOSUMDB=off GOTOOLCHAIN=local
cd "$wt" || exit 2
git checkout -q -- . ; git clean -fdq -e 'seed*' >/dev/null 2>&1
demo=seed${n}_demo_test.go.txt
path=$(head -1 $demo | sed 's#^// path: *##' | tr -d '\r')
pkg=./$(dirname "$path")
cp $demo "$path"
if go test -vet=off -count=1 -run 'Seed' $pkg >/tmp/se.$$ 2>&1; then echo "clean: demo PASSES (ok)"; else echo "clean: demo FAILS (bad seed)"; tail -5 /tmp/se.$$; fi
if ! git apply seed${n}_patch.diff; then echo "patch does not apply"; rm -f "$path"; exit 1; fi
if go test -vet=off -count=1 -run 'Seed' $pkg >/tmp/se.$$ 2>&1; then echo "patched: demo PASSES (bad seed)"; else echo "patched: demo FAILS (ok)"; fi
rm -f "$path"
if go build ./... && go test -vet=off -count=1 ./... >/tmp/se.$$ 2>&1; then echo "patched: existing suite PASSES (ok)"; else echo "patched: existing suite FAILS (bad seed)"; grep -v "^ok\|no test files" /tmp/se.$$ | head -5; fi
rm -f /tmp/se.$$
/verif/tools/tryseed.sh "$wt" $tier "$@"
git checkout -q -- .
