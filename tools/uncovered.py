#!/usr/bin/env python3
"""tools/uncovered.py [file-substring ...]: source blocks of go-geom that no check's quick workload
reached (union over .work/cover/*.prof written by tools/coverage.sh)."""
import glob,sys,collections
cnt=collections.defaultdict(int)
for f in glob.glob('/verif/.work/cover/*.prof'):
    for l in open(f):
        if l.startswith('mode:'): continue
        loc,rest=l.rsplit(' ',2)[0],l.rsplit(' ',2)[1:]
        cnt[loc]+=int(rest[1])
flt=sys.argv[1:]
byfile=collections.defaultdict(list)
for loc,c in cnt.items():
    if c==0:
        fn,rng=loc.split(':')
        fn=fn.replace('github.com/twpayne/go-geom/','')
        if flt and not any(x in fn for x in flt): continue
        a,b=rng.split(',')
        byfile[fn].append((int(a.split('.')[0]),int(b.split('.')[0])))
for fn in sorted(byfile):
    try: src=open('/repo/'+fn).read().split('\n')
    except Exception: continue
    print('==',fn)
    for a,b in sorted(byfile[fn]):
        print('  %d-%d: %s'%(a,b,' | '.join(x.strip() for x in src[a-1:min(b,a+3)])[:160]))
