#!/bin/sh
# tools/sweep.sh <tier> <seeds...> : runs every registered check at the given seeds, prints one line each
cd "$(dirname "$0")/.."
tier=$1; shift
for s in "$@"; do
  for id in $(./.bin/vcheck list); do
    out=$(VERIF_SEED=$s ./check $id $tier 2>&1); code=$?
    echo "seed=$s $id exit=$code $(echo "$out" | head -1)"
    if [ $code -ne 0 ]; then echo "$out" | grep -E "VIOLATION|INCONCLUSIVE|violations of kind" | head -8; fi
  done
done
