#!/bin/sh
# tools/coverage.sh <ids...>: statement coverage of go-geom reached by the quick workload of each
# given check (a coverage-instrumented build of the harness, GOCOVERDIR per check), so that code the
# workloads never drive is visible.  Writes .work/cover/<id>.func (go tool cover -func output) and
# prints per-package totals plus the functions below 100%.  Analysis aid; decides nothing.
cd "$(dirname "$0")/.." || exit 2
V=$(pwd)
export GOFLAGS=-mod=mod GOPROXY=off GOSUMDB=off GOTOOLCHAIN=local
mkdir -p .bin .work/cover
cp /repo/go.sum harness/go.sum
(cd harness && go build -cover -coverpkg=github.com/twpayne/go-geom/...,verifharness/cmd/vcheck -tags verif -o ../.bin/vcheck-cover ./cmd/vcheck) || exit 2
for id in "$@"; do
  d=$V/.work/cover/$id; rm -rf $d; mkdir -p $d/cov $d/vd
  cp known_findings.txt $d/vd/
  GOCOVERDIR=$d/cov VERIF_DIR=$d/vd .bin/vcheck-cover run -prop $id -tier quick >$d/out.txt 2>&1
  head -1 $d/out.txt | cut -c1-120
  go tool covdata textfmt -i=$d/cov -o=$d/cov.txt 2>/dev/null
  grep -v "verifharness" $d/cov.txt > $d/cov2.txt
  (cd /repo && go tool cover -func=$d/cov2.txt) > .work/cover/$id.func
  cp $d/cov2.txt .work/cover/$id.prof; rm -rf $d
done
