#!/usr/bin/env python3
"""Regenerates /verif/MANIFEST.json from the per-property table below."""
import json, os, subprocess

HERE = os.path.dirname(os.path.dirname(os.path.abspath(__file__)))

BASE = json.load(open('/root/.vp/BASELINE.json'))['cmd']

# id -> (technique, level text, level note, DESIGN section)
CHECKS = {
 'C01': ('runtime invariant monitor (well-formedness) + nested-list reference model over generated shapes',
         'Exploration: every generated nested coordinate array (7 types x 10 layouts x hostile floats) is built through SetCoords, New*Flat, MustSetCoords and Clone on the real code; a well-formedness monitor written from the property and a bit-for-bit comparison with a nested-list model judge each result; wrong-length coordinates are injected at random positions. Holds on the executions observed, which is the right level for a for-all-inputs structural claim over an unbounded input space.',
         'Trusts the Go runtime, the nested-list model and WF monitor in harness/model, and the shape generator reaching the relevant corners (evidence lists the shape signatures seen).',
         '3/C01'),
}

PLANNED = ['C%02d' % i for i in range(1, 21)]

def main():
    implemented = sorted(CHECKS)
    checks = []
    for pid in implemented:
        tech, text, note, ref = CHECKS[pid]
        checks.append({
            'property_id': pid,
            'quick_cmd': './check %s quick' % pid,
            'thorough_cmd': './check %s thorough' % pid,
            'evidence_file': 'evidence/%s.json' % pid,
            'replay_cmd_template': './check %s --replay {path}' % pid,
            'engine': 'vcheck',
            'level_claimed': {'category': 'exploration', 'text': text, 'design_ref': 'DESIGN.md section ' + ref},
            'level_note': note,
            'technique': tech,
        })
    na = [{'property_id': p, 'reason': 'monitor not built yet in this session (planned, see DESIGN.md section 3); not claimed until its check exists and is silent on the unchanged tree'}
          for p in PLANNED if p not in CHECKS]
    hooks_commits = subprocess.run(['git', '-C', '/repo', 'log', '--format=%H', '--grep=^verif hook'], capture_output=True, text=True).stdout.split()
    man = {
        'version': 1,
        'setup_cmd': './setup.sh',
        'hooks': {
            'guard': 'verif',
            'enable': 'go build -tags verif (the harness module replaces github.com/twpayne/go-geom with /repo, so /repo is compiled from its working tree with the tag on)',
            'baseline_off_cmd': BASE,
            'source_commits': hooks_commits,
            'add_only': True,
        },
        'engines': [{
            'name': 'vcheck',
            'path': 'harness/cmd/vcheck',
            'serves_properties': implemented,
            'kind_free_text': 'Go harness: seeded hostile-workload generators drive the real go-geom code in child processes (journalled, so panics and process deaths are attributed to an input); independent reference models/codecs and exact rational arithmetic are the oracles; the Go race detector for C17',
        }],
        'checks': checks,
        'not_applicable': na,
        'notes': 'Technique family: runtime monitoring and sanitizers. Every check rebuilds harness/cmd/vcheck against /repo working tree with -tags verif. Exit 0 = held on everything observed; exit 1 + VIOLATION line = witness written to replays/; exit 2 + INCONCLUSIVE line = environment problem (build failure, watchdog), never folded into either verdict. known_findings.txt lists recorded/fixed defects.',
    }
    with open(os.path.join(HERE, 'MANIFEST.json'), 'w') as f:
        json.dump(man, f, indent=1)
        f.write('\n')

if __name__ == '__main__':
    main()
