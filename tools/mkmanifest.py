#!/usr/bin/env python3
"""Regenerates /verif/MANIFEST.json from the per-property table below."""
import json, os, subprocess

HERE = os.path.dirname(os.path.dirname(os.path.abspath(__file__)))

BASE = json.load(open('/root/.vp/BASELINE.json'))['cmd']

# id -> (technique, level text, level note, DESIGN section)
CHECKS = {
 'C01': ('runtime invariant monitor (well-formedness) + nested-list reference model over generated shapes',
         'Exploration: every generated nested coordinate array (7 types x 10 layouts x hostile floats) is built through SetCoords, New*Flat, MustSetCoords and Clone on the real code; a well-formedness monitor written from the property and a bit-for-bit comparison with a nested-list model judge each result; wrong-length coordinates are injected at random positions. Holds on the executions observed, which is the right level for a for-all-inputs structural claim over an unbounded input space.',
         'Trusts the Go runtime, the nested-list model and WF monitor in harness/model, and the shape generator reaching the relevant corners (evidence lists the shape signatures seen).',
         '3/C01'),
 'C02': ('online checker: executable list model stepped in lock-step with random operation histories; full-state comparison after every step',
         'Exploration of operation histories: Push / wrong-layout Push / Reverse / Swap / Clone / SetLayout histories on the five multi-part types are executed on the real code while a list model is advanced in lock-step and the whole observable state is compared after every operation; all MultiPolygon push histories of length <=5 over a 4-part alphabet are enumerated.',
         'Trusts the list model in mon/c02.go and the WF monitor; histories are sampled (lengths to 40/200), only the small MultiPolygon space is exhaustive.',
         '3/C02'),
 'C03': ('differential monitor against an independent reference WKB/EWKB writer and reader; in-process fault injection at the io.Reader/io.Writer boundary',
         'Exploration with fault enumeration as a sub-workload: encoder bytes are compared with a reference writer written from the ISO/PostGIS specs (pinned by hand-checked vectors), decoders with the model; readers are split four ways incl. zero-length reads, writers fail at every byte position for encodings up to 200 bytes; hex and database/sql wrappers are driven through a full 7x7 type matrix.',
         'Trusts the reference codec in harness/ref (self-tested against PostGIS/ISO vectors by setup.sh) and the carve-out function decodeExpectation, the only place where format exceptions are encoded.',
         '3/C03'),
 'C08': ('reference-model monitor (min/max by semantic dimension) + enumeration of Extend orders + interval-arithmetic oracle',
         'Exploration: Bounds() of generated geometries and nested mixed-layout collections is compared with exact min/max from the nested model; every permutation of Extend sequences up to length 5 must produce the model box; Overlaps/OverlapsPoint are compared with closed-interval arithmetic on a small grid.',
         'Trusts the model box in mon/c08.go; min/max are exact so == is used; NaN ordinates are outside the property.',
         '3/C08'),
 'C09': ('exact-arithmetic oracle (rational shoelace, 400-bit lengths) with a derived forward error bound',
         'Exploration: Area/Length of generated geometries (all multi-part shapes incl. empty parts, magnitudes 2^-200..2^200, NaN/Inf in extra ordinates) are compared with exact values within (n+8)*2^-52*sum|terms|, additivity over part accessors and zero area of points/lines are checked, panics are violations.',
         'Trusts math/big; the bound is a stated forward error bound computed by the oracle per case, not a tuned constant.',
         '3/C09'),
 'C10': ('exact rational determinant oracle; exhaustive small grid plus constructed near-degenerate triples',
         'Exploration with an exhaustive sub-space: every triple of a 7x7 grid in all six argument orders; nearly collinear triples with 49 ulp-neighbours each across magnitudes 1e-100..1e100; integer triples whose product terms exceed 53 bits with determinant in -2..2. The evidence counts how many triples the floating-point filter cannot decide.',
         'Trusts math/big rational arithmetic.',
         '3/C10'),
 'C11': ('exact integer even-odd/on-edge oracle; exhaustive small grid plus metamorphic variants (reverse, rotate, double vertex, extra ordinates)',
         'Exploration with exhaustive sub-spaces: all closed rings of 3 and 4 vertices on a 4x4 grid x 16 query points; random rings up to 40 vertices on grids to 2^26 with query points aimed at vertices, vertex-level rays and lattice points on edges, each also in four transformed presentations; IsOnLine/PointIntersectsLine against the exact on-segment test incl. float inputs.',
         'Trusts int64 arithmetic (exact below 2^26 grids) and math/big for float cases.',
         '3/C11'),
 'C12': ('exact rational classification and intersection oracle; exhaustive small grid; all 8 symmetric presentations per pair',
         'Exploration with an exhaustive sub-space: all 57,600 ordered pairs of non-degenerate segments on a 4x4 grid; constructed configurations on grids to 2^20; endpoint meetings must be exact, proper crossings within a derived forward bound and inside both envelopes, overlaps exact; the non-robust strategy must agree on HasIntersection for integer inputs; float pairs a few ulps away are checked for classification.',
         'Trusts math/big; the location bound 64*2^-53*S^3/|d1xd2| is derived from the homogeneous-coordinate formula.',
         '3/C12'),
 'C13': ('exact integer monotone-chain oracle with provenance ids in extra ordinates; exhaustive small grid',
         'Exploration with an exhaustive sub-space: every sequence of 1..5 points on a 3x3 grid; random multisets of 1..200 points in eight degeneracy classes with sizes around the 50-point switch over-weighted; vertex set, provenance, closure, strict convexity, result type and input immutability are all checked.',
         'Trusts int64 arithmetic on grids up to 2^20.',
         '3/C13'),
 'C14': ('exact rational / 400-bit centroid and area oracles with derived forward bounds on constructed simple polygons',
         'Exploration: simple rings by construction (exact angular order; rectilinear staircases with top ties and repeated vertices), polygons with holes and disjoint multipolygon members at offsets up to 1e9, zero-area fallbacks, polylines and point sets; every result is compared with the exact value within a bound computed from the same fan decomposition.',
         'Trusts math/big and the simplicity-by-construction of the generated rings.',
         '3/C14'),
 'C15': ('exact rational squared-distance oracle (3D via exact minimisation over the parameter square); 8 presentations per pair',
         'Exploration: seven distance functions on integer grids to 2^20 across degenerate, parallel, collinear, crossing, touching and skew classes, every segment pair in all 8 argument orders, NaN never accepted; tolerance 1e-9 x coordinate scale as the property states.',
         'Trusts math/big; near-parallel (not parallel) 3D pairs are judged only on grids <= 2^8 (stated in the evidence counters).',
         '3/C15'),
 'C16': ('deep bitwise snapshot invariant checked after every step of random mutation histories on original, clone and clone-of-clone',
         'Exploration of mutation histories: three aliases of each generated geometry (exact, spare-capacity and empty-non-nil storage) are mutated in random order by ten kinds of mutation; after every step the two untouched ones must still match their snapshot; a clone must also report nil exactly where the original reports nil (FlatCoords, Ends, Endss and its rows).',
         'Trusts the snapshot code (length-and-bits comparison); Reverse on NoLayout line geometries is not driven (it does not terminate and no property covers it).',
         '3/C16'),
 'C20': ('exact rational point-segment distance oracle + structural checks + idempotence + projection metamorphic check',
         'Exploration with an exhaustive sub-space: random sequences of 0..200 points in seven shape classes x five threshold classes, plus every sequence of up to 6 points on a 3x3 grid (thorough) x four thresholds; dropped points are judged by exact distance, threshold 0 requires exact collinearity, a second pass must drop nothing, extra ordinates must not matter.',
         'Trusts math/big; the slack tau*(1+2^-50)+2^-46*max|ordinate| is the derived rounding allowance of the double evaluation.',
         '3/C20'),
 'C04': ('hostile-input monitors: panic/process-death journal, WF, canonical round trip, reference reader with the same limits, allocation monitor (runtime.MemStats), Read-call bound',
         'Exploration of byte strings x limit configurations: valid encodings mutated by truncation (incl. every prefix), bit flips, splices, single count-field forgery located through the reference writer field map, random bytes behind headers, under 7 settings of MaxGeometryElements; each decode runs in a journalled child under an address-space limit; a count above its level limit must yield ErrGeometryTooLarge{Level,N,Limit} exactly when the reference reader meets it first, and allocation must stay below 64*len+128*sum(limits)+64KiB.',
         'Trusts runtime.ReadMemStats in a single-goroutine child, the reference reader, and ulimit -v for containment; inputs with an unbacked count at a level without limit are outside the property and not driven. Coverage-guided fuzzing is not part of the registered commands.',
         '3/C04'),
 'C05': ('differential monitor: library parser and an independent WKT reader (exact decimal conversion) against the model; reference speller generates spelling variants',
         'Exploration: models in the WKT-expressible domain are encoded; the text must be accepted by wkt.Unmarshal and by an independent reader and both must equal the model bit for bit; 8 spellings per model (case, whitespace/newlines, bare/parenthesised multipoint members, attached/detached suffix, exponent numbers) must parse to the same model.',
         'Trusts the reference WKT reader/speller in harness/ref (pinned by OGC SFA examples).',
         '3/C05'),
 'C06': ('totality monitor over exhaustive token sequences + grammar-guided and mutated inputs; constructive must-reject classes; structural consistency monitor on accepted results',
         'Exploration with exhaustive sub-spaces: every token sequence of length <=4 (thorough <=5) over a 37-token alphabet, random grammar derivations with mixed suffixes to depth 8, valid texts with exactly one injected defect (must be rejected), mutations/splices/raw bytes; any panic, (nil,nil), unrenderable error, inconsistent accepted geometry or non-canonical re-encode is a violation.',
         'Trusts the consistency monitor written from the property and the speller producing the defect texts.',
         '3/C06'),
 'C07': ('differential monitor against an independent RFC 8259/7946 reader + round-trip oracle with format carve-outs + totality monitor on mutated JSON',
         'Exploration: geometry, Feature and FeatureCollection round trips (ids, bboxes, random property maps, null geometry, numeric ids), JSON output re-read by an independent reader with exact number conversion, and decoder totality over valid documents, structure-aware mutations, byte mutations, deep nesting, huge exponents and random bytes.',
         'Trusts the reference JSON reader; properties compared via encoding/json canonical output; the carve-outs are encoded in geojsonExpect only.',
         '3/C07'),
 'C17': ('Go race detector over a randomised concurrent call mix (cold-start phase first) + bitwise input hashing + golden-result comparison + measured overlap table',
         'Exploration of schedules: 49 groups of non-mutating entry points (all query, encode and decode paths) on shared fixtures (spare capacity filled with canaries, -0 ordinates, segment pairs in special position, rejected WKT tails). Phase 0: the process\'s first calls into the library are made by 32 goroutines at once (cold tables, caches and pools); phase 1: sequentially, with a bitwise hash of all shared inputs after every call (golden results); phase 1b: GC-off bursts of 3300 calls per entry point; phase 2: 64 goroutines under -race at GOMAXPROCS 2/8/16 and several fixture seeds, with no harness synchronisation between barrier and join; every concurrent result is compared with the solo result; phase 3 measures which function pairs really overlapped.',
         'Trusts the race detector (reports unordered conflicting accesses on executed paths only); schedules are sampled, not enumerated.',
         '3/C17'),
 'C18': ('exact decimal/rational oracle on every emitted numeral + independent WKT/JSON readers for well-formedness and structure',
         'Exploration: d = 0..15 x ordinates aimed at the rounding logic (values straddling half-unit boundaries by a few ulps, binary ties, many nines, powers of ten, -0, 5e-324, 1.7e308) x all geometry shapes; every numeral is checked for digit count, trailing zeros, exponent form and |numeral - input| <= 1/2 unit as rationals; outputs re-read by reference readers; GeoJSON bbox and both option orders.',
         'Trusts math/big decimal parsing and the reference readers.',
         '3/C18'),
 'C19': ('round-trip oracle over every calendar day of the two-digit-year window + independent B-record column reader + totality monitor on mutated IGC',
         'Exploration with exhaustive sub-spaces: every day 1970-01-01..2069-12-31 with fixes around midnight, random multi-day tracks across year/century/leap boundaries with positions at the poles and antimeridian; every single-extension I table; H DTE over all two-digit fields (thorough); mutated seeds, truncated B records, over-long lines, noise before the A record.',
         'The property arithmetic is its own reference; B-record columns per FAI spec; termination decided by a Read-call bound.',
         '3/C19'),
}

# sentences appended to the level text: workloads added in the last session
EXTRA_TEXT = {
 'C01': 'A class asks SetCoords/Coords at EVERY number of coordinates 0..6,000 (thorough ..30,000), so a block seam of any size is visited.',
 'C03': 'A class encodes and decodes a line string, multipoint and polygon of EVERY number of coordinates 0..5,040 (thorough ..20,160) in all six formats; SQL wrappers are asked for their value again after the caller edited the geometry; geometries are also built over storage with spare capacity.',
 'C05': 'Classes write and parse EVERY number of coordinates 0..3,000 (thorough ..20,000) and parse texts nesting 255..131,072 collections.',
 'C07': 'Classes decode documents as other software writes them (members left out, null, reordered, escaped ids) and marshal/unmarshal EVERY number of positions 0..3,000 (thorough ..20,000).',
 'C08': 'A class takes the bounds of lines of EVERY number of coordinates 1..6,000 (thorough ..30,000) with the extreme ordinate at a chosen coordinate.',
 'C09': 'Closed-form shapes (sums of small integers, exact in any order) are measured at EVERY number of vertices 0..10,000 (thorough ..40,000), at 2^20..2^23 vertices and as 2^16..2^19 parts.',
 'C14': 'Closed-form rectangle, line and point set are asked at EVERY size 5..8,004 (thorough ..40,004).',
 'C15': 'A class asks the point-to-linestring distance on unit-step lines of EVERY length 2..9,001 (thorough ..40,001) and at 40 lengths of 10,000..120,000 with the nearest segment at block seams.',
 'C16': 'Clones of EVERY number of coordinates 0..12,000 (thorough ..40,000) and of 2^23..2^24 ordinates are compared ordinate by ordinate; nil-ness of the accessors is compared as well.',
 'C18': 'A class writes WKT of EVERY number of coordinates 0..4,500 (thorough ..20,000) with digit limits none and 0..4 and reads it back with the independent reader.',
 'C19': 'Tracks of EVERY number of fixes 0..3,000 (thorough ..12,000) go through the round trip; the process time zone is varied.',
 'C20': 'Closed-form sequences (straight, stationary, zig-zag) are simplified at EVERY length 0..9,000 (thorough ..70,000) and at 48 lengths of 10,000..140,000.',
}

PLANNED = ['C%02d' % i for i in range(1, 21)]

def main():
    implemented = sorted(CHECKS)
    checks = []
    for pid in implemented:
        tech, text, note, ref = CHECKS[pid]
        if pid in EXTRA_TEXT:
            text = text + ' ' + EXTRA_TEXT[pid]
        checks.append({
            'property_id': pid,
            'quick_cmd': './check %s quick' % pid,
            'thorough_cmd': './check %s thorough' % pid,
            'evidence_file': 'evidence/%s.json' % pid,
            'replay_cmd_template': './check %s --replay {path}' % pid,
            'engine': 'vcheck',
            'level_claimed': {'category': 'exploration', 'text': text, 'design_ref': 'DESIGN.md section ' + ref},
            'level_note': note,
            'technique': tech,
        })
    na = [{'property_id': p, 'reason': 'monitor not built yet in this session (planned, see DESIGN.md section 3); not claimed until its check exists and is silent on the unchanged tree'}
          for p in PLANNED if p not in CHECKS]
    hooks_commits = subprocess.run(['git', '-C', '/repo', 'log', '--format=%H', '--grep=^verif hook'], capture_output=True, text=True).stdout.split()
    man = {
        'version': 1,
        'setup_cmd': './setup.sh',
        'hooks': {
            'guard': 'verif',
            'enable': 'go build -tags verif (the harness module replaces github.com/twpayne/go-geom with /repo, so /repo is compiled from its working tree with the tag on)',
            'baseline_off_cmd': BASE,
            'source_commits': hooks_commits,
            'add_only': True,
        },
        'engines': [{
            'name': 'vcheck',
            'path': 'harness/cmd/vcheck',
            'serves_properties': implemented,
            'kind_free_text': 'Go harness: seeded hostile-workload generators drive the real go-geom code in child processes (journalled, so panics and process deaths are attributed to an input); independent reference models/codecs and exact rational arithmetic are the oracles; the Go race detector for C17',
        }],
        'checks': checks,
        'not_applicable': na,
        'notes': 'Technique family: runtime monitoring and sanitizers. Every check rebuilds harness/cmd/vcheck against /repo working tree with -tags verif. Exit 0 = held on everything observed; exit 1 + VIOLATION line = witness written to replays/; exit 2 + INCONCLUSIVE line = environment problem (build failure, watchdog), never folded into either verdict. known_findings.txt lists recorded/fixed defects.',
    }
    with open(os.path.join(HERE, 'MANIFEST.json'), 'w') as f:
        json.dump(man, f, indent=1)
        f.write('\n')

if __name__ == '__main__':
    main()
