#!/usr/bin/env python3
"""For every seeded/<id>-<n>: runs the property's own quick check (and any extra ids given in
EXTRA) against the change in a scratch worktree and writes meta.json."""
import json, os, subprocess, sys, glob, re
ROOT='/verif/seeded'
EXTRA={'C02-29':['C16'],'C08-27':['C16'],'C17-27':['C05'],'C06-27':['C05'],'C06-26':['C05'],'C18-26':['C05'],'C12-28':['C17'],'C06-24':['C05'],'C07-25':['C01'],'C17-24':['C19'],'C05-25':['C17'],'C01-27':['C04'],'C12-23':['C10'],'C12-25':['C10'],'C01-22':['C02'],'C01-23':['C02'],'C09-20':['C02'],'C09-21':['C02'],'C11-20':['C10'],'C17-20':['C12'],'C17-21':['C07'],'C12-22':['C17'],'C04-21':['C03'],'C04-22':['C03'],'C04-18':['C03'],'C06-18':['C05'],'C07-17':['C01'],'C17-17':['C12'],'C17-18':['C08'],'C17-19':['C13'],'C12-19':['C10'],'C01-17':['C16'],'C04-14':['C03'],'C04-15':['C03'],'C04-16':['C03'],'C06-15':['C05'],'C09-14':['C02'],'C17-14':['C12'],'C17-15':['C08'],'C17-16':['C03'],'C01-13':['C02'],'C17-12':['C14'],'C01-10':['C02','C16'],'C01-12':['C02'],'C04-10':['C03'],'C05-12':['C17'],'C06-10':['C17'],'C12-10':['C17'],'C13-10':['C17'],'C17-8':['C12'],'C12-8':['C17'],'C05-10':['C18'],'C01-8':['C02'],'C01-9':['C02'],'C04-6':['C03'],'C05-8':['C17'],'C17-5':['C13'],'C04-4':['C03'],'C02-5':['C16'],'C12-3':['C10'],'C01-2':['C03','C04'],'C01-4':['C17'],'C05-4':['C17'],'C02-1':['C16'],'C07-2':['C17','C18'],'C03-1':[]}
only=set(sys.argv[1:])
for d in sorted(glob.glob(ROOT+'/C*-*')):
    name=os.path.basename(d)
    if only and name not in only: continue
    if os.path.exists(d+'/meta.json') and not only: continue
    pid=name.split('-')[0]
    ids=[pid]+EXTRA.get(name,[])
    out=subprocess.run(['/verif/tools/seedcheck.sh',d,'quick']+ids,capture_output=True,text=True).stdout
    res={}
    cur=None
    for line in out.splitlines():
        m=re.match(r'^(C\d\d) exit=(\d+) (.*)',line)
        if m:
            cur=m.group(1); res[cur]={'exit':int(m.group(2)),'kinds':[], 'first':None}
            continue
        m=re.match(r'^\s+violations of kind (\S+): (\d+)',line)
        if m and cur: res[cur]['kinds'].append('%s x%s'%(m.group(1),m.group(2)))
        elif cur and line.startswith('  ') and res[cur]['first'] is None: res[cur]['first']=line.strip()[:300]
    am={}
    try: am=json.load(open(d+'/agent_meta.json'))
    except Exception: pass
    meta={
      'property': pid,
      'seed': name,
      'summary': am.get('summary'),
      'needs_to_manifest': am.get('needs_to_manifest'),
      'files_changed': am.get('files_changed'),
      'produced_by': 'independent sub-agent given only the property text and a scratch worktree of /repo',
      'confirmed_by_me': 'tools/seedeval.sh in the scratch worktree: demonstration test passes on the clean tree and fails with patch.diff applied; go build ./... and go test -vet=off -count=1 ./... pass with the patch applied',
      'ran': 'tools/seedcheck.sh %s quick %s  (harness rebuilt against a scratch worktree with patch.diff applied; /repo itself untouched)'%(name,' '.join(ids)),
      'detected_by': {k:{'caught': v['exit']==1, 'violation_kinds': v['kinds'], 'first_witness': v['first']} for k,v in res.items()},
    }
    json.dump(meta,open(d+'/meta.json','w'),indent=1); open(d+'/meta.json','a').write('\n')
    print(name, {k:v['exit'] for k,v in res.items()})
