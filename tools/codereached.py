#!/usr/bin/env python3
"""tools/codereached.py <go tool cover -func output> <out.json>: condenses the statement coverage a
coverage-instrumented quick run reached in go-geom into the JSON that ./check embeds in the evidence
of a thorough run (key coverage.code_reached)."""
import sys, re, json, collections
src, out = sys.argv[1], sys.argv[2]
pk = collections.defaultdict(lambda: [0, 0])      # package -> [functions, fully reached]
partial = []
for l in open(src):
    m = re.match(r'github\.com/twpayne/go-geom/?(\S*?)/?([^/\s]+\.go):(\d+):\s+(\S+)\s+([\d.]+)%', l)
    if not m:
        continue
    pkg, fn, line, name, pct = m.group(1) or '.', m.group(2), int(m.group(3)), m.group(4), float(m.group(5))
    if pkg.startswith('examples') or 'geomtest' in pkg or '/cmd/' in pkg + '/':
        continue
    pk[pkg][0] += 1
    if pct == 100.0:
        pk[pkg][1] += 1
    elif pct > 0:
        partial.append('%s/%s:%d %s %.0f%%' % (pkg, fn, line, name, pct))
res = {
    'measured_on': 'the quick tier of this check, run once more under a coverage-instrumented build (go build -cover -coverpkg=go-geom/...)',
    'packages_entered': {p: {'functions': v[0], 'functions_fully_reached': v[1]} for p, v in sorted(pk.items()) if any(x.startswith(p + '/') or x.startswith('./') and p == '.' for x in partial) or v[1] > 0},
    'functions_entered_but_not_fully_reached': sorted(partial)[:80],
}
json.dump(res, open(out, 'w'), indent=1)
