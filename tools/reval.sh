#!/bin/sh
# tools/reval.sh <round> <id> [extra check ids]: evaluates the seeds an agent left in /tmp/w<round>-<id>
# (seed1_*, seed2_*): confirms them (tools/seedeval.sh) and saves each as the next free seeded/<id>-<n>.
round=$1; id=$2; shift 2
wt=/tmp/w$round-$id
for n in 1 2 3; do
  [ -f $wt/seed${n}_patch.diff ] || continue
  echo "== $id round $round seed$n"
  /verif/tools/seedeval.sh $wt $n quick $id "$@" 2>&1
  k=1; while [ -d /verif/seeded/$id-$k ]; do k=$((k+1)); done
  d=/verif/seeded/$id-$k; mkdir -p $d
  cp $wt/seed${n}_patch.diff $d/patch.diff; cp $wt/seed${n}_demo_test.go.txt $d/demo_test.go.txt; cp $wt/seed${n}_meta.json $d/agent_meta.json
  echo "saved as $d"
done
rm -rf /tmp/h-w$round-$id /tmp/vd-w$round-$id
