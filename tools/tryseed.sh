#!/bin/sh
# tools/tryseed.sh <worktree-with-patch-applied> <tier> <ids...>
# Builds the harness against a scratch copy of go-geom (NOT /repo) and runs the given
# checks with a scratch VERIF_DIR, so seeded changes can be tried without touching /repo.
set -u
wt=$1; tier=$2; shift 2
export GOFLAGS=-mod=mod GOPROXY=off GOSUMDB=off GOTOOLCHAIN=local
tag=$(basename "$wt")
h=/tmp/h-$tag; vd=/tmp/vd-$tag
rm -rf "$h" "$vd"; mkdir -p "$vd"
cp -r /verif/harness "$h"
sed -i "s#=> /repo#=> $wt#" "$h/go.mod"
cp "$wt/go.sum" "$h/go.sum"
cp /verif/known_findings.txt "$vd/" 2>/dev/null
for id in "$@"; do
  race=""; [ "$id" = "C17" ] && race="-race"
  if ! (cd "$h" && go build $race -tags verif -o "$vd/vcheck$race" ./cmd/vcheck) > "$vd/build.log" 2>&1; then echo "$id BUILD-FAILED"; tail -5 "$vd/build.log"; continue; fi
  out=$(VERIF_DIR="$vd" "$vd/vcheck$race" run -prop "$id" -tier "$tier" 2>&1); code=$?
  echo "$id exit=$code $(echo "$out" | head -1 | cut -c1-120)"
  echo "$out" | grep -E "violations of kind" | head -6
  echo "$out" | grep -E "^  [a-z0-9-]+\[" | head -2 | cut -c1-400
done
rm -rf "$h"
