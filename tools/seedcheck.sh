#!/bin/sh
# tools/seedcheck.sh <seeded/<id>-<n>> <tier> <check ids...>: runs checks against a saved seeded change in a scratch worktree
sd=$(cd "$1" && pwd); tier=$2; shift 2
name=$(basename "$sd")
wt=/tmp/ws-$name
git -C /repo worktree remove --force "$wt" >/dev/null 2>&1
git -C /repo worktree add -q --detach "$wt" HEAD || exit 2
if ! git -C "$wt" apply "$sd/patch.diff"; then echo "$name: patch does not apply"; git -C /repo worktree remove --force "$wt"; exit 1; fi
echo "== $name"
/verif/tools/tryseed.sh "$wt" "$tier" "$@"
git -C /repo worktree remove --force "$wt"
rm -rf /tmp/vd-ws-$name
