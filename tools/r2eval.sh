#!/bin/sh
# tools/r2eval.sh <id> [extra check ids]: evaluates round-2 seeds in /tmp/w2-<id>, saves them as seeded/<id>-3, -4
id=$1; shift
for n in 1 2; do
  [ -f /tmp/w2-$id/seed${n}_patch.diff ] || continue
  echo "== $id r2 seed$n"
  /verif/tools/seedeval.sh /tmp/w2-$id $n quick $id "$@" 2>&1
  d=/verif/seeded/$id-$((n+2)); mkdir -p $d
  cp /tmp/w2-$id/seed${n}_patch.diff $d/patch.diff; cp /tmp/w2-$id/seed${n}_demo_test.go.txt $d/demo_test.go.txt; cp /tmp/w2-$id/seed${n}_meta.json $d/agent_meta.json
done
