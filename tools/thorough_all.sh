#!/bin/sh
# runs every thorough check once, logging wall time and verdict
cd "$(dirname "$0")/.."
for id in "$@"; do
  s=$(date +%s)
  out=$(./check $id thorough 2>&1); code=$?
  e=$(date +%s)
  echo "$id exit=$code wall=$((e-s))s $(echo "$out" | head -1)"
  if [ $code -ne 0 ]; then echo "$out" | grep -E "VIOLATION|INCONCLUSIVE|violations of kind|\]" | head -12; fi
done
