// Package exact provides exact rational arithmetic on float64 inputs.  A
// float64 converts to a big.Rat without error, so signs of determinants,
// squared distances, shoelace sums and centroids are computed exactly; square
// roots are taken in 400-bit big.Float arithmetic.
package exact

import (
	"math"
	"math/big"
)

const Prec = 400

// R converts a finite float64 exactly.
func R(f float64) *big.Rat {
	r := new(big.Rat)
	if r.SetFloat64(f) == nil {
		panic("exact.R: non-finite value")
	}
	return r
}

func Add(a, b *big.Rat) *big.Rat { return new(big.Rat).Add(a, b) }
func Sub(a, b *big.Rat) *big.Rat { return new(big.Rat).Sub(a, b) }
func Mul(a, b *big.Rat) *big.Rat { return new(big.Rat).Mul(a, b) }
func Quo(a, b *big.Rat) *big.Rat { return new(big.Rat).Quo(a, b) }
func Neg(a *big.Rat) *big.Rat    { return new(big.Rat).Neg(a) }
func Abs(a *big.Rat) *big.Rat    { return new(big.Rat).Abs(a) }
func Int(i int64) *big.Rat       { return new(big.Rat).SetInt64(i) }
func Zero() *big.Rat             { return new(big.Rat) }

// P is an exact 2-D point.
type P struct{ X, Y *big.Rat }

func Pt(x, y float64) P { return P{R(x), R(y)} }

// Cross returns (b-a) x (c-a).
func Cross(a, b, c P) *big.Rat {
	abx := Sub(b.X, a.X)
	aby := Sub(b.Y, a.Y)
	acx := Sub(c.X, a.X)
	acy := Sub(c.Y, a.Y)
	return Sub(Mul(abx, acy), Mul(aby, acx))
}

// Orient returns the sign of (b-a) x (c-a): +1 counter-clockwise, -1 clockwise, 0 collinear.
func Orient(a, b, c P) int { return Cross(a, b, c).Sign() }

// OrientF is Orient on float64 coordinates.
func OrientF(ax, ay, bx, by, cx, cy float64) int {
	return Orient(Pt(ax, ay), Pt(bx, by), Pt(cx, cy))
}

// Dot returns (b-a) . (c-a).
func Dot(a, b, c P) *big.Rat {
	return Add(Mul(Sub(b.X, a.X), Sub(c.X, a.X)), Mul(Sub(b.Y, a.Y), Sub(c.Y, a.Y)))
}

// Dist2 returns the squared distance between two points.
func Dist2(a, b P) *big.Rat {
	dx := Sub(a.X, b.X)
	dy := Sub(a.Y, b.Y)
	return Add(Mul(dx, dx), Mul(dy, dy))
}

func (p P) Eq(q P) bool { return p.X.Cmp(q.X) == 0 && p.Y.Cmp(q.Y) == 0 }

// Between says whether v lies in the closed interval spanned by a and b.
func Between(v, a, b *big.Rat) bool {
	if a.Cmp(b) > 0 {
		a, b = b, a
	}
	return v.Cmp(a) >= 0 && v.Cmp(b) <= 0
}

// OnSegment says whether p lies on the closed segment ab (a may equal b).
func OnSegment(p, a, b P) bool {
	if Orient(a, b, p) != 0 {
		return false
	}
	return Between(p.X, a.X, b.X) && Between(p.Y, a.Y, b.Y)
}

// PointSegDist2 is the exact squared distance from p to the closed segment ab.
func PointSegDist2(p, a, b P) *big.Rat {
	if a.Eq(b) {
		return Dist2(p, a)
	}
	len2 := Dist2(a, b)
	t := Dot(a, b, p) // (b-a).(p-a)
	if t.Sign() <= 0 {
		return Dist2(p, a)
	}
	if t.Cmp(len2) >= 0 {
		return Dist2(p, b)
	}
	// perpendicular distance^2 = cross^2 / len2
	cr := Cross(a, b, p)
	return Quo(Mul(cr, cr), len2)
}

// SegmentsIntersect says whether the closed segments ab and cd share a point.
func SegmentsIntersect(a, b, c, d P) bool {
	o1 := Orient(a, b, c)
	o2 := Orient(a, b, d)
	o3 := Orient(c, d, a)
	o4 := Orient(c, d, b)
	if o1*o2 < 0 && o3*o4 < 0 {
		return true
	}
	if o1 == 0 && OnSegment(c, a, b) {
		return true
	}
	if o2 == 0 && OnSegment(d, a, b) {
		return true
	}
	if o3 == 0 && OnSegment(a, c, d) {
		return true
	}
	if o4 == 0 && OnSegment(b, c, d) {
		return true
	}
	return false
}

// SegSegDist2 is the exact squared distance between two closed 2-D segments.
func SegSegDist2(a, b, c, d P) *big.Rat {
	if SegmentsIntersect(a, b, c, d) {
		return Zero()
	}
	m := PointSegDist2(a, c, d)
	for _, v := range []*big.Rat{PointSegDist2(b, c, d), PointSegDist2(c, a, b), PointSegDist2(d, a, b)} {
		if v.Cmp(m) < 0 {
			m = v
		}
	}
	return m
}

// F converts a rational to a 400-bit float.
func F(r *big.Rat) *big.Float {
	return new(big.Float).SetPrec(Prec).SetRat(r)
}

// Sqrt returns the square root of a non-negative rational at 400 bits.
func Sqrt(r *big.Rat) *big.Float {
	if r.Sign() < 0 {
		panic("exact.Sqrt: negative")
	}
	f := F(r)
	if f.Sign() == 0 {
		return f
	}
	return new(big.Float).SetPrec(Prec).Sqrt(f)
}

// F64 returns the nearest float64 of a rational (for reporting and tolerances).
func F64(r *big.Rat) float64 {
	f, _ := r.Float64()
	return f
}

// BF64 returns the nearest float64 of a big.Float.
func BF64(f *big.Float) float64 {
	v, _ := f.Float64()
	return v
}

// AbsDiffLE says whether |got - want| <= tol, with want a 400-bit float and tol a float64 >= 0.
// NaN or infinite got is never within tolerance.
func AbsDiffLE(got float64, want *big.Float, tol float64) bool {
	if math.IsNaN(got) || math.IsInf(got, 0) {
		return false
	}
	d := new(big.Float).SetPrec(Prec).SetFloat64(got)
	d.Sub(d, want)
	d.Abs(d)
	return d.Cmp(new(big.Float).SetPrec(Prec).SetFloat64(tol)) <= 0
}

// AbsDiff returns |got - want| as a float64.
func AbsDiff(got float64, want *big.Float) float64 {
	if math.IsNaN(got) || math.IsInf(got, 0) {
		return math.Inf(1)
	}
	d := new(big.Float).SetPrec(Prec).SetFloat64(got)
	d.Sub(d, want)
	d.Abs(d)
	return BF64(d)
}

// RatAbsDiffLE says whether |got - want| <= tol exactly (want rational).
func RatAbsDiffLE(got float64, want *big.Rat, tol *big.Rat) bool {
	if math.IsNaN(got) || math.IsInf(got, 0) {
		return false
	}
	d := Abs(Sub(R(got), want))
	return d.Cmp(tol) <= 0
}

// Pow2 returns 2^e as a rational.
func Pow2(e int) *big.Rat {
	if e >= 0 {
		return new(big.Rat).SetInt(new(big.Int).Lsh(big.NewInt(1), uint(e)))
	}
	return new(big.Rat).SetFrac(big.NewInt(1), new(big.Int).Lsh(big.NewInt(1), uint(-e)))
}
