package mon

import (
	"bytes"
	"encoding/binary"
	"encoding/json"
	"encoding/xml"
	"fmt"
	"io"
	"math"
	"os"
	"os/exec"
	"path/filepath"
	"regexp"
	"runtime"
	"runtime/debug"
	"sort"
	"strconv"
	"strings"
	"sync"
	"sync/atomic"
	"time"
	"unsafe"

	geom "github.com/twpayne/go-geom"
	"github.com/twpayne/go-geom/bigxy"
	"github.com/twpayne/go-geom/encoding/ewkb"
	"github.com/twpayne/go-geom/encoding/ewkbhex"
	"github.com/twpayne/go-geom/encoding/geojson"
	"github.com/twpayne/go-geom/encoding/igc"
	"github.com/twpayne/go-geom/encoding/kml"
	"github.com/twpayne/go-geom/encoding/wkb"
	"github.com/twpayne/go-geom/encoding/wkbcommon"
	"github.com/twpayne/go-geom/encoding/wkbhex"
	"github.com/twpayne/go-geom/encoding/wkt"
	"github.com/twpayne/go-geom/sorting"
	"github.com/twpayne/go-geom/transform"
	"github.com/twpayne/go-geom/xy"
	"github.com/twpayne/go-geom/xy/lineintersector"
	"github.com/twpayne/go-geom/xyz"

	"verifharness/fw"
	"verifharness/gen"
	"verifharness/model"
)

// C17 - queries, encoders and decoders are pure and safe to call concurrently.

// c17fx is the shared, read-only fixture set.
type c17fx struct {
	geoms  []geom.T    // generated geometries of all types
	models []*model.G  // their models
	flats  [][]float64 // XY flat point sets (some > 50 points)
	flats3 [][]float64 // XYZ point sets with repeated positions, some Z values NaN
	rings  [][]float64 // closed XY rings
	coords []geom.Coord
	wkbs   [][]byte
	ewkbs  [][]byte
	hexes  []string
	wkts   []string
	jsons  [][]byte
	feats  [][]byte
	igcs   [][]byte
	bounds []*geom.Bounds
	tracks []*geom.LineString
	// argument lists for the variadic centroid functions: four members in use, room
	// for more behind them (filled with sentinels), as a caller's slice may have
	lineLists [][]*geom.LineString
	ringLists [][]*geom.LinearRing
	polyLists [][]*geom.Polygon
	ptLists   [][]*geom.Point
	// shared objects that hold only options or read-only references
	wktEncs  []*wkt.Encoder
	sqlVals  []sqlWrapper
	featObjs []*geojson.Feature
	fcObj    *geojson.FeatureCollection
}

func c17Hash(fx *c17fx) uint64 {
	h := uint64(1469598103934665603)
	mixf := func(f float64) { h = (h ^ math.Float64bits(f)) * 1099511628211 }
	mixi := func(i int) { h = (h ^ uint64(i)) * 1099511628211 }
	mixb := func(b []byte) {
		for _, x := range b[:cap(b)] {
			h = (h ^ uint64(x)) * 1099511628211
		}
		mixi(len(b))
	}
	var hg func(t geom.T)
	hg = func(t geom.T) {
		if gc, ok := t.(*geom.GeometryCollection); ok {
			mixi(gc.NumGeoms())
			mixi(int(gc.Layout()))
			mixi(gc.SRID())
			for _, m := range gc.Geoms() {
				hg(m)
			}
			return
		}
		mixi(int(t.Layout()))
		mixi(t.Stride())
		mixi(t.SRID())
		// everything up to the capacity: a callee that appends to a slice it was
		// given writes into the spare capacity without changing what the caller sees
		fc := t.FlatCoords()
		for _, f := range fc[:cap(fc)] {
			mixf(f)
		}
		mixi(len(fc))
		es1 := t.Ends()
		for _, e := range es1[:cap(es1)] {
			mixi(e)
		}
		mixi(len(es1))
		ess := t.Endss()
		for _, es := range ess[:cap(ess)] {
			for _, e := range es[:cap(es)] {
				mixi(e)
			}
			mixi(len(es))
		}
		mixi(len(ess))
	}
	for _, g := range fx.geoms {
		hg(g)
	}
	for _, f := range fx.flats {
		for _, v := range f[:cap(f)] {
			mixf(v)
		}
		mixi(len(f))
	}
	for _, f := range fx.rings {
		for _, v := range f[:cap(f)] {
			mixf(v)
		}
		mixi(len(f))
	}
	for _, f := range fx.flats3 {
		for _, v := range f[:cap(f)] {
			mixf(v)
		}
		mixi(len(f))
	}
	for _, l := range fx.lineLists {
		for _, x := range l[:cap(l)] {
			mixi(int(uintptr(unsafe.Pointer(x))))
		}
	}
	for _, l := range fx.ringLists {
		for _, x := range l[:cap(l)] {
			mixi(int(uintptr(unsafe.Pointer(x))))
		}
	}
	for _, l := range fx.polyLists {
		for _, x := range l[:cap(l)] {
			mixi(int(uintptr(unsafe.Pointer(x))))
		}
	}
	for _, l := range fx.ptLists {
		for _, x := range l[:cap(l)] {
			mixi(int(uintptr(unsafe.Pointer(x))))
		}
	}
	for _, c := range fx.coords {
		for _, v := range c[:cap(c)] {
			mixf(v)
		}
		mixi(len(c))
	}
	for _, b := range fx.wkbs {
		mixb(b)
	}
	for _, b := range fx.ewkbs {
		mixb(b)
	}
	for _, b := range fx.jsons {
		mixb(b)
	}
	for _, b := range fx.feats {
		mixb(b)
	}
	for _, b := range fx.igcs {
		mixb(b)
	}
	for _, b := range fx.bounds {
		mixi(int(b.Layout()))
		for i := 0; i < b.Layout().Stride(); i++ {
			mixf(b.Min(i))
			mixf(b.Max(i))
		}
	}
	for _, t := range fx.tracks {
		hg(t)
	}
	return h
}

func c17Fixtures(seed uint64) *c17fx {
	r := fw.NewRand(seed, "C17", "fixtures", 0)
	fx := &c17fx{}
	finite := func(r *fw.Rand, stride int) []float64 {
		c := make([]float64, stride)
		for i := range c {
			c[i] = float64(r.Range(-1000, 1000)) / 8
		}
		return c
	}
	for i := 0; i < 120; i++ {
		var g *model.G
		layout := gen.StdLayouts[r.Intn(4)]
		switch {
		case i%6 == 5:
			g = c05Collection(r, layout, gen.ShapeOpts{Valid: true, CoordFn: finite}, 0)
		case i%2 == 0:
			g = gen.Shape(r, gen.Kinds7[i/2%7], layout, gen.SmallInt, gen.ShapeOpts{Valid: true, CoordFn: finite, NoEmptyPointMember: i%4 == 0})
		default:
			g = gen.Shape(r, gen.Kinds7[r.Intn(7)], layout, gen.SmallInt, gen.ShapeOpts{CoordFn: finite, Big: true})
		}
		g.SRID = []int{0, 4326}[r.Intn(2)]
		if i%5 == 2 {
			// rings that are closed only nearly: the last vertex one unit in the last
			// place off the first one, with other extra ordinates (a "helpful" callee
			// that snaps it shut writes to the caller's geometry)
			nearly := func(ring [][]float64) {
				if n := len(ring); n >= 4 {
					last := ring[n-1]
					last[0] = math.Nextafter(last[0], math.Inf(1))
					for k := 2; k < len(last); k++ {
						last[k] += 0.5
					}
				}
			}
			for _, ring := range g.C2 {
				nearly(ring)
			}
			for _, pg := range g.C3 {
				for _, ring := range pg {
					nearly(ring)
				}
			}
			if g.Kind == model.LinearRing {
				nearly(g.C1)
			}
		}
		t := g.BuildFlat()
		if g.Kind != model.Collection && i%3 != 0 {
			// storage with spare capacity behind every slice, filled with canaries
			t = c16Build(g, 1)
			geom.SetSRID(t, g.SRID)
			c17Canary(t.FlatCoords())
			c17CanaryInts(t.Ends())
			for _, es := range t.Endss() {
				c17CanaryInts(es)
			}
		}
		fx.geoms = append(fx.geoms, t)
		fx.models = append(fx.models, g)
		if _, isRing := t.(*geom.LinearRing); !isRing {
			if b, err := wkb.Marshal(t, wkb.NDR, wkbcommon.WKBOptionEmptyPointHandling(wkbcommon.EmptyPointHandlingNaN)); err == nil {
				fx.wkbs = append(fx.wkbs, b)
			}
			if b, err := ewkb.Marshal(t, ewkb.XDR); err == nil {
				fx.ewkbs = append(fx.ewkbs, b)
				fx.hexes = append(fx.hexes, fmt.Sprintf("%x", b))
			}
			if s, err := wkt.Marshal(t); err == nil {
				fx.wkts = append(fx.wkts, s)
			}
			if b, err := geojson.Marshal(t); err == nil {
				fx.jsons = append(fx.jsons, b)
				f := &geojson.Feature{ID: strconv.Itoa(i), Geometry: t, Properties: map[string]interface{}{"k": i}}
				if fb, err := f.MarshalJSON(); err == nil {
					fx.feats = append(fx.feats, fb)
				}
			}
		}
		fx.bounds = append(fx.bounds, t.Bounds())
		if _, isRing := t.(*geom.LinearRing); !isRing {
			kind := g.Kind
			if i%2 == 0 {
				fx.sqlVals = append(fx.sqlVals, ewkbWrapper(kind, t))
			} else {
				fx.sqlVals = append(fx.sqlVals, wkbWrapper(kind, t))
			}
			fo := &geojson.Feature{ID: "f" + strconv.Itoa(i), Geometry: t, Properties: map[string]interface{}{"k": float64(i), "s": "v"}}
			if !t.Empty() {
				fo.BBox = t.Bounds()
			}
			fx.featObjs = append(fx.featObjs, fo)
		}
	}
	fx.fcObj = &geojson.FeatureCollection{Features: fx.featObjs[:8]}
	fx.wktEncs = []*wkt.Encoder{wkt.NewEncoder(), wkt.NewEncoder(wkt.EncodeOptionWithMaxDecimalDigits(2)), wkt.NewEncoder(wkt.EncodeOptionWithMaxDecimalDigits(0))}
	fx.wkts = append(fx.wkts, "POINT (1 2", "LINESTRING (1 2)", "GEOMETRYCOLLECTION M (POINT (1 2 3))", "  multipoint z ((1 2 3), EMPTY)\n")
	// a complete geometry followed by something the lexer / the parser refuses
	fx.wkts = append(fx.wkts, "POINT (1 2) }", "LINESTRING (1 2, 3 4) 2.3.7", "POINT Z (1 2 3) FOO", "POLYGON EMPTY )", "MULTIPOINT (1 2, 3 4) ,", "POINT (1 2) POINT (3 4)", "point (1 2)\x00")
	fx.wkbs = append(fx.wkbs, []byte{1, 2, 0, 0, 0, 3, 0, 0, 0, 1, 2}, []byte{})
	for i := 0; i < 24; i++ {
		n := []int{1, 2, 3, 7, 30, 50, 51, 52, 80, 200}[i%10]
		f := make([]float64, 0, 2*n)
		for k := 0; k < n; k++ {
			f = append(f, float64(r.Range(-50, 50)), float64(r.Range(-50, 50)))
		}
		fx.flats = append(fx.flats, c17Canary(withSpare(f, 16)))
		ring := starRing(r, 0, 0, 100, r.Range(3, 12))
		fr := flatRing(ring, 2, nil)
		if i%2 == 1 {
			fr = fr[:len(fr)-2] // not closed: the first vertex is not repeated
		}
		fx.rings = append(fx.rings, c17Canary(withSpare(fr, 16)))
	}
	// degenerate point sets above the hull's 50-point switch: collinear on several
	// slopes, coincident, two values - unsorted, so that an in-place sort shows
	for i := 0; i < 7; i++ {
		n := []int{60, 80, 70, 55, 64, 51, 120}[i]
		f := make([]float64, 0, 2*n)
		for k := 0; k < n; k++ {
			t := float64(r.Range(-40, 40))
			switch i {
			case 0:
				f = append(f, t, -2*t)
			case 1:
				f = append(f, 3, 4)
			case 2:
				f = append(f, float64(r.Intn(2)*5), float64(r.Intn(2)*5))
			case 3:
				f = append(f, t, 7)
			case 4:
				f = append(f, t, t)
			case 5:
				f = append(f, -2, t)
			default:
				f = append(f, 3*t, 2*t+1)
			}
		}
		fx.flats = append(fx.flats, c17Canary(withSpare(f, 16)))
		ring := starRing(r, 0, 0, 100, r.Range(3, 12))
		fx.rings = append(fx.rings, c17Canary(withSpare(flatRing(ring, 2, nil), 16)))
	}
	// smooth tracks (small random steps): a simplification keeps a different
	// small subset of the points of each
	for i := 0; i < 12; i++ {
		n := []int{200, 190, 170, 150, 120, 100, 90, 64, 40, 200, 130, 75}[i]
		f := make([]float64, 0, 2*n)
		x, y := float64(r.Range(-20, 20)), float64(r.Range(-20, 20))
		for k := 0; k < n; k++ {
			x += float64(r.Range(0, 3))
			y += float64(r.Range(-2, 2))
			f = append(f, x, y)
		}
		fx.flats = append(fx.flats, c17Canary(withSpare(f, 16)))
		ring := starRing(r, 0, 0, 100, r.Range(3, 12))
		fx.rings = append(fx.rings, c17Canary(withSpare(flatRing(ring, 2, nil), 16)))
	}
	// XYZ point sets in which positions repeat and the Z of some occurrences is NaN
	// ("not measured"): de-duplication must not complete one occurrence from another
	for i := 0; i < 10; i++ {
		n := []int{4, 9, 30, 49, 50, 51, 60, 120, 7, 80}[i]
		f := make([]float64, 0, 3*n)
		for k := 0; k < n; k++ {
			x, y := float64(r.Range(-6, 6)), float64(r.Range(-6, 6))
			if i%2 == 1 {
				x, y = float64(r.Range(-300, 300)), float64(r.Range(-300, 300))
			}
			z := float64(100 + k)
			if r.Chance(1, 3) {
				z = math.NaN()
			}
			f = append(f, x, y, z)
			if r.Chance(1, 3) && len(f) < 3*n {
				f = append(f, x, y, float64(500+k)) // the same position again, measured
				k++
			}
		}
		fx.flats3 = append(fx.flats3, c17Canary(withSpare(f, 12)))
	}
	for i := 0; i < 6; i++ {
		ll := make([]*geom.LineString, 0, 8)
		rl := make([]*geom.LinearRing, 0, 8)
		pl := make([]*geom.Polygon, 0, 8)
		tl := make([]*geom.Point, 0, 8)
		for k := 0; k < 8; k++ {
			ox, oy := float64(r.Range(-50, 50)), float64(r.Range(-50, 50))
			w := float64(r.Range(1, 9))
			sq := []float64{ox, oy, ox + w, oy, ox + w, oy + w, ox, oy + w, ox, oy}
			ll = append(ll, geom.NewLineStringFlat(geom.XY, append([]float64{}, sq[:6]...)))
			rl = append(rl, geom.NewLinearRingFlat(geom.XY, append([]float64{}, sq...)))
			pl = append(pl, geom.NewPolygonFlat(geom.XY, append([]float64{}, sq...), []int{10}))
			tl = append(tl, geom.NewPointFlat(geom.XY, []float64{ox, oy}))
		}
		fx.lineLists = append(fx.lineLists, ll[:4])
		fx.ringLists = append(fx.ringLists, rl[:4])
		fx.polyLists = append(fx.polyLists, pl[:4])
		fx.ptLists = append(fx.ptLists, tl[:4])
	}
	for i := 0; i < 40; i++ {
		fx.coords = append(fx.coords, geom.Coord(c17Canary(withSpare([]float64{float64(r.Range(-20, 20)), float64(r.Range(-20, 20)), float64(r.Range(-20, 20))}, 4))))
	}
	// segment pairs in special position, four consecutive coordinates each: collinear
	// overlaps (whose reported end points are the caller's own coordinates), end
	// point and T touches, zero-length segments; some zero ordinates are written as
	// -0, which only a bitwise look at the inputs tells from 0
	nz := math.Copysign(0, -1)
	for _, q := range [][12]float64{
		{0, nz, 1, 4, nz, 2, 2, 0, 3, 6, nz, 4},                                             // horizontal overlap (2,0)-(4,0)
		{nz, 0, 1, nz, 8, 2, 0, 3, 3, nz, 5, 4},                                             // vertical containment
		{nz, nz, 0, 6, 6, 0, 2, 2, nz, 9, 9, 1},                                             // diagonal overlap
		{4, 0, 1, 0, nz, 2, 2, nz, 3, 6, 0, 4},                                              // overlap, first segment reversed
		{0, 0, nz, 5, nz, 1, 5, 0, 2, 9, 3, 3},                                              // end point touch at (5,0)
		{nz, nz, 1, 10, nz, 2, 5, 0, nz, 5, 7, 4},                                           // T touch at (5,0)
		{1, 1, 1, 1, 1, nz, 1, 1, 2, 4, 5, 6},                                               // zero-length first segment
		{0, 0, 1, 5, nz, 2, 5, 0, 3, 9, 0, 4},                                               // collinear, touching in one point whose two spellings differ in the sign of zero and in Z
		{1, 1, 7, 3, 3, 20, 3, 3, 99, 6, 6, 5},                                              // the same on a diagonal, Z differs
		{6, 6, 5, 3, 3, 99, 1, 1, 7, 3, 3, 20},                                              // the same, both reversed
		{-3, nz, 5, 3, nz, 5, nz, -4, 5, nz, 4, 5},                                          // proper crossing at the origin
		{-48, -561, 1, 294, 609, 2, -48.00000000000001, -560.9999999999999, 3, 650, 742, 4}, // cross within an ulp of an end point
		{-2762.9143171760657, -2277.3445764932712, 1, 596.6999235241909, 3167.547468779559, 2, -2762.9143171760657, -2277.344576493271, 3, 2797.8264950174625, 2356.6061003346695, 4}, // the same
		{0.1, 0.3, 1, 0.4, 1.2, 2, 0.30000000000000004, 0.9000000000000001, 3, -1, 1, 4},                                                                                              // T junction up to rounding
	} {
		for j := 0; j < 4; j++ {
			fx.coords = append(fx.coords, geom.Coord(c17Canary(withSpare([]float64{q[3*j], q[3*j+1], q[3*j+2]}, 4))))
		}
	}
	for i := 0; i < 6; i++ {
		n := r.Range(1, 30)
		flat := make([]float64, 0, 5*n)
		t0 := int64(946684800 + i*86400)
		for k := 0; k < n; k++ {
			flat = append(flat, r.Float01()*300-150, r.Float01()*160-80, float64(r.Range(0, 5000)), float64(t0+int64(k*60)), 0)
		}
		ls := geom.NewLineStringFlat(geom.Layout(5), flat)
		fx.tracks = append(fx.tracks, ls)
		var buf bytes.Buffer
		igc.NewEncoder(&buf, igc.A("XVF")).Encode(ls)
		fx.igcs = append(fx.igcs, buf.Bytes())
	}
	fx.igcs = append(fx.igcs, []byte(c19Seeds[1]), []byte(c19Seeds[2]))
	for _, bs := range []*[][]byte{&fx.wkbs, &fx.ewkbs, &fx.jsons, &fx.feats, &fx.igcs} {
		for i, b := range *bs {
			nb := make([]byte, len(b), len(b)+32)
			copy(nb, b)
			for j := len(b); j < cap(nb); j++ {
				nb[:cap(nb)][j] = 0xA5
			}
			(*bs)[i] = nb
		}
	}
	return fx
}

// c17Spelling changes the case of the letters of a WKT text, pattern drawn from k.
func c17Spelling(text string, k uint64) string {
	b := []byte(text)
	h := k*0x9E3779B97F4A7C15 + 0x1234567
	for i, ch := range b {
		if ch >= 'A' && ch <= 'Z' || ch >= 'a' && ch <= 'z' {
			h ^= h >> 29
			h *= 0xBF58476D1CE4E5B9
			if h>>40&1 == 1 {
				b[i] = ch ^ 0x20
			}
		}
	}
	return string(b)
}

// c17Canary fills the spare capacity of f with a recognisable value.
func c17Canary(f []float64) []float64 {
	full := f[:cap(f)]
	for i := len(f); i < len(full); i++ {
		full[i] = -7.25e300
	}
	return f
}

func c17CanaryInts(e []int) {
	full := e[:cap(e)]
	for i := len(e); i < len(full); i++ {
		full[i] = -424242
	}
}

type c17fn struct {
	name string
	n    func(fx *c17fx) int
	call func(fx *c17fx, k int) string
}

func fbits(f float64) string { return strconv.FormatUint(math.Float64bits(f), 16) }

func gstr(t geom.T, err error) string {
	if err != nil {
		return "err:" + err.Error()
	}
	if t == nil || isNilGeom(t) {
		return "nil"
	}
	if e := model.WF(t); e != nil {
		return "illformed:" + e.Error()
	}
	return model.FromGeom(t).String()
}

func cstr(c geom.Coord) string { return fw.Fs(c) }

var c17Registry = func() []c17fn {
	ng := func(fx *c17fx) int { return len(fx.geoms) }
	nc := func(fx *c17fx) int { return len(fx.coords) - 3 }
	var fns []c17fn
	add := func(name string, n func(*c17fx) int, call func(*c17fx, int) string) {
		fns = append(fns, c17fn{name, n, call})
	}
	type measurerT interface {
		Area() float64
		Length() float64
	}
	add("T.Area/Length", ng, func(fx *c17fx, k int) string {
		if m, ok := fx.geoms[k].(measurerT); ok {
			return fbits(m.Area()) + "/" + fbits(m.Length())
		}
		return "n/a"
	})
	add("T.Bounds", ng, func(fx *c17fx, k int) string {
		b := fx.geoms[k].Bounds()
		s := b.Layout().String()
		for i := 0; i < b.Layout().Stride(); i++ {
			s += fbits(b.Min(i)) + fbits(b.Max(i))
		}
		return s + fmt.Sprint(b.IsEmpty())
	})
	add("T.Empty/Layout/Stride/SRID", ng, func(fx *c17fx, k int) string {
		t := fx.geoms[k]
		return fmt.Sprint(t.Empty(), t.Layout(), t.Stride(), t.SRID())
	})
	add("T.Coords", ng, func(fx *c17fx, k int) string {
		switch x := fx.geoms[k].(type) {
		case *geom.Point:
			if x.Empty() {
				return "empty"
			}
			return fmt.Sprint(x.Coords())
		case *geom.LineString:
			return fmt.Sprint(x.Coords(), x.NumCoords())
		case *geom.LinearRing:
			return fmt.Sprint(x.Coords(), x.NumCoords())
		case *geom.Polygon:
			return fmt.Sprint(x.Coords())
		case *geom.MultiPoint:
			return fmt.Sprint(x.Coords(), x.NumCoords())
		case *geom.MultiLineString:
			return fmt.Sprint(x.Coords())
		case *geom.MultiPolygon:
			return fmt.Sprint(x.Coords())
		}
		return "n/a"
	})
	add("T.parts", ng, func(fx *c17fx, k int) string {
		var sb strings.Builder
		switch x := fx.geoms[k].(type) {
		case *geom.Polygon:
			for i := 0; i < x.NumLinearRings(); i++ {
				sb.WriteString(gstr(x.LinearRing(i), nil))
			}
		case *geom.MultiPoint:
			for i := 0; i < x.NumPoints(); i++ {
				sb.WriteString(gstr(x.Point(i), nil))
			}
		case *geom.MultiLineString:
			for i := 0; i < x.NumLineStrings(); i++ {
				sb.WriteString(gstr(x.LineString(i), nil))
			}
		case *geom.MultiPolygon:
			for i := 0; i < x.NumPolygons(); i++ {
				sb.WriteString(gstr(x.Polygon(i), nil))
			}
		case *geom.GeometryCollection:
			for i := 0; i < x.NumGeoms(); i++ {
				sb.WriteString(gstr(x.Geom(i), nil))
			}
		}
		return sb.String()
	})
	add("T.Clone", ng, func(fx *c17fx, k int) string {
		if c := c01Clone(fx.geoms[k]); c != nil {
			return gstr(c, nil)
		}
		return "n/a"
	})
	add("Bounds.Overlaps/OverlapsPoint/Polygon/Clone", ng, func(fx *c17fx, k int) string {
		b1, b2 := fx.bounds[k], fx.bounds[(k+1)%len(fx.bounds)]
		l := geom.XY
		return fmt.Sprint(b1.Overlaps(l, b2), b1.OverlapsPoint(l, fx.coords[k%len(fx.coords)]), gstr(b1.Polygon(), nil), b1.Clone().Layout())
	})
	add("xy.Centroid", ng, func(fx *c17fx, k int) string {
		c, err := xy.Centroid(fx.geoms[k])
		if err != nil {
			return "err"
		}
		return cstr(c)
	})
	add("xy.ConvexHull", ng, func(fx *c17fx, k int) string {
		if _, ok := fx.geoms[k].(*geom.GeometryCollection); ok {
			return "n/a"
		}
		return gstr(xy.ConvexHull(fx.geoms[k]), nil)
	})
	nf := func(fx *c17fx) int { return len(fx.flats) }
	add("xy.ConvexHullFlat", nf, func(fx *c17fx, k int) string { return gstr(xy.ConvexHullFlat(geom.XY, fx.flats[k]), nil) })
	add("xy.ConvexHullFlat(XYZ, repeated positions, NaN Z)", func(fx *c17fx) int { return len(fx.flats3) }, func(fx *c17fx, k int) string {
		return gstr(xy.ConvexHullFlat(geom.XYZ, fx.flats3[k]), nil) + gstr(xy.ConvexHull(geom.NewMultiPointFlat(geom.XYZ, fx.flats3[k])), nil)
	})
	add("xy centroids of a window of a caller's argument list", func(fx *c17fx) int { return len(fx.lineLists) }, func(fx *c17fx, k int) string {
		l, rg, pg, pt := fx.lineLists[k], fx.ringLists[k], fx.polyLists[k], fx.ptLists[k]
		return cstr(xy.LinesCentroid(l[0], l[1:3]...)) + cstr(xy.LinearRingsCentroid(rg[0], rg[1:3]...)) + cstr(xy.PolygonsCentroid(pg[0], pg[1:3]...)) + cstr(xy.PointsCentroid(pt[0], pt[1:3]...))
	})
	add("xy.PointsCentroidFlat", nf, func(fx *c17fx, k int) string { return cstr(xy.PointsCentroidFlat(geom.XY, fx.flats[k])) })
	add("xy.SimplifyFlatCoords", nf, func(fx *c17fx, k int) string { return fmt.Sprint(xy.SimplifyFlatCoords(fx.flats[k], float64(k%7), 2)) })
	add("transform.UniqueCoords", nf, func(fx *c17fx, k int) string {
		return fw.Fs(transform.UniqueCoords(geom.XY, c17cmp{}, fx.flats[k]))
	})
	add("xy.DistanceFromPointToLineString/IsOnLine", nf, func(fx *c17fx, k int) string {
		p := fx.coords[k%len(fx.coords)]
		return fbits(xy.DistanceFromPointToLineString(geom.XY, p, fx.flats[k])) + fmt.Sprint(xy.IsOnLine(geom.XY, p, fx.flats[k]))
	})
	nr := func(fx *c17fx) int { return len(fx.rings) }
	add("xy.LocatePointInRing/IsPointInRing", nr, func(fx *c17fx, k int) string {
		p := fx.coords[k%len(fx.coords)]
		return fmt.Sprint(xy.LocatePointInRing(geom.XY, p, fx.rings[k]), xy.IsPointInRing(geom.XY, p, fx.rings[k]))
	})
	add("xy.IsRingCounterClockwise/SignedArea", nr, func(fx *c17fx, k int) string {
		return fmt.Sprint(xy.IsRingCounterClockwise(geom.XY, fx.rings[k])) + fbits(xy.SignedArea(geom.XY, fx.rings[k]))
	})
	add("xy.OrientationIndex/bigxy.OrientationIndex", nc, func(fx *c17fx, k int) string {
		a, b, c := fx.coords[k], fx.coords[k+1], fx.coords[k+2]
		return fmt.Sprint(xy.OrientationIndex(a, b, c), bigxy.OrientationIndex(a, b, c))
	})
	add("bigxy.Intersection", nc, func(fx *c17fx, k int) string {
		return cstr(bigxy.Intersection(fx.coords[k], fx.coords[k+1], fx.coords[k+2], fx.coords[k+3]))
	})
	add("xy.distances", nc, func(fx *c17fx, k int) string {
		a, b, c, d := fx.coords[k], fx.coords[k+1], fx.coords[k+2], fx.coords[k+3]
		return fbits(xy.DistanceFromPointToLine(a, b, c)) + fbits(xy.PerpendicularDistanceFromPointToLine(a, b, c)) + fbits(xy.DistanceFromLineToLine(a, b, c, d)) + fbits(xy.Distance(a, b))
	})
	add("xy.angles", nc, func(fx *c17fx, k int) string {
		a, b, c := fx.coords[k], fx.coords[k+1], fx.coords[k+2]
		return fbits(xy.Angle(a, b)) + fbits(xy.AngleBetween(a, b, c)) + fbits(xy.AngleBetweenOriented(a, b, c)) + fbits(xy.InteriorAngle(a, b, c)) + fmt.Sprint(xy.IsAcute(a, b, c), xy.IsObtuse(a, b, c), xy.DoLinesOverlap(a, b, c, a), xy.IsPointWithinLineBounds(a, b, c), sorting.IsLess2D(a, b))
	})
	add("lineintersector.LineIntersectsLine(robust)", nc, func(fx *c17fx, k int) string {
		r := lineintersector.LineIntersectsLine(lineintersector.RobustLineIntersector{}, fx.coords[k], fx.coords[k+1], fx.coords[k+2], fx.coords[k+3])
		return fmt.Sprint(r.Type(), r.Intersection())
	})
	add("lineintersector.LineIntersectsLine(nonrobust)/PointIntersectsLine", nc, func(fx *c17fx, k int) string {
		r := lineintersector.LineIntersectsLine(lineintersector.NonRobustLineIntersector{}, fx.coords[k], fx.coords[k+1], fx.coords[k+2], fx.coords[k+3])
		return fmt.Sprint(r.Type(), r.Intersection(), lineintersector.PointIntersectsLine(lineintersector.RobustLineIntersector{}, fx.coords[k], fx.coords[k+1], fx.coords[k+2]))
	})
	add("lineintersector.LineIntersectsLine(robust, nonrobust, robust again)", nc, func(fx *c17fx, k int) string {
		a, b, c, d := fx.coords[k], fx.coords[k+1], fx.coords[k+2], fx.coords[k+3]
		r1 := lineintersector.LineIntersectsLine(lineintersector.RobustLineIntersector{}, a, b, c, d)
		s1 := fmt.Sprint(r1.Type(), r1.Intersection())
		r2 := lineintersector.LineIntersectsLine(lineintersector.NonRobustLineIntersector{}, a, b, c, d)
		r3 := lineintersector.LineIntersectsLine(lineintersector.RobustLineIntersector{}, a, b, c, d)
		return s1 + fmt.Sprint(r2.Type(), r2.Intersection(), r3.Type(), r3.Intersection(), r1.Type(), r1.Intersection())
	})
	add("NewBounds.SetCoords(shared coordinates).Extend(shared geometry)", nc, func(fx *c17fx, k int) string {
		// a box made from two of the caller's coordinates and extended afterwards:
		// the box is new, the coordinates and the geometry are only read
		b := geom.NewBounds(geom.XYZ).SetCoords(fx.coords[k], fx.coords[k+1])
		b.Extend(fx.geoms[k%len(fx.geoms)])
		out := b.Layout().String()
		for i := 0; i < b.Layout().Stride(); i++ {
			out += " " + fbits(b.Min(i)) + ":" + fbits(b.Max(i))
		}
		return out
	})
	add("xyz.*", nc, func(fx *c17fx, k int) string {
		a, b, c, d := fx.coords[k], fx.coords[k+1], fx.coords[k+2], fx.coords[k+3]
		return fbits(xyz.Distance(a, b)) + fbits(xyz.DistancePointToLine(a, b, c)) + fbits(xyz.DistanceLineToLine(a, b, c, d)) + fbits(xyz.VectorDot(a, b, c, d)) + fbits(xyz.VectorLength(a)) + cstr(xyz.VectorNormalize(a)) + fmt.Sprint(xyz.Equals(a, b))
	})
	add("wkb.Marshal/Write", ng, func(fx *c17fx, k int) string {
		b, err := wkb.Marshal(fx.geoms[k], wkb.XDR, wkbcommon.WKBOptionEmptyPointHandling(wkbcommon.EmptyPointHandlingNaN))
		var buf bytes.Buffer
		err2 := wkb.Write(&buf, binary.LittleEndian, fx.geoms[k])
		return fmt.Sprintf("%x %v %x %v", b, err, buf.Bytes(), err2)
	})
	add("ewkb.Marshal/ewkbhex.Encode/wkbhex.Encode", ng, func(fx *c17fx, k int) string {
		b, err := ewkb.Marshal(fx.geoms[k], ewkb.NDR)
		h, err2 := ewkbhex.Encode(fx.geoms[k], ewkbhex.XDR)
		h2, err3 := wkbhex.Encode(fx.geoms[k], wkbhex.NDR)
		return fmt.Sprintf("%x %v %s %v %s %v", b, err, h, err2, h2, err3)
	})
	add("wkb.Unmarshal/Read", func(fx *c17fx) int { return len(fx.wkbs) }, func(fx *c17fx, k int) string {
		o := wkbcommon.WKBOptionEmptyPointHandling(wkbcommon.EmptyPointHandlingNaN)
		t, err := wkb.Unmarshal(fx.wkbs[k], o)
		t2, err2 := wkb.Read(bytes.NewReader(fx.wkbs[k]), o)
		return gstr(t, err) + "|" + gstr(t2, err2)
	})
	add("ewkb.Unmarshal/ewkbhex.Decode", func(fx *c17fx) int { return len(fx.ewkbs) }, func(fx *c17fx, k int) string {
		t, err := ewkb.Unmarshal(fx.ewkbs[k])
		t2, err2 := ewkbhex.Decode(fx.hexes[k])
		return gstr(t, err) + "|" + gstr(t2, err2)
	})
	add("sql Value/Scan", ng, func(fx *c17fx, k int) string {
		var sb strings.Builder
		for _, kind := range sqlKinds {
			w := ewkbWrapper(kind, nil)
			if p, ok := fx.geoms[k].(*geom.Point); ok && kind == model.Point {
				w = &ewkb.Point{Point: p}
				v, err := w.Value()
				fmt.Fprintf(&sb, "%x %v;", v, err)
			}
			err := w.Scan(fx.ewkbs[k%len(fx.ewkbs)])
			sb.WriteString(gstr(wrappedGeom(w), err))
			w2 := wkbWrapper(kind, nil)
			err = w2.Scan(fx.wkbs[k%len(fx.wkbs)])
			sb.WriteString(fmt.Sprint(err == nil))
		}
		return sb.String()
	})
	add("wkt.Marshal", ng, func(fx *c17fx, k int) string {
		s, err := wkt.Marshal(fx.geoms[k])
		s2, err2 := wkt.Marshal(fx.geoms[k], wkt.EncodeOptionWithMaxDecimalDigits(k%4))
		return fmt.Sprint(s, err, s2, err2)
	})
	// the same texts with the letter case of every keyword drawn from k: 4096 spellings,
	// most of which the process parses for the first time while other goroutines
	// are in the parser as well (the cold phase comes before any sequential pass)
	add("wkt.Unmarshal(spelling never seen before)", func(fx *c17fx) int { return 4096 }, func(fx *c17fx, k int) string {
		t, err := wkt.Unmarshal(c17Spelling(fx.wkts[k%len(fx.wkts)], uint64(k)))
		if err != nil {
			return "err" // the message quotes the input
		}
		return gstr(t, nil)
	})
	add("wkt.Unmarshal", func(fx *c17fx) int { return len(fx.wkts) }, func(fx *c17fx, k int) string {
		t, err := wkt.Unmarshal(fx.wkts[k])
		return gstr(t, err)
	})
	add("geojson.Marshal/Encode", ng, func(fx *c17fx, k int) string {
		b, err := geojson.Marshal(fx.geoms[k])
		b2, err2 := geojson.Marshal(fx.geoms[k], geojson.EncodeGeometryWithMaxDecimalDigits(k%5), geojson.EncodeGeometryWithBBox())
		if fx.geoms[k].Empty() {
			b2, err2 = geojson.Marshal(fx.geoms[k], geojson.EncodeGeometryWithMaxDecimalDigits(k%5))
		}
		return fmt.Sprint(string(b), err, string(b2), err2)
	})
	add("geojson.Unmarshal", func(fx *c17fx) int { return len(fx.jsons) }, func(fx *c17fx, k int) string {
		var t geom.T
		err := geojson.Unmarshal(fx.jsons[k], &t)
		return gstr(t, err)
	})
	add("geojson.Feature/FeatureCollection", func(fx *c17fx) int { return len(fx.feats) }, func(fx *c17fx, k int) string {
		var f geojson.Feature
		err := f.UnmarshalJSON(fx.feats[k])
		if err != nil {
			return "err:" + err.Error()
		}
		b, err := f.MarshalJSON()
		fc := geojson.FeatureCollection{Features: []*geojson.Feature{&f}}
		b2, err2 := json.Marshal(&fc)
		return fmt.Sprint(string(b), err, string(b2), err2)
	})
	add("igc.Read", func(fx *c17fx) int { return len(fx.igcs) }, func(fx *c17fx, k int) string {
		t, err := igc.Read(bytes.NewReader(fx.igcs[k]))
		if t == nil {
			return "nil"
		}
		return gstr(t.LineString, nil) + fmt.Sprint(len(t.Headers), err)
	})
	add("igc.Encode", func(fx *c17fx) int { return len(fx.tracks) }, func(fx *c17fx, k int) string {
		var buf bytes.Buffer
		err := igc.NewEncoder(&buf, igc.A("XVF")).Encode(fx.tracks[k])
		return buf.String() + fmt.Sprint(err)
	})
	add("kml.Encode", ng, func(fx *c17fx, k int) string {
		e, err := kml.Encode(fx.geoms[k])
		if err != nil || e == nil {
			return fmt.Sprint("err:", err)
		}
		b, err := xml.Marshal(e)
		return string(b) + fmt.Sprint(err)
	})

	// ---- shared objects: one value used by every goroutine -------------------------
	add("wkt.Encoder(shared).Encode", ng, func(fx *c17fx, k int) string {
		var sb strings.Builder
		for _, e := range fx.wktEncs {
			s, err := e.Encode(fx.geoms[k])
			fmt.Fprint(&sb, s, err, ";")
		}
		return sb.String()
	})
	add("sql wrapper(shared).Value", func(fx *c17fx) int { return len(fx.sqlVals) }, func(fx *c17fx, k int) string {
		v, err := fx.sqlVals[k].Value()
		return fmt.Sprintf("%x %v", v, err)
	})
	add("geojson.Feature(shared).MarshalJSON/FeatureCollection(shared)", func(fx *c17fx) int { return len(fx.featObjs) }, func(fx *c17fx, k int) string {
		b, err := fx.featObjs[k].MarshalJSON()
		var b2 []byte
		var err2 error
		if k%8 == 0 {
			b2, err2 = fx.fcObj.MarshalJSON()
		}
		return fmt.Sprint(string(b), err, string(b2), err2)
	})
	add("geojson.Encode/Geometry.Decode", ng, func(fx *c17fx, k int) string {
		g, err := geojson.Encode(fx.geoms[k])
		if err != nil || g == nil {
			return fmt.Sprint("err:", err)
		}
		t, err := g.Decode()
		return gstr(t, err)
	})
	add("ewkb.Write/Read, wkbhex.Decode", func(fx *c17fx) int { return len(fx.ewkbs) }, func(fx *c17fx, k int) string {
		t, err := ewkb.Read(bytes.NewReader(fx.ewkbs[k]))
		var buf bytes.Buffer
		var err2 error
		if err == nil {
			err2 = ewkb.Write(&buf, binary.BigEndian, t)
		}
		t3, err3 := wkbhex.Decode(fx.hexes[k])
		return gstr(t, err) + fmt.Sprintf("|%x %v|", buf.Bytes(), err2) + gstr(t3, err3)
	})
	add("T.FlatCoords/Ends/Endss/Coord(i)", ng, func(fx *c17fx, k int) string {
		t := fx.geoms[k]
		if gc, ok := t.(*geom.GeometryCollection); ok {
			return fmt.Sprint(len(gc.Geoms()), gc.NumGeoms())
		}
		s := fw.Fs(t.FlatCoords()) + fmt.Sprint(t.Ends(), t.Endss())
		type coorder interface {
			Coord(int) geom.Coord
			NumCoords() int
		}
		if cc, ok := t.(coorder); ok {
			for i := 0; i < cc.NumCoords() && i < 4; i++ {
				s += cstr(cc.Coord(i))
			}
		}
		return s
	})
	add("xy typed centroids", ng, func(fx *c17fx, k int) (out string) {
		t := fx.geoms[k]
		if t.Empty() {
			return "empty"
		}
		switch x := t.(type) {
		case *geom.Point:
			return cstr(xy.PointsCentroid(x, x))
		case *geom.MultiPoint:
			return cstr(xy.MultiPointCentroid(x))
		case *geom.LineString:
			return cstr(xy.LinesCentroid(x, x))
		case *geom.LinearRing:
			return cstr(xy.LinearRingsCentroid(x))
		case *geom.MultiLineString:
			return cstr(xy.MultiLineCentroid(x))
		case *geom.Polygon:
			return cstr(xy.PolygonsCentroid(x, x))
		case *geom.MultiPolygon:
			return cstr(xy.MultiPolygonCentroid(x))
		}
		return "n/a"
	})
	add("sorting/radial/TreeSet on private copies", nf, func(fx *c17fx, k int) string {
		cp := append([]float64(nil), fx.flats[k]...)
		sort.Sort(sorting.NewFlatCoordSorting2D(geom.XY, cp))
		cp2 := append([]float64(nil), fx.flats[k]...)
		sort.Sort(xy.NewRadialSorting(geom.XY, cp2, fx.coords[k%len(fx.coords)]))
		ts := transform.NewTreeSet(geom.XY, c17cmp{})
		for i := 0; i+1 < len(fx.flats[k]); i += 2 {
			ts.Insert(fx.flats[k][i : i+2])
		}
		return fw.Fs(cp) + fw.Fs(cp2) + fw.Fs(ts.ToFlatArray())
	})
	add("xy flat functions on part sub-slices of shared geometries", ng, func(fx *c17fx, k int) string {
		// the flat arrays handed over here are windows into a larger shared
		// array: what lies behind them is the next ring / line of the same geometry
		t := fx.geoms[k]
		p := fx.coords[k%len(fx.coords)]
		var sb strings.Builder
		switch x := t.(type) {
		case *geom.Polygon:
			for i := 0; i < x.NumLinearRings(); i++ {
				f := x.LinearRing(i).FlatCoords()
				if len(f) >= 3*x.Stride() {
					fmt.Fprint(&sb, xy.IsPointInRing(x.Layout(), p, f), xy.LocatePointInRing(x.Layout(), p, f), xy.IsRingCounterClockwise(x.Layout(), f), fbits(xy.SignedArea(x.Layout(), f)))
				}
			}
		case *geom.MultiPolygon:
			for i := 0; i < x.NumPolygons(); i++ {
				pg := x.Polygon(i)
				for j := 0; j < pg.NumLinearRings(); j++ {
					f := pg.LinearRing(j).FlatCoords()
					if len(f) >= 3*x.Stride() {
						fmt.Fprint(&sb, xy.IsPointInRing(x.Layout(), p, f), xy.LocatePointInRing(x.Layout(), p, f))
					}
				}
			}
		case *geom.MultiLineString:
			for i := 0; i < x.NumLineStrings(); i++ {
				f := x.LineString(i).FlatCoords()
				if len(f) >= x.Stride() {
					fmt.Fprint(&sb, fbits(xy.DistanceFromPointToLineString(x.Layout(), p, f)), xy.SimplifyFlatCoords(f, 1, x.Stride()), gstr(xy.ConvexHullFlat(x.Layout(), f), nil))
					if len(f) >= 2*x.Stride() {
						fmt.Fprint(&sb, xy.IsOnLine(x.Layout(), p, f))
					}
				}
			}
		case *geom.LineString:
			if x.NumCoords() >= 3 {
				f := x.SubLineString(1, x.NumCoords()-1).FlatCoords()
				fmt.Fprint(&sb, fbits(xy.DistanceFromPointToLineString(x.Layout(), p, f)), xy.SimplifyFlatCoords(f, 1, x.Stride()), cstr(xy.PointsCentroidFlat(x.Layout(), f)))
			}
		}
		return sb.String()
	})
	add("xy angle helpers/Equal", nc, func(fx *c17fx, k int) string {
		a, b := fx.coords[k], fx.coords[k+1]
		return fbits(xy.AngleFromOrigin(a)) + fbits(xy.Normalize(a[0])) + fbits(xy.NormalizePositive(a[1])) + fbits(xy.Diff(a[0], b[0])) + fmt.Sprint(xy.AngleOrientation(a[0], b[0]), xy.Equal(a, 0, b, 0))
	})
	return fns
}()

type c17cmp struct{}

func (c17cmp) IsEquals(x, y geom.Coord) bool { return x[0] == y[0] && x[1] == y[1] }
func (c17cmp) IsLess(x, y geom.Coord) bool   { return sorting.IsLess2D(x, y) }

func c17Call(fn *c17fn, fx *c17fx, k int) (res string) {
	defer func() {
		if r := recover(); r != nil {
			res = fmt.Sprintf("panic: %v", r)
		}
	}()
	return fn.call(fx, k)
}

// c17Result is what one race-worker child reports.
type c17Result struct {
	Calls        map[string]int64 `json:"calls"`
	Overlaps     []string         `json:"overlaps"`
	Violations   []fw.Violation   `json:"violations"`
	InputsHashed int64            `json:"inputs_hashed"`
	Goroutines   int              `json:"goroutines"`
	Bursts       int              `json:"bursts"`
	ColdCalls    int64            `json:"cold_calls"`
}

// C17Worker is the child: phases 1-3 on one fixture set, at one GOMAXPROCS.
func C17Worker(seed uint64, procs int, tier string, out string) error {
	runtime.GOMAXPROCS(procs)
	fx := c17Fixtures(seed)
	res := c17Result{Calls: map[string]int64{}}
	addV := func(kind, detail string, input map[string]any) {
		if len(res.Violations) < 20 {
			res.Violations = append(res.Violations, fw.Violation{Prop: "C17", Class: "race", Seed: seed, Tier: tier, Kind: kind, Detail: detail, Key: kind + ":" + fw.Canon(input), Input: input})
		}
	}
	maxElems := wkbcommon.MaxGeometryElements
	defLayout := geojson.DefaultLayout
	h0 := c17Hash(fx)
	// phase 0: cold start.  The first calls this process makes into most of the
	// library are made by 32 goroutines at once, before any sequential pass has
	// had the chance to fill a lazily built table, cache or pool ("first use" is
	// where hidden shared state gets written).  No monitor synchronisation between
	// barrier and join; the results are compared with the golden ones afterwards.
	type rec struct {
		fi, k int
		res   string
	}
	var wg sync.WaitGroup
	coldLogs := make([][]rec, 32)
	{
		start0 := make(chan struct{})
		for g := range coldLogs {
			wg.Add(1)
			go func(g int) {
				defer wg.Done()
				r := fw.NewRand(seed, "C17", "cold", g)
				local := make([]rec, 0, 400)
				<-start0
				for i := 0; i < 400; i++ {
					fi := r.Intn(len(c17Registry))
					fn := &c17Registry[fi]
					k := r.Intn(fn.n(fx))
					local = append(local, rec{fi, k, c17Call(fn, fx, k)})
				}
				coldLogs[g] = local
			}(g)
		}
		close(start0)
		wg.Wait()
		if h := c17Hash(fx); h != h0 {
			addV("argument-modified", "the shared inputs changed during the cold-start concurrent phase", map[string]any{"phase": 0})
			h0 = h
		}
	}
	// phase 1: sequential, per-call input hashing, golden results
	golden := make([][]string, len(c17Registry))
	for fi := range c17Registry {
		fn := &c17Registry[fi]
		n := fn.n(fx)
		golden[fi] = make([]string, n)
		for k := 0; k < n; k++ {
			golden[fi][k] = c17Call(fn, fx, k)
			res.Calls[fn.name]++
			res.InputsHashed++
			if h := c17Hash(fx); h != h0 {
				addV("argument-modified", fmt.Sprintf("%s modified one of its arguments (fixture %d): the bitwise hash of the shared inputs changed", fn.name, k), map[string]any{"function": fn.name, "fixture": k})
				h0 = h
			}
			if again := c17Call(fn, fx, k); again != golden[fi][k] {
				addV("not-deterministic", fmt.Sprintf("%s returned a different result when called a second time on the same input (fixture %d)", fn.name, k), map[string]any{"function": fn.name, "fixture": k})
			}
		}
	}
	if wkbcommon.MaxGeometryElements != maxElems || geojson.DefaultLayout != defLayout {
		addV("global-modified", "a package-level variable (MaxGeometryElements / DefaultLayout) changed value", map[string]any{"phase": 1})
	}
	for g := range coldLogs {
		for _, rc := range coldLogs[g] {
			res.Calls[c17Registry[rc.fi].name]++
			res.ColdCalls++
			if rc.res != golden[rc.fi][rc.k] {
				addV("concurrent-result-differs", fmt.Sprintf("%s on fixture %d returned %s when called concurrently right after process start, %s when called alone later", c17Registry[rc.fi].name, rc.k, clipStr(rc.res, 200), clipStr(golden[rc.fi][rc.k], 200)),
					map[string]any{"function": c17Registry[rc.fi].name, "fixture": rc.k, "phase": "cold"})
			}
		}
	}
	// phase 1b: bursts with the garbage collector switched off.  A function that
	// recycles scratch memory (a sync.Pool, a package-level buffer) behaves
	// differently only once the same buffer has been through many calls; in a
	// harness that allocates as much as this one the collector empties every
	// pool before that.  So each function is called 3300 times in a row,
	// alternating between its largest and smallest fixtures, with no collection
	// in between; every result must be the golden one.
	for fi := range c17Registry {
		fn := &c17Registry[fi]
		n := fn.n(fx)
		if n == 0 {
			continue
		}
		// fixtures ordered by the size of their golden result, as a proxy for input size
		order := make([]int, n)
		for i := range order {
			order[i] = i
		}
		sort.Slice(order, func(a, b int) bool { return len(golden[fi][order[a]]) < len(golden[fi][order[b]]) })
		br := fw.NewRand(seed, "C17", "burst", fi)
		old := debug.SetGCPercent(-1)
		bad := -1
		call := func(k int) {
			if bad < 0 {
				if got := c17Call(fn, fx, k); got != golden[fi][k] {
					bad = k
				}
				res.Calls[fn.name]++
			}
		}
		small := func() int { return order[br.Intn((n+3)/4)] }
		big := func() int { return order[n/3+br.Intn(n-n/3)] }
		for i := 0; i < 300; i++ {
			switch br.Intn(4) { // drawn, not periodic: a period could stay in step with a recycling counter
			case 0:
				call(big())
			case 1, 2:
				call(small())
			default:
				call(br.Intn(n))
			}
		}
		// mostly small inputs, now and then a large one: what a large call left in
		// recycled memory beyond the reach of the small ones is still there when
		// the next large call comes, hundreds of calls later
		for i := 0; i < 3000; i++ {
			if br.Chance(1, 24) {
				call(big())
			} else {
				call(small())
			}
		}
		debug.SetGCPercent(old)
		if bad >= 0 {
			addV("history-dependent", fmt.Sprintf("%s on fixture %d returned a different result in the middle of a burst of calls (no garbage collection in between) than when called first", fn.name, bad), map[string]any{"function": fn.name, "fixture": bad, "phase": "burst"})
		}
	}
	res.Bursts = len(c17Registry)
	if h := c17Hash(fx); h != h0 {
		addV("argument-modified", "the shared inputs changed during the burst phase", map[string]any{"phase": "1b"})
		h0 = h
	}
	// phase 2: race hunting - no monitor synchronisation between the barrier and the join
	G, M := 64, 2000
	if tier == "thorough" {
		M = 6000
	}
	res.Goroutines = G
	logs := make([][]rec, G)
	start := make(chan struct{})
	for g := 0; g < G; g++ {
		wg.Add(1)
		go func(g int) {
			defer wg.Done()
			r := fw.NewRand(seed, "C17", "mix", g)
			local := make([]rec, 0, M)
			<-start
			for i := 0; i < M; i++ {
				fi := r.Intn(len(c17Registry))
				fn := &c17Registry[fi]
				k := r.Intn(fn.n(fx))
				local = append(local, rec{fi, k, c17Call(fn, fx, k)})
			}
			logs[g] = local
		}(g)
	}
	close(start)
	wg.Wait()
	for g := range logs {
		for _, rc := range logs[g] {
			res.Calls[c17Registry[rc.fi].name]++
			if rc.res != golden[rc.fi][rc.k] {
				addV("concurrent-result-differs", fmt.Sprintf("%s on fixture %d returned %s when called concurrently, %s when called alone", c17Registry[rc.fi].name, rc.k, clipStr(rc.res, 200), clipStr(golden[rc.fi][rc.k], 200)),
					map[string]any{"function": c17Registry[rc.fi].name, "fixture": rc.k})
			}
		}
	}
	if h := c17Hash(fx); h != h0 {
		addV("argument-modified", "the shared inputs changed during the concurrent phase", map[string]any{"phase": 2})
		h0 = h
	}
	// phase 3: measure which functions actually overlapped in time
	inflight := make([]int32, len(c17Registry))
	pairs := make([]map[[2]int]bool, 32)
	start3 := make(chan struct{})
	for g := 0; g < 32; g++ {
		wg.Add(1)
		go func(g int) {
			defer wg.Done()
			r := fw.NewRand(seed, "C17", "overlap", g)
			mine := map[[2]int]bool{}
			<-start3
			for i := 0; i < 600; i++ {
				fi := r.Intn(len(c17Registry))
				fn := &c17Registry[fi]
				k := r.Intn(fn.n(fx))
				atomic.AddInt32(&inflight[fi], 1)
				for o := range inflight {
					if atomic.LoadInt32(&inflight[o]) > 0 && (o != fi || atomic.LoadInt32(&inflight[o]) > 1) {
						a, b := fi, o
						if a > b {
							a, b = b, a
						}
						mine[[2]int{a, b}] = true
					}
				}
				c17Call(fn, fx, k)
				atomic.AddInt32(&inflight[fi], -1)
			}
			pairs[g] = mine
		}(g)
	}
	close(start3)
	wg.Wait()
	all := map[[2]int]bool{}
	for _, m := range pairs {
		for p := range m {
			all[p] = true
		}
	}
	for p := range all {
		res.Overlaps = append(res.Overlaps, c17Registry[p[0]].name+" || "+c17Registry[p[1]].name)
	}
	sort.Strings(res.Overlaps)
	if wkbcommon.MaxGeometryElements != maxElems || geojson.DefaultLayout != defLayout {
		addV("global-modified", "a package-level variable (MaxGeometryElements / DefaultLayout) changed value", map[string]any{"phase": 3})
	}
	b, err := json.Marshal(res)
	if err != nil {
		return err
	}
	return os.WriteFile(out, b, 0o644)
}

func readHead(path string, max int) []byte {
	f, err := os.Open(path)
	if err != nil {
		return nil
	}
	defer f.Close()
	buf := make([]byte, max)
	n, _ := io.ReadFull(f, buf)
	return buf[:n]
}

var raceFrameRe = regexp.MustCompile(`(?m)^\s+(github\.com/twpayne/go-geom\S*)\(\)\s*$`)

// raceKey names a race report by the outermost go-geom frame of each of its
// first two stacks (the two conflicting accesses), i.e. by the pair of entry
// points the harness called, so that one defect reached through many inner
// frames is reported once.
func raceKey(blk string) string {
	var names []string
	for _, st := range strings.Split(blk, "\n\n") {
		if len(names) >= 2 {
			break
		}
		head := strings.TrimSpace(st)
		if !(strings.HasPrefix(head, "WARNING: DATA RACE") || strings.HasPrefix(head, "Previous ") || strings.HasPrefix(head, "Read at") || strings.HasPrefix(head, "Write at")) {
			continue
		}
		fr := raceFrameRe.FindAllStringSubmatch(st, -1)
		if len(fr) == 0 {
			names = append(names, "(no go-geom frame)")
			continue
		}
		names = append(names, fr[len(fr)-1][1])
	}
	if len(names) == 0 {
		return "unknown"
	}
	sort.Strings(names)
	return strings.Join(names, " <-> ")
}

// c17Special is the parent: children at several GOMAXPROCS values and seeds
// under the race detector, race logs counted and de-duplicated.
func c17Special(p *fw.Parent) int {
	sum := fw.NewSummaryForSpecial()
	procsList := []int{2, 8, 16}
	nseeds := 3
	if p.Tier == "thorough" {
		nseeds = 30
	}
	raceDir := filepath.Join(p.Work, "race")
	os.MkdirAll(raceDir, 0o755)
	type job struct {
		seed  uint64
		procs int
	}
	var jobs []job
	for s := 0; s < nseeds; s++ {
		for _, pr := range procsList {
			jobs = append(jobs, job{p.Seed*1000 + uint64(s), pr})
		}
	}
	overlaps := map[string]bool{}
	reports := map[string]string{}
	nReports := 0
	var mu sync.Mutex
	sem := make(chan struct{}, 3) // a few children at a time: each wants its own cores
	var wg sync.WaitGroup
	for i, j := range jobs {
		wg.Add(1)
		sem <- struct{}{}
		go func(i int, j job) {
			defer wg.Done()
			defer func() { <-sem }()
			out := filepath.Join(p.Work, fmt.Sprintf("race-%d.json", i))
			logp := filepath.Join(raceDir, fmt.Sprintf("r%d", i))
			cmd := exec.Command(p.Exe, "race-worker", "-seed", strconv.FormatUint(j.seed, 10), "-procs", strconv.Itoa(j.procs), "-tier", p.Tier, "-out", out)
			cmd.Env = append(os.Environ(), "GORACE=halt_on_error=0 log_path="+logp)
			var stderr bytes.Buffer
			cmd.Stderr = &stderr
			done := make(chan error, 1)
			if err := cmd.Start(); err != nil {
				sum.AddInconclusive("cannot start race worker: " + err.Error())
				return
			}
			go func() { done <- cmd.Wait() }()
			var err error
			deadline := time.After(20 * time.Minute)
			tick := time.NewTicker(500 * time.Millisecond)
			flooded := false
		wait:
			for {
				select {
				case err = <-done:
					break wait
				case <-deadline:
					cmd.Process.Kill()
					<-done
					sum.AddInconclusive(fmt.Sprintf("watchdog: race worker seed=%d procs=%d exceeded 20m", j.seed, j.procs))
					tick.Stop()
					return
				case <-tick.C:
					// a racy build can write gigabytes of reports: a few MB are enough evidence
					var sz int64
					files, _ := filepath.Glob(logp + ".*")
					for _, f := range files {
						if st, e := os.Stat(f); e == nil {
							sz += st.Size()
						}
					}
					if sz > 4<<20 {
						flooded = true
						cmd.Process.Kill()
						err = <-done
						break wait
					}
				}
			}
			tick.Stop()
			// race reports
			files, _ := filepath.Glob(logp + ".*")
			for _, f := range files {
				data := readHead(f, 8<<20)
				blocks := strings.Split(string(data), "==================")
				for _, blk := range blocks {
					if !strings.Contains(blk, "WARNING: DATA RACE") {
						continue
					}
					key := raceKey(blk)
					mu.Lock()
					nReports++
					if _, ok := reports[key]; !ok {
						reports[key] = clipStr(strings.TrimSpace(blk), 3000)
					}
					mu.Unlock()
				}
			}
			data, rerr := os.ReadFile(out)
			if rerr != nil && flooded {
				sum.AddCounter("rounds_stopped_after_race_report_flood", 1)
				return
			}
			if rerr != nil {
				// the child died (fatal error: concurrent map writes, checkptr, ...)
				v := fw.Violation{Prop: "C17", Class: "race", Seed: j.seed, Tier: p.Tier, Kind: "process-death",
					Detail: fmt.Sprintf("race worker (GOMAXPROCS=%d) died: %v: %s", j.procs, err, clipStr(stderr.String(), 2500)),
					Input:  map[string]any{"seed": j.seed, "procs": j.procs}}
				v.Key = "process-death:" + strconv.FormatUint(j.seed, 10)
				sum.AddViolation(v)
				return
			}
			var r c17Result
			if json.Unmarshal(data, &r) != nil {
				sum.AddInconclusive("race worker result unreadable")
				return
			}
			mu.Lock()
			for _, o := range r.Overlaps {
				overlaps[o] = true
			}
			mu.Unlock()
			var n int64
			for k, v := range r.Calls {
				n += v
				sum.AddCounter("calls_"+k, v)
			}
			sum.AddEvals(n)
			sum.AddCounter("inputs_hashed", r.InputsHashed)
			sum.AddCounter("rounds", 1)
			sum.AddCounter(fmt.Sprintf("rounds_gomaxprocs_%d", j.procs), 1)
			sum.AddCounter("goroutines", int64(r.Goroutines+32+32))
			sum.AddCounter("gc_off_bursts_of_3300_calls", int64(r.Bursts))
			sum.AddCounter("cold_start_concurrent_calls", r.ColdCalls)
			for _, v := range r.Violations {
				sum.AddViolation(v)
			}
		}(i, j)
	}
	wg.Wait()
	keys := make([]string, 0, len(reports))
	for k := range reports {
		keys = append(keys, k)
	}
	sort.Strings(keys)
	for _, k := range keys {
		v := fw.Violation{Prop: "C17", Class: "race", Seed: p.Seed, Tier: p.Tier, Kind: "data-race",
			Detail: fmt.Sprintf("race detector report (%d reports in total), outermost go-geom frames %s:\n%s", nReports, k, reports[k]),
			Input:  map[string]any{"frames": k}}
		v.Key = "data-race:" + k
		sum.AddViolation(v)
	}
	sum.AddCounter("race_reports", int64(nReports))
	sum.AddCounter("functions_in_registry", int64(len(c17Registry)))
	for o := range overlaps {
		sum.AddDistinct("overlap/" + o)
	}
	var os3 []string
	for o := range overlaps {
		os3 = append(os3, o)
	}
	sort.Strings(os3)
	if len(os3) > 6 {
		os3 = os3[:6]
	}
	for _, o := range os3 {
		sum.AddSample(map[string]any{"functions_observed_overlapping_in_time": o})
	}
	return p.Finish(sum.S())
}

func init() {
	fw.Register(&fw.Monitor{
		ID:         "C17",
		Title:      "queries, encoders and decoders are pure and safe to call concurrently",
		Rule:       "a registry of non-mutating exported entry points (measures, bounds, accessors, Clone, every xy/xyz/bigxy function incl. hulls of <=50 and >50 points, centroids, point location, both intersection strategies, simplification, distances; wkb/ewkb/hex/sql/wkt/geojson/igc/kml encoders and decoders) is run over one shared fixture set: phase 1 sequentially with a bitwise hash of all shared inputs after every call and a repeat call (golden results); phase 2 with 64 goroutines x 2000 random calls under the Go race detector and no monitor synchronisation between start barrier and join, each result compared with the golden one; phase 3 with an atomic in-flight table to measure which function pairs overlapped in time; repeated at GOMAXPROCS 2, 8, 16 and 3 (thorough 30) fixture seeds. distinct_nontrivial = distinct function pairs observed in flight at the same time",
		Assume:     []string{"the Go race detector reports unordered conflicting accesses on the paths executed; checkptr is on in -race builds", "happens-before edges added by the harness exist only at the start barrier and the final join of phase 2"},
		MemLimitKB: -1,
		Special:    c17Special,
		Require:    []string{"rounds", "rounds_gomaxprocs_2", "rounds_gomaxprocs_16", "inputs_hashed"},
	})
}
