package mon

import (
	"bytes"
	"fmt"
	"math"
	"strconv"
	"strings"

	geom "github.com/twpayne/go-geom"
	"github.com/twpayne/go-geom/encoding/wkt"

	"verifharness/fw"
	"verifharness/gen"
	"verifharness/model"
	"verifharness/ref"
)

// C06 - the WKT parser is total and accepts only consistent geometries.

// c06Consistent checks what the property promises about an accepted geometry.
func c06Consistent(t geom.T, root geom.Layout) string {
	if gc, ok := t.(*geom.GeometryCollection); ok {
		if gc.Layout() != root {
			return fmt.Sprintf("collection reports layout %s inside a %s geometry", gc.Layout(), root)
		}
		for i, m := range gc.Geoms() {
			if d := c06Consistent(m, root); d != "" {
				return fmt.Sprintf("member %d: %s", i, d)
			}
		}
		return ""
	}
	l := t.Layout()
	if l != root {
		return fmt.Sprintf("%T has layout %s inside a %s geometry", t, l, root)
	}
	if l != geom.XY && l != geom.XYZ && l != geom.XYM && l != geom.XYZM {
		return fmt.Sprintf("%T has layout %s (points need 2..4 ordinates)", t, l)
	}
	stride := t.Stride()
	flat := t.FlatCoords()
	closed := func(from, to int) bool {
		dims := 2
		if l.ZIndex() != -1 {
			dims = 3
		}
		for k := 0; k < dims; k++ {
			if flat[from+k] != flat[to-stride+k] {
				return false
			}
		}
		return true
	}
	switch x := t.(type) {
	case *geom.LineString:
		if n := len(flat) / stride; n == 1 {
			return "linestring with a single point"
		}
	case *geom.MultiLineString:
		off := 0
		for i, e := range x.Ends() {
			if (e-off)/stride == 1 {
				return fmt.Sprintf("multilinestring member %d has a single point", i)
			}
			off = e
		}
	case *geom.Polygon:
		off := 0
		for i, e := range x.Ends() {
			n := (e - off) / stride
			if n < 4 {
				return fmt.Sprintf("polygon ring %d has %d points", i, n)
			}
			if !closed(off, e) {
				return fmt.Sprintf("polygon ring %d is not closed", i)
			}
			off = e
		}
	case *geom.MultiPolygon:
		off := 0
		for pi, es := range x.Endss() {
			for i, e := range es {
				n := (e - off) / stride
				if n < 4 {
					return fmt.Sprintf("polygon %d ring %d has %d points", pi, i, n)
				}
				if !closed(off, e) {
					return fmt.Sprintf("polygon %d ring %d is not closed", pi, i)
				}
				off = e
			}
		}
	}
	return ""
}

func maxDepth(t geom.T) int {
	if gc, ok := t.(*geom.GeometryCollection); ok {
		d := 0
		for _, m := range gc.Geoms() {
			if x := maxDepth(m); x > d {
				d = x
			}
		}
		return d + 1
	}
	return 0
}

// c06Check is the monitor applied to every input string.
func c06Check(c *fw.Ctx, s string, class string, mustReject string) {
	c.SetRawInput(map[string]any{"class": class, "wkt": clipStr(fmt.Sprintf("%q", s), 900)}, []byte(s))
	var t geom.T
	var err error
	if c.Guard("panic", func() { t, err = wkt.Unmarshal(s) }) {
		return
	}
	c.Eval(1)
	c.Count("class_" + class)
	if err != nil {
		c.Count("rejected")
		var msg string
		if c.Guard("error-message-panic", func() { msg = err.Error() }) {
			return
		}
		if msg == "" {
			c.Fail("empty-error", "the error message is empty")
		}
		// an error value can be rendered as often as the caller likes
		var msg2 string
		if c.Guard("error-message-panic", func() { msg2 = err.Error() }) {
			return
		}
		if msg2 != msg {
			c.Fail("error-message-changes", "the error renders as %q the first time and as %q the second time", clipStr(msg, 200), clipStr(msg2, 200))
			return
		}
		if t != nil && !isNilGeom(t) {
			c.Fail("error-and-geometry", "Unmarshal returned both an error and a geometry")
		}
		if mustReject != "" {
			c.Count("must_reject_" + mustReject)
		}
		// first word of the problem, as a coarse error kind
		if i := strings.Index(msg, " at line"); i > 0 {
			k := strings.TrimPrefix(msg[:i], "syntax error: ")
			if j := strings.IndexAny(k, ",:"); j > 0 {
				k = k[:j]
			}
			if len(k) > 40 {
				k = k[:40]
			}
			c.Distinct("err/" + k)
		}
		// a rejected input must leave nothing behind: a valid text parsed right
		// after it is accepted as usual
		if c.R.Chance(1, 3) {
			var t2 geom.T
			var err2 error
			if c.Guard("panic", func() { t2, err2 = wkt.Unmarshal("LINESTRING Z (1 2 3, 4 5 6)") }) {
				return
			}
			c.Count("valid_text_parsed_after_a_rejected_one")
			if err2 != nil || t2 == nil || !model.BitsEq(t2.FlatCoords(), []float64{1, 2, 3, 4, 5, 6}) || t2.Layout() != geom.XYZ {
				c.Fail("state-left-behind", "after this input was rejected, parsing LINESTRING Z (1 2 3, 4 5 6) gave %v, %v", t2, err2)
			}
		}
		return
	}
	c.Count("accepted")
	if t == nil || isNilGeom(t) {
		c.Fail("nil-nil", "Unmarshal returned neither a geometry nor an error")
		return
	}
	if mustReject != "" {
		c.Fail("accepted-invalid", "input with defect %q was accepted as %s", mustReject, model.FromGeom(t))
		return
	}
	if !wfCheck(c, "wkt.Unmarshal", t) {
		return
	}
	if d := c06Consistent(t, t.Layout()); d != "" {
		c.Fail("inconsistent-geometry", "accepted geometry is not consistent: %s (%s)", d, model.FromGeom(t))
		return
	}
	c.Max("collection_depth", float64(maxDepth(t)))
	c.Distinct("ok/" + model.FromGeom(t).Sig())
	// re-encode -> parse gives an equal geometry
	var text string
	if c.Guard("panic", func() { text, err = wkt.Marshal(t) }) {
		return
	}
	c.Eval(1)
	if err != nil {
		c.Fail("reencode-failed", "an accepted geometry cannot be re-encoded: %v", err)
		return
	}
	var t2 geom.T
	if c.Guard("panic", func() { t2, err = wkt.Unmarshal(text) }) {
		return
	}
	c.Eval(1)
	if err != nil {
		c.Fail("reparse-failed", "parsing the re-encoded text %q failed: %v", clipStr(text, 300), err)
		return
	}
	if d := snap(t).diff(snap(t2)); d != "" {
		c.Fail("not-canonical", "parse(encode(g)) differs from g: %s", d)
		return
	}
	if c.R.Chance(1, 4) {
		// both parse results are the caller's now
		callerScribbles(c, t)
		callerScribbles(c, t2)
	}
}

var c06Tokens = func() []string {
	var t []string
	for _, k := range []string{"POINT", "LINESTRING", "POLYGON", "MULTIPOINT", "MULTILINESTRING", "MULTIPOLYGON", "GEOMETRYCOLLECTION"} {
		for _, s := range []string{"", "Z", "M", "ZM"} {
			t = append(t, k+s)
		}
	}
	t = append(t, "EMPTY", "(", ")", ",", "1", "1 2", "1 2 3", "1 2 3 4", "1 2 3 4 5")
	return t
}()

// (i) every token sequence of a given length
func c06Seq(length int) func(c *fw.Ctx, idx int) {
	return func(c *fw.Ctx, idx int) {
		n := len(c06Tokens)
		parts := make([]string, length)
		k := idx
		for i := length - 1; i >= 0; i-- {
			parts[i] = c06Tokens[k%n]
			k /= n
		}
		c06Check(c, strings.Join(parts, " "), fmt.Sprintf("tokens-%d", length), "")
	}
}

func pow(a, b int) int {
	r := 1
	for i := 0; i < b; i++ {
		r *= a
	}
	return r
}

// (ii) grammar-guided random derivations with suffix mixing
type c06gen struct {
	r  *fw.Rand
	sb strings.Builder
}

func (g *c06gen) sfx() string {
	return []string{"", "", " Z", " M", " ZM", "Z", "M", "ZM"}[g.r.Intn(8)]
}

func (g *c06gen) coord(n int) string {
	parts := make([]string, n)
	for i := range parts {
		parts[i] = fmt.Sprint(g.r.Range(0, 3))
	}
	return strings.Join(parts, " ")
}

func (g *c06gen) pts(n, arity int, closed bool) string {
	var ps []string
	for i := 0; i < n; i++ {
		ps = append(ps, g.coord(arity))
	}
	if closed && n > 1 {
		ps[n-1] = ps[0]
	}
	return "(" + strings.Join(ps, ", ") + ")"
}

func (g *c06gen) geomText(depth int, arity int) string {
	r := g.r
	if r.Chance(1, 8) {
		arity = r.Range(1, 5)
	}
	empty := r.Chance(1, 4)
	switch k := r.Intn(8); {
	case k == 0:
		if empty {
			return "POINT" + g.sfx() + " EMPTY"
		}
		return "POINT" + g.sfx() + " (" + g.coord(arity) + ")"
	case k == 1:
		if empty {
			return "LINESTRING" + g.sfx() + " EMPTY"
		}
		return "LINESTRING" + g.sfx() + " " + g.pts(r.Range(1, 4), arity, false)
	case k == 2:
		if empty {
			return "POLYGON" + g.sfx() + " EMPTY"
		}
		var rings []string
		for i := 0; i < r.Range(1, 2); i++ {
			rings = append(rings, g.pts(r.Range(3, 5), arity, !r.Chance(1, 6)))
		}
		return "POLYGON" + g.sfx() + " (" + strings.Join(rings, ", ") + ")"
	case k == 3:
		if empty {
			return "MULTIPOINT" + g.sfx() + " EMPTY"
		}
		var ms []string
		for i := 0; i < r.Range(1, 3); i++ {
			switch r.Intn(3) {
			case 0:
				ms = append(ms, "EMPTY")
			case 1:
				ms = append(ms, g.coord(arity))
			default:
				ms = append(ms, "("+g.coord(arity)+")")
			}
		}
		return "MULTIPOINT" + g.sfx() + " (" + strings.Join(ms, ", ") + ")"
	case k == 4:
		if empty {
			return "MULTILINESTRING" + g.sfx() + " EMPTY"
		}
		var ms []string
		for i := 0; i < r.Range(1, 3); i++ {
			if r.Chance(1, 3) {
				ms = append(ms, "EMPTY")
			} else {
				ms = append(ms, g.pts(r.Range(1, 3), arity, false))
			}
		}
		return "MULTILINESTRING" + g.sfx() + " (" + strings.Join(ms, ", ") + ")"
	case k == 5:
		if empty {
			return "MULTIPOLYGON" + g.sfx() + " EMPTY"
		}
		var ms []string
		for i := 0; i < r.Range(1, 3); i++ {
			if r.Chance(1, 3) {
				ms = append(ms, "EMPTY")
			} else {
				ms = append(ms, "("+g.pts(r.Range(3, 5), arity, !r.Chance(1, 8))+")")
			}
		}
		return "MULTIPOLYGON" + g.sfx() + " (" + strings.Join(ms, ", ") + ")"
	default:
		if empty || depth >= 8 {
			return "GEOMETRYCOLLECTION" + g.sfx() + " EMPTY"
		}
		var ms []string
		for i := 0; i < r.Range(1, 3); i++ {
			ms = append(ms, g.geomText(depth+1, arity))
		}
		return "GEOMETRYCOLLECTION" + g.sfx() + " (" + strings.Join(ms, ", ") + ")"
	}
}

func c06Grammar(c *fw.Ctx, idx int) {
	g := &c06gen{r: c.R}
	s := g.geomText(0, c.R.Range(2, 4))
	c06Check(c, s, "grammar", "")
	if c.WantSample() && len(s) < 160 {
		c.Sample(s)
	}
}

// (iii) valid text with exactly one defect injected: must be rejected
func c06MustReject(c *fw.Ctx, idx int) {
	r := c.R
	for try := 0; try < 50; try++ {
		g := c05Model(r)
		bad, defect := c06Tamper(r, g)
		if defect == "" {
			continue
		}
		st := &ref.WKTStyle{R: r, MixedCase: r.Chance(1, 4), Whitespace: r.Chance(1, 4), BareMultiPt: r.Bool(), DetachSuffix: r.Bool()}
		c06Check(c, st.Spell(bad), "one-defect", defect)
		if c.WantSample() {
			c.Sample(c.Input())
		}
		return
	}
	c.Count("skipped_no_defect_applicable")
}

// c06Tamper injects one defect into a valid model (or returns "" if none applies).
func c06Tamper(r *fw.Rand, g *model.G) (*model.G, string) {
	b := g.Clone()
	// pick a non-collection target (possibly a collection member)
	target := b
	var parent *model.G
	for target.Kind == model.Collection {
		if len(target.Members) == 0 {
			return nil, ""
		}
		parent = target
		target = target.Members[r.Intn(len(target.Members))]
	}
	tagged := target.Layout != geom.XY
	stride := target.Layout.Stride()
	coordsOf := func() [][]float64 { return target.AllCoords() }
	switch r.Intn(6) {
	case 0: // one coordinate with another arity
		cs := coordsOf()
		if len(cs) == 0 || (!tagged && len(cs) < 2) {
			return nil, ""
		}
		i := r.Intn(len(cs))
		nc := append([]float64{}, cs[i]...)
		if r.Bool() && len(nc) < 4 || len(nc) <= 2 {
			nc = append(nc, 7)
		} else {
			nc = nc[:len(nc)-1]
		}
		replaceCoord(target, i, nc)
		return b, "mixed-dimension coordinate"
	case 1: // unclosed ring
		rings := ringsOf(target)
		if len(rings) == 0 {
			return nil, ""
		}
		ring := rings[r.Intn(len(rings))]
		last := ring[len(ring)-1]
		last[0] = last[0] + 1
		if math.IsInf(last[0], 0) || last[0] == ring[0][0] {
			last[0] = ring[0][0]/2 + 1
			if last[0] == ring[0][0] {
				return nil, ""
			}
		}
		return b, "unclosed ring"
	case 2: // ring with fewer than 4 points (still closed)
		switch target.Kind {
		case model.Polygon:
			if len(target.C2) == 0 {
				return nil, ""
			}
			i := r.Intn(len(target.C2))
			n := r.Range(1, 3)
			target.C2[i] = shortRing(target.C2[i], n)
		case model.MultiPolygon:
			var cand []int
			for i, p := range target.C3 {
				if len(p) > 0 {
					cand = append(cand, i)
				}
			}
			if len(cand) == 0 {
				return nil, ""
			}
			p := target.C3[cand[r.Intn(len(cand))]]
			i := r.Intn(len(p))
			p[i] = shortRing(p[i], r.Range(1, 3))
		default:
			return nil, ""
		}
		return b, "ring with fewer than 4 points"
	case 3: // one-point linestring
		switch target.Kind {
		case model.LineString:
			if len(target.C1) < 2 {
				return nil, ""
			}
			target.C1 = target.C1[:1]
		case model.MultiLineString:
			var cand []int
			for i, l := range target.C2 {
				if len(l) >= 2 {
					cand = append(cand, i)
				}
			}
			if len(cand) == 0 {
				return nil, ""
			}
			i := cand[r.Intn(len(cand))]
			target.C2[i] = target.C2[i][:1]
		default:
			return nil, ""
		}
		return b, "one-point linestring"
	case 4: // point with 1 or 5 ordinates
		cs := coordsOf()
		if len(cs) == 0 {
			return nil, ""
		}
		if target.Kind != model.Point && target.Kind != model.MultiPoint {
			return nil, ""
		}
		n := []int{1, 5, 6}[r.Intn(3)]
		nc := make([]float64, n)
		for i := range nc {
			nc[i] = float64(i + 1)
		}
		for i := range cs {
			replaceCoord(target, i, nc)
		}
		_ = stride
		return b, "point with 1 or >4 ordinates"
	default: // a collection member of another dimensionality
		if parent == nil {
			return nil, ""
		}
		var others []geom.Layout
		for _, l := range gen.StdLayouts {
			if l != parent.Layout {
				others = append(others, l)
			}
		}
		nl := others[r.Intn(len(others))]
		// the collection must pin its layout independently of the replaced member
		pinned := parent.Layout != geom.XY
		if !pinned {
			cnt := 0
			for _, m := range parent.Members {
				if m != target && !m.IsEmpty() {
					cnt++
				}
			}
			pinned = cnt > 0
		}
		if !pinned {
			return nil, ""
		}
		for i, m := range parent.Members {
			if m == target {
				nm := gen.Shape(r, gen.Kinds6[r.Intn(6)], nl, gen.SmallInt, gen.ShapeOpts{Valid: true, NoEmptyPoint: true})
				if nm.IsEmpty() {
					return nil, ""
				}
				parent.Members[i] = nm
			}
		}
		return b, "collection member of another dimensionality"
	}
}

func shortRing(ring [][]float64, n int) [][]float64 {
	out := append([][]float64{}, ring[:n]...)
	if n > 1 {
		out[n-1] = append([]float64{}, out[0]...)
	}
	return out
}

func ringsOf(g *model.G) [][][]float64 {
	var out [][][]float64
	switch g.Kind {
	case model.Polygon:
		out = append(out, g.C2...)
	case model.MultiPolygon:
		for _, p := range g.C3 {
			out = append(out, p...)
		}
	}
	return out
}

func replaceCoord(g *model.G, idx int, nc []float64) {
	k := 0
	switch g.Kind {
	case model.Point:
		g.C0 = nc
	case model.LineString, model.LinearRing:
		g.C1[idx] = nc
	case model.MultiPoint:
		for i := range g.C1 {
			if len(g.C1[i]) == 0 {
				continue
			}
			if k == idx {
				g.C1[i] = nc
				return
			}
			k++
		}
	case model.Polygon, model.MultiLineString:
		for i := range g.C2 {
			for j := range g.C2[i] {
				if k == idx {
					g.C2[i][j] = nc
					return
				}
				k++
			}
		}
	case model.MultiPolygon:
		for i := range g.C3 {
			for j := range g.C3[i] {
				for l := range g.C3[i][j] {
					if k == idx {
						g.C3[i][j][l] = nc
						return
					}
					k++
				}
			}
		}
	}
}

// (iv) mutations and splices of valid WKT, (v) raw bytes
func c06Mutate(c *fw.Ctx, idx int) {
	r := c.R
	g := c05Model(r)
	st := &ref.WKTStyle{R: r, MixedCase: r.Bool(), Whitespace: r.Bool(), BareMultiPt: r.Bool(), DetachSuffix: r.Bool(), ExponentNums: r.Bool()}
	s := []byte(st.Spell(g))
	alphabet := "()(), ,  \n\tEMPTYZMzm0123456789.-+eE" + "POINTLINESTRINGPOLYGONMULTIGEOMETRYCOLLECTION" + "\x00\xff\x80\xa0\x85;#\"'"
	class := "mutation"
	switch r.Intn(7) {
	case 5, 6:
		// long runs of one byte (blanks, newlines, digits, brackets, letters)
		// before, after or inside a text that may also be cut short: error
		// positions far from the start of a line, far from its end, at the very
		// end of a long blank tail, on a later line
		class = "padding"
		if r.Bool() {
			s = s[:r.Intn(len(s)+1)]
		}
		k := r.Range(1, 3)
		for i := 0; i < k; i++ {
			const fills = " \t\n\r 0(A)  ,\xa0\x85\xa0"
			fill := fills[r.Intn(len(fills))]
			run := bytes.Repeat([]byte{fill}, []int{29, 30, 31, 32, 33, 59, 60, 61, 62, 100, 257}[r.Intn(11)]+r.Intn(2))
			if r.Chance(1, 10) {
				// blanks of the non-ASCII kind followed directly by bytes that can only
				// continue a UTF-8 character (none started one)
				run = append(bytes.Repeat([]byte{0xa0}, r.Range(28, 45)), bytes.Repeat([]byte{[]byte{0x80, 0xbf, 0x85}[r.Intn(3)]}, r.Range(1, 40))...)
			}
			if r.Chance(1, 8) {
				// well-formed multi-byte characters (ideographs, emoji, UTF-8 spelt
				// no-break spaces), a few or many, perhaps at the start of a line of
				// their own: bytes and characters count differently from there on
				unit := []string{"\u6f22\u5b57", "\U0001F600", "\u00a0", "\u00e9", "\u2003", "\u6f22 \U0001F30D"}[r.Intn(6)]
				txt := strings.Repeat(unit, r.Range(1, 14))
				if r.Bool() {
					txt = "\n" + txt
				}
				if r.Bool() {
					txt += "\n"
				}
				run = []byte(txt)
			}
			if r.Chance(1, 12) {
				// texts of several kilobytes (thresholds such as 4096 and 65536 are nearby)
				run = bytes.Repeat([]byte{fill}, []int{4000, 4090, 4096, 4100, 5000, 9000, 65530, 65540, 70000}[r.Intn(9)]+r.Intn(3))
			}
			var p int
			switch r.Intn(3) {
			case 0:
				p = 0
			case 1:
				p = len(s)
			default:
				p = r.Intn(len(s) + 1)
			}
			s = append(s[:p:p], append(run, s[p:]...)...)
		}
	case 0, 1:
		k := r.Range(1, 4)
		for i := 0; i < k && len(s) > 0; i++ {
			p := r.Intn(len(s))
			switch r.Intn(3) {
			case 0:
				s = append(s[:p], s[p+1:]...)
			case 1:
				s = append(s[:p], append([]byte{alphabet[r.Intn(len(alphabet))]}, s[p:]...)...)
			default:
				s[p] = alphabet[r.Intn(len(alphabet))]
			}
		}
	case 2:
		class = "splice"
		o := []byte(st.Spell(c05Model(r)))
		a, b := r.Intn(len(s)+1), r.Intn(len(o)+1)
		s = append(append([]byte{}, s[:a]...), o[b:]...)
	case 3:
		class = "truncation"
		s = s[:r.Intn(len(s)+1)]
	default:
		class = "raw-bytes"
		n := r.Intn(60)
		s = s[:0]
		for i := 0; i < n; i++ {
			if r.Chance(1, 3) {
				s = append(s, byte(r.Uint64()))
			} else {
				s = append(s, alphabet[r.Intn(len(alphabet))])
			}
		}
	}
	c06Check(c, string(s), class, "")
}

// c06Literal spells one number the way the WKT lexer's number alphabet allows.
func c06Literal(r *fw.Rand) string {
	digits := func(n int, first bool) string {
		b := make([]byte, n)
		for i := range b {
			b[i] = byte('0' + r.Intn(10))
		}
		if first && n > 0 && b[0] == '0' && r.Chance(3, 4) {
			b[0] = byte('1' + r.Intn(9))
		}
		if n > 0 && r.Chance(1, 6) {
			// all nines / a one followed by zeros: the ends of a digit count
			for i := range b {
				b[i] = '9'
			}
			if r.Bool() {
				for i := range b {
					b[i] = '0'
				}
				b[0] = '1'
			}
		}
		return string(b)
	}
	sign := []string{"", "", "-", "-", "+"}[r.Intn(5)]
	var lit string
	if r.Chance(1, 12) {
		// malformed or unusual spellings made of the number alphabet only
		odd := []string{"e5", "E5", "e", "E", "-e1", ".", "-", "+", "-.", "1e", "1e+", "1e-", "1.2.3", "1-2", "--1", "+-1", "-+1", "1e1e1", ".e1", "1.e1", ".5", "5.", "-.5", "+.5", "00", "-00.00", "1e0001", "1E+0", "..", "e+", "+e", "1+1", "1e1.5", "9e999", "-9e999", "1e-999"}
		return odd[r.Intn(len(odd))]
	}
	switch r.Intn(6) {
	case 0, 1: // integers of 1..25 digits, most often around the widths of the integer types
		n := []int{1, 2, 5, 9, 10, 11, 15, 16, 17, 18, 19, 19, 19, 20, 20, 21, 22, 25}[r.Intn(18)]
		lit = digits(n, true)
		if r.Chance(1, 8) {
			lit = []string{"9223372036854775807", "9223372036854775808", "9223372036854775809", "18446744073709551615", "18446744073709551616", "4294967295", "4294967296", "2147483647", "2147483648", "9007199254740993", "9999999999999999999", "9500000000000000000"}[r.Intn(12)]
		}
	case 2: // decimals
		lit = digits(r.Range(0, 20), true) + "." + digits(r.Range(0, 25), false)
	case 3: // exponent forms
		m := digits(r.Range(1, 18), true)
		if r.Bool() {
			m += "." + digits(r.Range(0, 18), false)
		}
		e := []string{"e", "E"}[r.Intn(2)] + []string{"", "+", "-"}[r.Intn(3)] + fmt.Sprint(r.Range(0, 30))
		if r.Chance(1, 5) {
			e = []string{"e", "E"}[r.Intn(2)] + []string{"", "-"}[r.Intn(2)] + fmt.Sprint(r.Range(280, 330))
		}
		lit = m + e
	case 4: // leading zeros
		lit = strings.Repeat("0", r.Range(1, 25)) + digits(r.Range(1, 19), true)
	default: // a decimal spelling of an edge float
		f := gen.Float(r, gen.IntEdge)
		sign = ""
		lit = strconv.FormatFloat(f, []byte{'f', 'e', 'g'}[r.Intn(3)], -1, 64)
	}
	return sign + lit
}

// (v) number literals: whatever spelling of a number the parser accepts must
// denote the float64 nearest to the decimal value written
func c06Numbers(c *fw.Ctx, idx int) {
	r := c.R
	n := r.Range(2, 4)
	lits := make([]string, n)
	for i := range lits {
		lits[i] = c06Literal(r)
	}
	kw := []string{"POINT", "POINT Z", "POINT ZM"}[n-2]
	if n == 3 && r.Bool() {
		kw = "POINT M"
	}
	s := kw + " (" + strings.Join(lits, " ") + ")"
	c06Check(c, s, "number-literals", "")
	var t geom.T
	var err error
	if c.Guard("panic", func() { t, err = wkt.Unmarshal(s) }) {
		return
	}
	if err != nil || t == nil {
		c.Count("number_literals_rejected")
		return
	}
	flat := t.FlatCoords()
	if len(flat) != n {
		c.Fail("wrong-arity", "%q parsed to %d ordinates", s, len(flat))
		return
	}
	for i, l := range lits {
		want, _, perr := ref.ParseDecimal(l)
		if perr != nil {
			c.Count("number_literal_without_reference_value")
			continue
		}
		c.Count("number_literals_compared")
		if len(strings.TrimLeft(l, "+-0")) >= 19 && !strings.ContainsAny(l, ".eE") {
			c.Count("number_literals_of_19_or_more_digits")
		}
		if math.Float64bits(flat[i]) != math.Float64bits(want) && !(flat[i] == 0 && want == 0) {
			c.Fail("wrong-number", "the literal %q was read as %s, the float64 nearest to its decimal value is %s", l, fw.F(flat[i]), fw.F(want))
			return
		}
	}
}

func c06RawReplay(c *fw.Ctx, raw []byte) { c06Check(c, string(raw), "replay", "") }

// c06AfterRejection: a text that is rejected part-way (a member of another
// dimensionality, a truncated member, a one-point line) inside 1..14 nested
// collections of each dimensionality, and right after it valid texts of the same
// and of other depths: a parse starts from nothing, whatever the parse before it
// left behind.
func c06AfterRejection(c *fw.Ctx, idx int) {
	r := c.R
	sufs := []string{"", " Z", " M", " ZM"}
	pts := []string{"1 2", "1 2 3", "1 2 3", "1 2 3 4"}
	d := 1 + idx%14
	k := (idx / 14) % 4
	open := strings.Repeat("GEOMETRYCOLLECTION"+sufs[k]+" (", d)
	closeAll := strings.Repeat(")", d)
	other := (k + 1 + r.Intn(3)) % 4
	bads := []string{
		open + "POINT" + sufs[k] + " (" + pts[k] + "), POINT" + sufs[other] + " (" + pts[other] + ")" + closeAll,
		open + "POINT" + sufs[k] + " (" + pts[k] + "), LINESTRING" + sufs[k] + " (" + pts[k] + ")" + closeAll,
		open + "POINT" + sufs[k] + " (" + pts[k] + "), POINT" + sufs[k] + " (" + pts[k],
		open + "LINESTRING" + sufs[k] + " (" + pts[k] + ", " + pts[k] + "), POLYGON" + sufs[k] + " ((" + pts[k] + ", " + pts[k] + "))" + closeAll,
	}
	bad := bads[r.Intn(len(bads))]
	c.SetInput(map[string]any{"rejected_first": clipStr(bad, 400)})
	var err error
	if c.Guard("panic", func() { _, err = wkt.Unmarshal(bad) }) {
		return
	}
	c.Eval(1)
	if err == nil {
		c.Fail("accepted-inconsistent", "an inconsistent text was accepted: %s", clipStr(bad, 300))
		return
	}
	c.Guard("error-message-panic", func() { _ = err.Error() })
	for _, d2 := range []int{d, d + 1, 1 + r.Intn(14), 9} {
		for k2 := 0; k2 < 4; k2++ {
			good := strings.Repeat("GEOMETRYCOLLECTION"+sufs[k2]+" (", d2) + "POINT" + sufs[k2] + " (" + pts[k2] + "), POINT" + sufs[k2] + " EMPTY, LINESTRING" + sufs[k2] + " (" + pts[k2] + ", " + pts[k2] + ")" + strings.Repeat(")", d2)
			c.SetInput(map[string]any{"rejected_first": clipStr(bad, 300), "then": clipStr(good, 400)})
			var t geom.T
			if c.Guard("panic", func() { t, err = wkt.Unmarshal(good) }) {
				return
			}
			c.Eval(1)
			c.Count("valid_texts_parsed_right_after_a_rejection")
			if err != nil {
				c.Fail("rejected-valid", "right after a rejected text, a valid text (3 members inside %d collections, dimensionality%q) is rejected: %v", d2, sufs[k2], err)
				return
			}
			depth := 0
			x := t
			for {
				gc, ok := x.(*geom.GeometryCollection)
				if !ok || gc.NumGeoms() == 0 {
					break
				}
				depth++
				if gc.NumGeoms() == 3 {
					p0, ok0 := gc.Geom(0).(*geom.Point)
					p1, ok1 := gc.Geom(1).(*geom.Point)
					l2, ok2 := gc.Geom(2).(*geom.LineString)
					if !ok0 || !ok1 || !ok2 || len(p0.FlatCoords()) != len(strings.Fields(pts[k2])) || !p1.Empty() || l2.NumCoords() != 2 || p0.Layout() != l2.Layout() || p0.Layout().Stride() != len(strings.Fields(pts[k2])) {
						c.Fail("inconsistent-geometry", "right after a rejected text the members of %s parse as %v %v %v", clipStr(good, 120), gc.Geom(0), gc.Geom(1), gc.Geom(2))
						return
					}
					break
				}
				x = gc.Geom(0)
			}
			if depth != d2 {
				c.Fail("inconsistent-geometry", "right after a rejected text, a text nesting %d collections parses to depth %d", d2, depth)
				return
			}
		}
	}
	c.Distinct(fmt.Sprintf("after-rejection/%d/%d", d, k))
}

func init() {
	n := len(c06Tokens)
	fw.Register(&fw.Monitor{
		ID:     "C06",
		Title:  "WKT parser is total and accepts only consistent geometries",
		Rule:   "wkt.Unmarshal on (i) every token sequence of length 1..4 (thorough: ..5) over a 37-token alphabet (28 keywords with/without Z/M/ZM, EMPTY, parentheses, comma, number groups of arity 1..5), (ii) grammar-guided random derivations to depth 8 mixing suffixes of collections and members, (iii) valid text with exactly one defect injected (mixed-dimension coordinate or member, unclosed ring, ring <4 points, one-point linestring, point with 1 or >4 ordinates) which must be rejected, (iv) mutations, splices, truncations of valid text and raw bytes incl. NUL/high-bit/newlines. Monitors: any panic (each internal assertion is one), (nil,nil), rendering of the error message, WF, one consistent layout through the whole tree, linestring/ring size and closure, re-encode->parse equality. distinct_nontrivial = distinct accepted shape signatures + distinct error kinds",
		Assume: []string{"speller in harness/ref produces the defect texts; the consistency monitor is written from the property statement"},
		Classes: []fw.Class{
			{Name: "tokens-1", Quick: n, Thorough: n, Run: c06Seq(1), Exhaustive: "every token sequence of length 1"},
			{Name: "tokens-2", Quick: pow(n, 2), Thorough: pow(n, 2), Run: c06Seq(2), Exhaustive: "every token sequence of length 2"},
			{Name: "tokens-3", Quick: pow(n, 3), Thorough: pow(n, 3), Run: c06Seq(3), Exhaustive: "every token sequence of length 3"},
			{Name: "tokens-4", Quick: pow(n, 4), Thorough: pow(n, 4), Run: c06Seq(4), Exhaustive: "every token sequence of length 4"},
			{Name: "tokens-5", Quick: 0, Thorough: pow(n, 5), Run: c06Seq(5), Exhaustive: "every token sequence of length 5"},
			{Name: "grammar", Quick: 150000, Thorough: 10000000, Run: c06Grammar},
			{Name: "one-defect", Quick: 40000, Thorough: 2000000, Run: c06MustReject},
			{Name: "number-literals", Quick: 60000, Thorough: 3000000, Run: c06Numbers},
			{Name: "mutations", Quick: 100000, Thorough: 8000000, Run: c06Mutate, RawReplay: c06RawReplay},
			{Name: "after-a-rejection", Quick: 2240, Thorough: 56000, Run: c06AfterRejection},
		},
		Extra: fuzzExtra("C06", 3000000),
		Require: []string{"accepted", "rejected", "class_grammar", "class_one-defect", "class_mutation", "class_raw-bytes", "class_splice",
			"must_reject_mixed-dimension coordinate", "must_reject_unclosed ring", "must_reject_ring with fewer than 4 points", "must_reject_one-point linestring", "must_reject_point with 1 or >4 ordinates", "must_reject_collection member of another dimensionality"},
	})
}
