package mon

import (
	"fmt"
	"math"
	"math/big"
	"sort"

	geom "github.com/twpayne/go-geom"
	"github.com/twpayne/go-geom/xy"

	"verifharness/exact"
	"verifharness/fw"
	"verifharness/gen"
)

// C14 - centroids, ring direction and signed area match exact geometry.

const c14u = 1.0 / (1 << 53)

var c14Layouts = []geom.Layout{geom.XY, geom.XYZ, geom.XYM, geom.XYZM}
var c14Offsets = []int64{0, 0, 1000, -1000, 1000000, -1000000, 1000000000, -1000000000}

func c14Flat(ring []ipt, stride int, r *fw.Rand) []float64 {
	out := make([]float64, 0, len(ring)*stride)
	for _, p := range ring {
		out = append(out, float64(p.x), float64(p.y))
		for k := 2; k < stride; k++ {
			out = append(out, gen.Float(r, gen.AnyClass(r)))
		}
	}
	negZeros(r, out, stride)
	return out
}

func ringStr(ring []ipt) string {
	s := ""
	for i, p := range ring {
		if i > 0 {
			s += " "
		}
		s += fmt.Sprintf("(%d %d)", p.x, p.y)
	}
	return s
}

// area2i is twice the signed area (counter-clockwise positive) of a closed ring.
func area2i(ring []ipt) *big.Int {
	s := new(big.Int)
	for i := 1; i < len(ring); i++ {
		t := new(big.Int).Mul(big.NewInt(ring[i-1].x), big.NewInt(ring[i].y))
		t.Sub(t, new(big.Int).Mul(big.NewInt(ring[i].x), big.NewInt(ring[i-1].y)))
		s.Add(s, t)
	}
	return s
}

// starRing builds a simple star-shaped ring around (cx,cy): vertices sorted by
// exact angle with every consecutive gap in (0,pi).  Returned counter-clockwise, closed.
func starRing(r *fw.Rand, cx, cy int64, rad int64, m int) []ipt {
	for try := 0; try < 20; try++ {
		pts := make([]ipt, 0, m)
		for k := 0; k < m; k++ {
			a := 2 * math.Pi * (float64(k) + 0.3*(2*r.Float01()-1)) / float64(m)
			rr := float64(rad) * (0.5 + 0.5*r.Float01())
			pts = append(pts, ipt{cx + int64(math.Round(rr*math.Cos(a))), cy + int64(math.Round(rr*math.Sin(a)))})
		}
		c := ipt{cx, cy}
		ok := true
		for i := range pts {
			if pts[i] == c || icross(c, pts[i], pts[(i+1)%m]) <= 0 {
				ok = false
				break
			}
		}
		if !ok {
			continue
		}
		return append(pts, pts[0])
	}
	// fall back to a diamond
	return []ipt{{cx + rad, cy}, {cx, cy + rad}, {cx - rad, cy}, {cx, cy - rad}, {cx + rad, cy}}
}

// staircase builds a rectilinear histogram polygon with flat tops (ties at the
// highest vertex) and optional repeated vertices.  Counter-clockwise, closed.
func staircase(r *fw.Rand, x0, y0 int64, w int64, steps int, maxH int64) []ipt {
	xs := map[int64]bool{}
	if int64(steps) > w-1 {
		steps = int(w - 1)
	}
	if steps < 1 {
		steps = 1
	}
	for len(xs) < steps-1 {
		xs[1+int64(r.Intn(int(w-1)))] = true
	}
	var cuts []int64
	for x := range xs {
		cuts = append(cuts, x)
	}
	sort.Slice(cuts, func(i, j int) bool { return cuts[i] > cuts[j] })
	ring := []ipt{{x0, y0}, {x0 + w, y0}}
	prevX := x0 + w
	h := 1 + int64(r.Intn(int(maxH)))
	for i := 0; i < steps; i++ {
		nx := x0
		if i < len(cuts) {
			nx = x0 + cuts[i]
		}
		ring = append(ring, ipt{prevX, y0 + h}, ipt{nx, y0 + h})
		prevX = nx
		if r.Chance(1, 3) {
			// same height again: collinear vertices on a flat top
		} else {
			h = 1 + int64(r.Intn(int(maxH)))
		}
	}
	ring = append(ring, ipt{x0, y0})
	// drop consecutive duplicates produced by equal heights, then optionally re-add some
	out := ring[:1]
	for _, p := range ring[1:] {
		if p != out[len(out)-1] {
			out = append(out, p)
		}
	}
	if r.Chance(1, 3) {
		k := r.Intn(len(out) - 1)
		out = append(out[:k+1], append([]ipt{out[k]}, out[k+1:]...)...)
	}
	return out
}

func reverseRing(ring []ipt) []ipt {
	out := make([]ipt, len(ring))
	for i := range ring {
		out[i] = ring[len(ring)-1-i]
	}
	return out
}

func rotateRing(ring []ipt, k int) []ipt {
	n := len(ring) - 1
	out := make([]ipt, 0, len(ring))
	for i := 0; i < n; i++ {
		out = append(out, ring[(i+k)%n])
	}
	return append(out, out[0])
}

func translate(ring []ipt, dx, dy int64) []ipt {
	out := make([]ipt, len(ring))
	for i, p := range ring {
		out[i] = ipt{p.x + dx, p.y + dy}
	}
	return out
}

// (a) ring direction and signed area
func c14Rings(c *fw.Ctx, idx int) {
	if c.R.Chance(1, 64) {
		xyRefusedCalls(c)
	}
	r := c.R
	ox, oy := c14Offsets[r.Intn(len(c14Offsets))], c14Offsets[r.Intn(len(c14Offsets))]
	var ring []ipt
	kind := "star"
	if r.Bool() {
		nv := r.Range(3, 24)
		if r.Chance(1, 6) {
			nv = r.Range(25, 90) // rings of dozens of vertices (sizes 32 and 64 among them)
		}
		ring = starRing(r, ox, oy, int64(r.Range(10, 50000)), nv)
	} else {
		kind = "staircase"
		ring = staircase(r, ox, oy, int64(r.Range(4, 50000)), r.Range(1, 8), int64(r.Range(1, 40000)))
	}
	if r.Bool() {
		ring = reverseRing(ring)
	}
	// rotating a ring with a doubled vertex keeps it a valid closed ring only if we rotate the distinct list
	ring = rotateRing(ring, r.Intn(len(ring)-1))
	layout := c14Layouts[r.Intn(4)]
	flat := c14Flat(ring, layout.Stride(), r)
	c.SetInput(map[string]any{"ring": ringStr(ring), "layout": layout.String()})
	a2 := area2i(ring)
	if a2.Sign() == 0 {
		c.Count("skipped_zero_area_ring")
		return
	}
	c.Count("ring_" + kind)
	wantCCW := a2.Sign() > 0
	if wantCCW {
		c.Count("ring_ccw")
	} else {
		c.Count("ring_cw")
	}
	// tie at the highest vertex?
	var top int64 = math.MinInt64
	ties := 0
	for _, p := range ring[:len(ring)-1] {
		if p.y > top {
			top, ties = p.y, 1
		} else if p.y == top {
			ties++
		}
	}
	if ties > 1 {
		c.Count("ring_tie_at_top")
	}
	c.Distinct(fmt.Sprintf("ring/%s/%d/%v/%d", kind, len(ring), wantCCW, ties))
	var got bool
	var sa float64
	if c.Guard("panic", func() {
		got = xy.IsRingCounterClockwise(layout, flat)
		sa = xy.SignedArea(layout, flat)
	}) {
		return
	}
	c.Eval(2)
	if got != wantCCW {
		c.Fail("wrong-direction", "IsRingCounterClockwise = %v but the exact signed area is %s/2", got, a2.String())
		return
	}
	// SignedArea is clockwise-positive
	want := new(big.Rat).SetFrac(new(big.Int).Neg(a2), big.NewInt(2))
	// bound: (4n+16)u * sum |x_i - x_0| |y_{i-1} - y_{i+1}| / 2
	sumAbs := new(big.Int)
	n := len(ring)
	for i := 1; i < n-1; i++ {
		t := new(big.Int).Mul(big.NewInt(ring[i].x-ring[0].x), big.NewInt(ring[i-1].y-ring[i+1].y))
		sumAbs.Add(sumAbs, t.Abs(t))
	}
	tol := float64(4*n+16) * c14u * exact.F64(new(big.Rat).SetFrac(sumAbs, big.NewInt(2)))
	if !exact.RatAbsDiffLE(sa, want, exact.R(tol)) {
		c.Fail("wrong-signed-area", "SignedArea = %v, exact (clockwise positive) %v, bound %g", sa, exact.F64(want), tol)
		return
	}
	// the caller reverses the ring in place (same array, same length, same first
	// vertex) and asks again: the direction is now the other one
	if r.Chance(1, 3) {
		st := layout.Stride()
		m := len(flat) / st
		for i, j := 0, m-1; i < j; i, j = i+1, j-1 {
			for k := 0; k < st; k++ {
				flat[i*st+k], flat[j*st+k] = flat[j*st+k], flat[i*st+k]
			}
		}
		var got2 bool
		var sa2 float64
		if c.Guard("panic", func() {
			got2 = xy.IsRingCounterClockwise(layout, flat)
			sa2 = xy.SignedArea(layout, flat)
		}) {
			return
		}
		c.Eval(2)
		c.Count("rings_reversed_in_place_and_asked_again")
		if got2 == wantCCW {
			c.Fail("wrong-direction", "after the ring was reversed in place IsRingCounterClockwise is still %v (exact signed area before the reversal %s/2)", got2, a2.String())
			return
		}
		if !exact.RatAbsDiffLE(sa2, new(big.Rat).Neg(want), exact.R(tol)) {
			c.Fail("wrong-signed-area", "after the ring was reversed in place SignedArea = %v, exact %v, bound %g", sa2, -exact.F64(want), tol)
			return
		}
	}
	if c.WantSample() {
		c.Sample(c.Input())
	}
}

type c14poly [][]ipt // rings: shell first

// c14AreaCentroid computes the exact area-weighted centroid of polygons with
// holes (shells add, holes subtract regardless of direction) and the bound
// ((4n+16)u (sum|a_i c_i| + 3|C| sum|a_i|)) / (3|A2|), using the same fan
// decomposition about base as the code.
func c14AreaCentroid(polys []c14poly, base ipt) (cx, cy *big.Rat, tolx, toly float64, zero bool) {
	A2 := new(big.Int)
	Nx, Ny := new(big.Int), new(big.Int)
	sumA := new(big.Int)
	sumACx, sumACy := new(big.Int), new(big.Int)
	n := 0
	for _, p := range polys {
		for ri, ring := range p {
			ra := area2i(ring)
			sign := int64(1)
			if ra.Sign() < 0 {
				sign = -1
			}
			if ri > 0 {
				sign = -sign
			}
			for i := 1; i < len(ring); i++ {
				p1, p2 := ring[i-1], ring[i]
				a := new(big.Int).Mul(big.NewInt(p1.x-base.x), big.NewInt(p2.y-base.y))
				a.Sub(a, new(big.Int).Mul(big.NewInt(p2.x-base.x), big.NewInt(p1.y-base.y)))
				c3x := big.NewInt(base.x + p1.x + p2.x)
				c3y := big.NewInt(base.y + p1.y + p2.y)
				sa := new(big.Int).Mul(a, big.NewInt(sign))
				A2.Add(A2, sa)
				Nx.Add(Nx, new(big.Int).Mul(sa, c3x))
				Ny.Add(Ny, new(big.Int).Mul(sa, c3y))
				aa := new(big.Int).Abs(a)
				sumA.Add(sumA, aa)
				sumACx.Add(sumACx, new(big.Int).Abs(new(big.Int).Mul(a, c3x)))
				sumACy.Add(sumACy, new(big.Int).Abs(new(big.Int).Mul(a, c3y)))
				n++
			}
		}
	}
	if A2.Sign() == 0 {
		return nil, nil, 0, 0, true
	}
	d := new(big.Int).Mul(big.NewInt(3), A2)
	cx = new(big.Rat).SetFrac(Nx, d)
	cy = new(big.Rat).SetFrac(Ny, d)
	k := float64(4*n+16) * c14u
	den := 3 * math.Abs(exact.F64(new(big.Rat).SetInt(A2)))
	fa := exact.F64(new(big.Rat).SetInt(sumA))
	tolx = k * (exact.F64(new(big.Rat).SetInt(sumACx)) + 3*math.Abs(exact.F64(cx))*fa) / den
	toly = k * (exact.F64(new(big.Rat).SetInt(sumACy)) + 3*math.Abs(exact.F64(cy))*fa) / den
	return
}

// c14LineCentroid: 400-bit length-weighted centroid of polylines and its bound.
func c14LineCentroid(lines [][]ipt) (cx, cy *big.Float, tolx, toly float64, zero bool) {
	L := new(big.Float).SetPrec(exact.Prec)
	sx := new(big.Float).SetPrec(exact.Prec)
	sy := new(big.Float).SetPrec(exact.Prec)
	ax := new(big.Float).SetPrec(exact.Prec)
	ay := new(big.Float).SetPrec(exact.Prec)
	n := 0
	for _, l := range lines {
		for i := 1; i < len(l); i++ {
			dx, dy := l[i].x-l[i-1].x, l[i].y-l[i-1].y
			d2 := new(big.Int).Add(new(big.Int).Mul(big.NewInt(dx), big.NewInt(dx)), new(big.Int).Mul(big.NewInt(dy), big.NewInt(dy)))
			ln := exact.Sqrt(new(big.Rat).SetInt(d2))
			L.Add(L, ln)
			mx := new(big.Float).SetPrec(exact.Prec).SetRat(new(big.Rat).SetFrac(big.NewInt(l[i].x+l[i-1].x), big.NewInt(2)))
			my := new(big.Float).SetPrec(exact.Prec).SetRat(new(big.Rat).SetFrac(big.NewInt(l[i].y+l[i-1].y), big.NewInt(2)))
			tx := new(big.Float).SetPrec(exact.Prec).Mul(ln, mx)
			ty := new(big.Float).SetPrec(exact.Prec).Mul(ln, my)
			sx.Add(sx, tx)
			sy.Add(sy, ty)
			ax.Add(ax, tx.Abs(tx))
			ay.Add(ay, ty.Abs(ty))
			n++
		}
	}
	if L.Sign() == 0 {
		return nil, nil, 0, 0, true
	}
	cx = new(big.Float).SetPrec(exact.Prec).Quo(sx, L)
	cy = new(big.Float).SetPrec(exact.Prec).Quo(sy, L)
	k := float64(4*n+16) * c14u
	fl := exact.BF64(L)
	tolx = k * 2 * exact.BF64(ax) / fl
	toly = k * 2 * exact.BF64(ay) / fl
	return
}

func c14BuildPolygon(p c14poly, layout geom.Layout, r *fw.Rand) *geom.Polygon {
	var flat []float64
	var ends []int
	for _, ring := range p {
		flat = append(flat, c14Flat(ring, layout.Stride(), r)...)
		ends = append(ends, len(flat))
	}
	return geom.NewPolygonFlat(layout, flat, ends)
}

func c14CheckCent(c *fw.Ctx, fn string, got geom.Coord, cx, cy *big.Rat, tolx, toly float64) bool {
	c.Eval(1)
	c.Count("fn_" + fn)
	if len(got) < 2 {
		c.Fail("bad-centroid", "%s returned a coordinate with %d ordinates", fn, len(got))
		return false
	}
	okx := exact.RatAbsDiffLE(got[0], cx, exact.R(tolx))
	oky := exact.RatAbsDiffLE(got[1], cy, exact.R(toly))
	if !okx || !oky {
		c.Fail("wrong-centroid", "%s = (%v %v), exact centroid (%v %v), bounds (%g %g)", fn, got[0], got[1], exact.F64(cx), exact.F64(cy), tolx, toly)
		return false
	}
	if tolx > 0 {
		c.Max("area_centroid_error_over_bound", math.Abs(got[0]-exact.F64(cx))/tolx)
	}
	return true
}

func c14CheckCentF(c *fw.Ctx, fn string, got geom.Coord, cx, cy *big.Float, tolx, toly float64) bool {
	c.Eval(1)
	c.Count("fn_" + fn)
	if len(got) < 2 {
		c.Fail("bad-centroid", "%s returned a coordinate with %d ordinates", fn, len(got))
		return false
	}
	if !exact.AbsDiffLE(got[0], cx, tolx) || !exact.AbsDiffLE(got[1], cy, toly) {
		c.Fail("wrong-centroid", "%s = (%v %v), exact centroid (%v %v), bounds (%g %g)", fn, got[0], got[1], exact.BF64(cx), exact.BF64(cy), tolx, toly)
		return false
	}
	if tolx > 0 {
		c.Max("line_centroid_error_over_bound", exact.AbsDiff(got[0], cx)/tolx)
	}
	return true
}

// (b) polygons with holes, multipolygons
func c14Polygons(c *fw.Ctx, idx int) {
	r := c.R
	ox, oy := c14Offsets[r.Intn(len(c14Offsets))], c14Offsets[r.Intn(len(c14Offsets))]
	npoly := 1
	if r.Chance(1, 2) {
		npoly = r.Range(2, 4)
	}
	cell := int64(r.Range(40, 20000))
	if r.Chance(1, 5) {
		cell = int64(r.Range(20000, 100000)) // the whole extent the property names
	}
	var polys []c14poly
	for pi := 0; pi < npoly; pi++ {
		// member pi lives in its own cell of a coarse 2x2 grid
		px := ox + int64(pi%2)*3*cell
		py := oy + int64(pi/2)*3*cell
		var p c14poly
		nh := 0
		switch r.Intn(4) {
		case 3:
			// a sliver: a lattice triangle (or a quadrilateral) whose doubled area
			// is a small integer while its sides are as long as the cell - area
			// over squared perimeter down to ~1e-11 - built from a primitive
			// direction (a,b) and the lattice vector (u,v) with a*v - b*u = 1
			var a, b int64
			for {
				a = cell/2 + int64(r.Intn(int(cell/2)+1))
				b = int64(r.Intn(int(cell) + 1))
				if r.Bool() {
					a, b = b, a
				}
				if g, _, _ := egcd(abs64(a), abs64(b)); g == 1 {
					break
				}
			}
			_, x, y := egcd(a, b) // a*x + b*y = +-1
			if a*x+b*y < 0 {
				x, y = -x, -y
			}
			u, v := -y, x // a*v - b*u = 1
			k := int64(r.Range(1, 4))
			p0 := ipt{px + cell, py + cell}
			shell := []ipt{p0, {p0.x + a, p0.y + b}, {p0.x + k*u, p0.y + k*v}, p0}
			if r.Bool() {
				// quadrilateral: the far corner moved along the long direction
				shell = []ipt{p0, {p0.x + a, p0.y + b}, {p0.x + a + k*u, p0.y + b + k*v}, {p0.x + k*u, p0.y + k*v}, p0}
			}
			p = append(p, shell)
			c.Count("sliver_shells")
		case 0: // star-shaped shell, holes in the central box
			m := r.Range(8, 20)
			shell := starRing(r, px+cell, py+cell, cell, m)
			p = append(p, shell)
			nh = r.Intn(4)
			q := cell / 4 / 2 // central box of half-size cell/4 split into 2x2 sub-cells
			for h := 0; h < nh && q >= 4; h++ {
				hx := px + cell - cell/4 + int64(h%2)*2*q + q
				hy := py + cell - cell/4 + int64(h/2)*2*q + q
				p = append(p, starRing(r, hx, hy, q-1, r.Range(3, 8)))
			}
		case 1: // rectangle shell with extra collinear vertices, holes in disjoint cells
			w, hgt := 2*cell, 2*cell
			shell := []ipt{{px, py}, {px + w/2, py}, {px + w, py}, {px + w, py + hgt}, {px, py + hgt}, {px, py}}
			p = append(p, shell)
			nh = r.Intn(4)
			q := cell / 2
			for h := 0; h < nh && q >= 6; h++ {
				hx := px + int64(h%2)*cell + q
				hy := py + int64(h/2)*cell + q
				p = append(p, starRing(r, hx, hy, q-2, r.Range(3, 8)))
			}
		default: // staircase shell, no holes
			p = append(p, staircase(r, px, py, 2*cell, r.Range(1, 6), 2*cell))
		}
		// any direction, any start vertex
		for ri := range p {
			if r.Bool() {
				p[ri] = reverseRing(p[ri])
			}
			// de-duplicate before rotating so the ring stays closed
			d := p[ri][:1]
			for _, v := range p[ri][1:] {
				if v != d[len(d)-1] {
					d = append(d, v)
				}
			}
			p[ri] = rotateRing(d, r.Intn(len(d)-1))
		}
		polys = append(polys, p)
	}
	// one set in four also has members without area (a ring that goes out and
	// comes back, or whose vertices are collinear): they weigh nothing in an
	// area-weighted mean, wherever they stand in the list
	if r.Chance(1, 4) {
		for k := r.Range(1, 2); k > 0; k-- {
			a := ipt{ox + int64(r.Range(0, 4*int(cell))), oy + int64(r.Range(0, 4*int(cell)))}
			d := ipt{int64(r.Range(-int(cell), int(cell))), int64(r.Range(-int(cell), int(cell)))}
			b := ipt{a.x + d.x, a.y + d.y}
			cc := ipt{a.x + 2*d.x, a.y + 2*d.y}
			ring := []ipt{a, b, cc, b, a}
			if r.Bool() {
				ring = []ipt{a, b, cc, a}
			}
			at := r.Intn(len(polys) + 1)
			polys = append(polys[:at], append([]c14poly{{ring}}, polys[at:]...)...)
		}
		c.Count("sets_with_members_of_zero_area")
	}
	layout := c14Layouts[r.Intn(4)]
	desc := map[string]any{"layout": layout.String()}
	for i, p := range polys {
		for j, ring := range p {
			desc[fmt.Sprintf("polygon%d_ring%d", i, j)] = ringStr(ring)
		}
	}
	c.SetInput(desc)
	base := polys[0][0][0]
	cx, cy, tolx, toly, zero := c14AreaCentroid(polys, base)
	if zero {
		c.Count("skipped_zero_area")
		return
	}
	holes := 0
	for _, p := range polys {
		holes += len(p) - 1
	}
	c.Count(fmt.Sprintf("polygons_%d", npoly))
	if holes > 0 {
		c.Count("with_holes")
	}
	c.Distinct(fmt.Sprintf("poly/%d/%d/%s", npoly, holes, layout))
	gp := make([]*geom.Polygon, len(polys))
	for i, p := range polys {
		gp[i] = c14BuildPolygon(p, layout, r)
	}
	if r.Chance(1, 4) {
		c14RefusedCalls(c, layout)
	}
	if r.Chance(1, 3) {
		// the calculator object fed one polygon at a time and asked after every one, twice
		calc := xy.NewAreaCentroidCalculator(layout)
		for i := range gp {
			pcx, pcy, ptx, pty, pz := c14AreaCentroid(polys[:i+1], base)
			for ask := 0; ask < 2; ask++ {
				var g2 geom.Coord
				if c.Guard("panic", func() {
					if ask == 0 {
						calc.AddPolygon(gp[i])
					}
					g2 = calc.GetCentroid()
				}) {
					return
				}
				if pz {
					continue
				}
				c.Count("area_calculator_asked_between_additions")
				if !c14CheckCent(c, fmt.Sprintf("AreaCentroidCalculator after %d polygons (ask %d)", i+1, ask+1), g2, pcx, pcy, ptx, pty) {
					return
				}
			}
		}
	}
	if r.Chance(1, 4) {
		// one polygon object used as a cursor: added, moved in place by a whole number
		// of units, added again ... - the calculator has taken what it was shown, and
		// what the caller does to the polygon afterwards is not its business
		cur := c14BuildPolygon(polys[0], layout, r)
		calc := xy.NewAreaCentroidCalculator(layout)
		var shown []c14poly
		var ox2, oy2 int64
		for k := 0; k < r.Range(2, 4); k++ {
			sp := make(c14poly, len(polys[0]))
			for ri, ring := range polys[0] {
				sp[ri] = make([]ipt, len(ring))
				for vi, v := range ring {
					sp[ri][vi] = ipt{v.x + ox2, v.y + oy2}
				}
			}
			shown = append(shown, sp)
			pcx, pcy, ptx, pty, pz := c14AreaCentroid(shown, shown[0][0][0])
			var g2 geom.Coord
			dx, dy := int64(r.Range(-3000, 3000)), int64(r.Range(-3000, 3000))
			if c.Guard("panic", func() {
				calc.AddPolygon(cur)
				geom.TransformInPlace(cur, func(co geom.Coord) { co[0] += float64(dx); co[1] += float64(dy) })
				g2 = calc.GetCentroid()
			}) {
				return
			}
			ox2, oy2 = ox2+dx, oy2+dy
			if pz {
				break
			}
			c.Count("calculator_fed_one_polygon_object_moved_in_place_between_additions")
			if !c14CheckCent(c, fmt.Sprintf("AreaCentroidCalculator fed one polygon object %d times, the object moved in place after each addition", k+1), g2, pcx, pcy, ptx, pty) {
				return
			}
		}
	}
	var got geom.Coord
	if c.Guard("panic", func() { got = xy.PolygonsCentroid(gp[0], gp[1:]...) }) {
		return
	}
	if !c14CheckCent(c, "PolygonsCentroid", got, cx, cy, tolx, toly) {
		return
	}
	hg := got
	if !holdRecheckScribble(c, "c14-centroid", "PolygonsCentroid result", func() string { return fw.Fs(hg) }, func() {
		for i := range hg[:cap(hg)] {
			hg[:cap(hg)][i] = -4.25e200
		}
	}) {
		return
	}
	// the same through a MultiPolygon and through Centroid()
	mp := geom.NewMultiPolygon(layout)
	for _, g := range gp {
		if err := mp.Push(g); err != nil {
			c.Fail("push-error", "MultiPolygon.Push: %v", err)
			return
		}
	}
	if c.Guard("panic", func() { got = xy.MultiPolygonCentroid(mp) }) {
		return
	}
	if !c14CheckCent(c, "MultiPolygonCentroid", got, cx, cy, tolx, toly) {
		return
	}
	var err error
	if c.Guard("panic", func() { got, err = xy.Centroid(mp) }) {
		return
	}
	if err == nil {
		hc := got
		if !holdRecheckScribble(c, "c14-Centroid", "xy.Centroid result", func() string { return fw.Fs(hc) }, func() {
			for i := range hc[:cap(hc)] {
				hc[:cap(hc)][i] = -4.25e200
			}
		}) {
			return
		}
	}
	if err != nil {
		c.Fail("centroid-error", "Centroid(MultiPolygon): %v", err)
		return
	}
	if !c14CheckCent(c, "Centroid", got, cx, cy, tolx, toly) {
		return
	}
	if len(gp) == 1 {
		if c.Guard("panic", func() { got, err = xy.Centroid(gp[0]) }) {
			return
		}
		if err != nil || !c14CheckCent(c, "Centroid", got, cx, cy, tolx, toly) {
			return
		}
	}
	if c.WantSample() {
		c.Sample(c.Input())
	}
}

// (c) zero-area polygons fall back to the length-weighted centroid
func c14ZeroArea(c *fw.Ctx, idx int) {
	if c.R.Chance(1, 64) {
		xyRefusedCalls(c)
	}
	r := c.R
	ox, oy := c14Offsets[r.Intn(len(c14Offsets))], c14Offsets[r.Intn(len(c14Offsets))]
	npoly := r.Range(1, 3)
	var polys []c14poly
	var lines [][]ipt
	for pi := 0; pi < npoly; pi++ {
		a := ipt{ox + int64(r.Range(-1000, 1000)), oy + int64(r.Range(-1000, 1000))}
		d := ipt{int64(r.Range(-20, 20)), int64(r.Range(-20, 20))}
		if d.x == 0 && d.y == 0 {
			d.x = 1
		}
		// a closed walk along one line: a -> a+k1 d -> a+k2 d -> ... -> a
		n := r.Range(2, 6)
		ring := []ipt{a}
		for i := 0; i < n; i++ {
			k := int64(r.Range(-30, 30))
			ring = append(ring, ipt{a.x + k*d.x, a.y + k*d.y})
		}
		ring = append(ring, a)
		polys = append(polys, c14poly{ring})
		lines = append(lines, ring)
	}
	layout := c14Layouts[r.Intn(4)]
	desc := map[string]any{"layout": layout.String()}
	for i, p := range polys {
		desc[fmt.Sprintf("polygon%d_ring0", i)] = ringStr(p[0])
	}
	c.SetInput(desc)
	cx, cy, tolx, toly, zero := c14LineCentroid(lines)
	if zero {
		c.Count("skipped_zero_length")
		return
	}
	c.Count("zero_area_fallback")
	c.Distinct(fmt.Sprintf("zero/%d/%s", npoly, layout))
	gp := make([]*geom.Polygon, len(polys))
	for i, p := range polys {
		pl := layout
		if (layout == geom.XYZ || layout == geom.XYM) && r.Chance(1, 3) {
			// XYZ and XYM polygons in one list: the third ordinate is none of a planar
			// centroid's business, whatever it is called
			pl = geom.XYZ + geom.XYM - layout
			c.Count("polygons_of_XYZ_and_XYM_in_one_list")
		}
		gp[i] = c14BuildPolygon(p, pl, r)
	}
	var got geom.Coord
	if c.Guard("panic", func() { got = xy.PolygonsCentroid(gp[0], gp[1:]...) }) {
		return
	}
	if !c14CheckCentF(c, "PolygonsCentroid(zero area)", got, cx, cy, tolx, toly) {
		return
	}
	// the calculator object fed one polygon at a time and asked after every one,
	// twice: each answer is the centroid of what has been added so far
	calc := xy.NewAreaCentroidCalculator(layout)
	for i := range gp {
		pcx, pcy, ptx, pty, pz := c14LineCentroid(lines[:i+1])
		for ask := 0; ask < 2; ask++ {
			var g2 geom.Coord
			if c.Guard("panic", func() {
				if ask == 0 {
					calc.AddPolygon(gp[i])
				}
				g2 = calc.GetCentroid()
			}) {
				return
			}
			if pz {
				continue
			}
			c.Count("area_calculator_asked_between_additions")
			if !c14CheckCentF(c, fmt.Sprintf("AreaCentroidCalculator after %d zero-area polygons (ask %d)", i+1, ask+1), g2, pcx, pcy, ptx, pty) {
				return
			}
		}
	}
}

// (d) lines and points
func c14LinesPoints(c *fw.Ctx, idx int) {
	if c.R.Chance(1, 64) {
		xyRefusedCalls(c)
	}
	r := c.R
	ox, oy := c14Offsets[r.Intn(len(c14Offsets))], c14Offsets[r.Intn(len(c14Offsets))]
	layout := c14Layouts[r.Intn(4)]
	stride := layout.Stride()
	ext := int64(r.Range(2, 100000))
	rp := func() ipt { return ipt{ox + int64(r.Intn(int(ext))), oy + int64(r.Intn(int(ext)))} }
	// lines
	nl := r.Range(1, 4)
	var lines [][]ipt
	for i := 0; i < nl; i++ {
		n := r.Range(1, 50)
		if r.Chance(1, 2) {
			n = r.Range(2, 6)
		}
		l := make([]ipt, n)
		for j := range l {
			l[j] = rp()
			if j > 0 && r.Chance(1, 8) {
				l[j] = l[j-1]
			}
		}
		lines = append(lines, l)
	}
	desc := map[string]any{"layout": layout.String()}
	for i, l := range lines {
		desc[fmt.Sprintf("line%d", i)] = ringStr(l)
	}
	c.SetInput(desc)
	cx, cy, tolx, toly, zero := c14LineCentroid(lines)
	ls := make([]*geom.LineString, nl)
	mls := geom.NewMultiLineString(layout)
	for i, l := range lines {
		ls[i] = geom.NewLineStringFlat(layout, c14Flat(l, stride, r))
		if err := mls.Push(ls[i]); err != nil {
			c.Fail("push-error", "MultiLineString.Push: %v", err)
			return
		}
	}
	var g1, g2, g3 geom.Coord
	if c.Guard("panic", func() {
		g1 = xy.LinesCentroid(ls[0], ls[1:]...)
		g2 = xy.MultiLineCentroid(mls)
		g3, _ = xy.Centroid(mls)
	}) {
		return
	}
	if zero {
		c.Count("zero_length_lines_no_panic_only")
	} else {
		c.Count("line_sets")
		c.Distinct(fmt.Sprintf("lines/%d/%s/%d", nl, layout, len(lines[0])))
		if !c14CheckCentF(c, "LinesCentroid", g1, cx, cy, tolx, toly) || !c14CheckCentF(c, "MultiLineCentroid", g2, cx, cy, tolx, toly) || !c14CheckCentF(c, "Centroid", g3, cx, cy, tolx, toly) {
			return
		}
		// a closed line through LinearRingsCentroid
		cl := append(append([]ipt{}, lines[0]...), lines[0][0])
		rx, ry, rtx, rty, z := c14LineCentroid([][]ipt{cl})
		if !z {
			lr := geom.NewLinearRingFlat(layout, c14Flat(cl, stride, r))
			var g4 geom.Coord
			if c.Guard("panic", func() { g4 = xy.LinearRingsCentroid(lr) }) {
				return
			}
			if !c14CheckCentF(c, "LinearRingsCentroid", g4, rx, ry, rtx, rty) {
				return
			}
			// ... and through the generic entry point
			var g5 geom.Coord
			var err error
			if c.Guard("panic", func() { g5, err = xy.Centroid(lr) }) {
				return
			}
			if err != nil {
				c.Fail("centroid-error", "Centroid(LinearRing): %v", err)
				return
			}
			if !c14CheckCentF(c, "Centroid(LinearRing)", g5, rx, ry, rtx, rty) {
				return
			}
			// several rings at once; the calculator fed with a polygon made of them
			cl2 := append(append([]ipt{}, lines[nl-1]...), lines[nl-1][0])
			if r2x, r2y, r2tx, r2ty, z2 := c14LineCentroid([][]ipt{cl, cl2}); !z2 {
				lr2 := geom.NewLinearRingFlat(layout, c14Flat(cl2, stride, r))
				var g6, g7 geom.Coord
				if c.Guard("panic", func() {
					g6 = xy.LinearRingsCentroid(lr, lr2)
					poly := geom.NewPolygon(layout)
					poly.Push(lr)
					poly.Push(lr2)
					g7 = xy.NewLineCentroidCalculator(layout).AddPolygon(poly).GetCentroid()
				}) {
					return
				}
				// a calculator asked twice: the first answer, still held, must not
				// change when more is added and the calculator is asked again
				var first, second geom.Coord
				var firstBits string
				if c.Guard("panic", func() {
					calc := xy.NewLineCentroidCalculator(layout)
					calc.AddLinearRing(lr)
					first = calc.GetCentroid()
					firstBits = fw.Fs(first)
					calc.AddLinearRing(lr2)
					second = calc.GetCentroid()
				}) {
					return
				}
				c.Count("calculator_asked_twice")
				if fw.Fs(first) != firstBits {
					c.Fail("result-invalidated", "the centroid returned by the first GetCentroid changed from %s to %s after AddLinearRing + GetCentroid", firstBits, fw.Fs(first))
					return
				}
				if !c14CheckCentF(c, "LineCentroidCalculator (second GetCentroid)", second, r2x, r2y, r2tx, r2ty) || !c14CheckCentF(c, "LineCentroidCalculator (first GetCentroid)", first, rx, ry, rtx, rty) {
					return
				}
				if !c14CheckCentF(c, "LinearRingsCentroid(2 rings)", g6, r2x, r2y, r2tx, r2ty) || !c14CheckCentF(c, "LineCentroidCalculator.AddPolygon", g7, r2x, r2y, r2tx, r2ty) {
					return
				}
			}
		}
		// a single line through the generic entry point
		if sx, sy, stx, sty, z := c14LineCentroid(lines[:1]); !z {
			var g8 geom.Coord
			var err error
			if c.Guard("panic", func() { g8, err = xy.Centroid(ls[0]) }) {
				return
			}
			if err != nil {
				c.Fail("centroid-error", "Centroid(LineString): %v", err)
				return
			}
			if !c14CheckCentF(c, "Centroid(LineString)", g8, sx, sy, stx, sty) {
				return
			}
		}
	}
	// points
	np := r.Range(1, 50)
	pts := make([]ipt, np)
	sx, sy := new(big.Int), new(big.Int)
	ax, ay := new(big.Int), new(big.Int)
	for i := range pts {
		pts[i] = rp()
		sx.Add(sx, big.NewInt(pts[i].x))
		sy.Add(sy, big.NewInt(pts[i].y))
		ax.Add(ax, new(big.Int).Abs(big.NewInt(pts[i].x)))
		ay.Add(ay, new(big.Int).Abs(big.NewInt(pts[i].y)))
	}
	desc = map[string]any{"layout": layout.String(), "points": ringStr(pts)}
	c.SetInput(desc)
	pcx := new(big.Rat).SetFrac(sx, big.NewInt(int64(np)))
	pcy := new(big.Rat).SetFrac(sy, big.NewInt(int64(np)))
	k := float64(4*np+16) * c14u / float64(np)
	ptx := k * exact.F64(new(big.Rat).SetInt(ax))
	pty := k * exact.F64(new(big.Rat).SetInt(ay))
	flat := c14Flat(pts, stride, r)
	gpts := make([]*geom.Point, np)
	for i := range pts {
		gpts[i] = geom.NewPointFlat(layout, flat[i*stride:(i+1)*stride])
	}
	mp := geom.NewMultiPointFlat(layout, flat)
	if r.Chance(1, 3) {
		// the same points with EMPTY members among them (an empty member has no
		// position: the mean is still that of the points)
		var ends []int
		for i := 0; i < np; i++ {
			for r.Chance(1, 3) {
				ends = append(ends, i*stride)
			}
			ends = append(ends, (i+1)*stride)
		}
		for r.Chance(1, 3) {
			ends = append(ends, np*stride)
		}
		mp = geom.NewMultiPointFlat(layout, flat, geom.NewMultiPointFlatOptionWithEnds(ends))
		if len(ends) > np {
			c.Count("multipoints_with_empty_members")
		}
	}
	var p1, p2, p3, p4 geom.Coord
	if c.Guard("panic", func() {
		p1 = xy.PointsCentroid(gpts[0], gpts[1:]...)
		p2 = xy.MultiPointCentroid(mp)
		p3 = xy.PointsCentroidFlat(layout, flat)
		p4, _ = xy.Centroid(mp)
	}) {
		return
	}
	c.Count("point_sets")
	c.Distinct(fmt.Sprintf("points/%d/%s", np, layout))
	for i, g := range []geom.Coord{p1, p2, p3, p4} {
		if !c14CheckCent(c, []string{"PointsCentroid", "MultiPointCentroid", "PointsCentroidFlat", "Centroid"}[i], g, pcx, pcy, ptx, pty) {
			return
		}
	}
	// one point through the generic entry point; the calculator fed point by point
	var p5, p6 geom.Coord
	var err error
	if c.Guard("panic", func() {
		p5, err = xy.Centroid(gpts[0])
		calc := xy.NewPointCentroidCalculator()
		for _, gp := range gpts {
			calc.AddPoint(gp)
		}
		p6 = calc.GetCentroid()
	}) {
		return
	}
	if err != nil {
		c.Fail("centroid-error", "Centroid(Point): %v", err)
		return
	}
	one := func(v int64) *big.Rat { return new(big.Rat).SetInt64(v) }
	if !c14CheckCent(c, "Centroid(Point)", p5, one(pts[0].x), one(pts[0].y), 4*c14u*float64(abs64(pts[0].x)), 4*c14u*float64(abs64(pts[0].y))) {
		return
	}
	c14CheckCent(c, "PointCentroidCalculator.AddPoint", p6, pcx, pcy, ptx, pty)
}

// c14EveryLength: the k x 1 rectangle with a vertex at every unit step (idx+5
// vertices or the next odd number), counter-clockwise and clockwise, as a ring, a
// polygon and the second member of a MultiPolygon, the unit-step line and the
// point set (i, -i) of every size: direction, signed area and the three kinds of
// centroid are known in closed form (area k, centroid (k/2, 1/2); line centroid
// ((n-1)/2, 7); mean ((n-1)/2, -(n-1)/2)).
func c14EveryLength(c *fw.Ctx, idx int) {
	n := idx + 5
	if n%2 == 0 {
		n++
	}
	k := (n - 3) / 2
	tol := 1e-9 * float64(k+1)
	for _, layout := range []geom.Layout{geom.XY, geom.XYZ} {
		stride := layout.Stride()
		ring := make([]float64, n*stride)
		put := func(f []float64, i int, x, y float64) { f[i*stride], f[i*stride+1] = x, y }
		for i := 0; i <= k; i++ {
			put(ring, i, float64(i), 0)
			put(ring, k+1+i, float64(k-i), 1)
		}
		put(ring, n-1, 0, 0)
		cw := make([]float64, len(ring))
		for i := 0; i < n; i++ {
			copy(cw[i*stride:(i+1)*stride], ring[(n-1-i)*stride:(n-i)*stride])
		}
		c.SetInput(map[string]any{"shape": "k x 1 rectangle with a vertex at every unit step", "vertices": n, "k": k, "layout": layout.String()})
		var ccw1, ccw2 bool
		var sa1, sa2 float64
		var c1, c2, c3 geom.Coord
		if c.Guard("panic", func() {
			ccw1, ccw2 = xy.IsRingCounterClockwise(layout, ring), xy.IsRingCounterClockwise(layout, cw)
			sa1, sa2 = xy.SignedArea(layout, ring), xy.SignedArea(layout, cw)
			pg := geom.NewPolygonFlat(layout, ring, []int{len(ring)})
			c1 = xy.PolygonsCentroid(pg)
			c2 = xy.PolygonsCentroid(geom.NewPolygonFlat(layout, cw, []int{len(cw)}))
			c3 = xy.LinearRingsCentroid(geom.NewLinearRingFlat(layout, ring))
		}) {
			return
		}
		c.Eval(7)
		if !ccw1 || ccw2 {
			c.Fail("wrong-direction", "%d x 1 rectangle of %d vertices: IsRingCounterClockwise = %v for the counter-clockwise ring, %v for the clockwise one", k, n, ccw1, ccw2)
			return
		}
		if math.Abs(sa1+float64(k)) > tol || math.Abs(sa2-float64(k)) > tol {
			c.Fail("wrong-signed-area", "%d x 1 rectangle of %d vertices: SignedArea = %v (counter-clockwise ring; exact %d), %v (clockwise; exact %d)", k, n, sa1, -k, sa2, k)
			return
		}
		for i, g := range []geom.Coord{c1, c2} {
			if len(g) < 2 || math.Abs(g[0]-float64(k)/2) > tol || math.Abs(g[1]-0.5) > tol {
				c.Fail("wrong-centroid", "%d x 1 rectangle of %d vertices (%s): PolygonsCentroid = %v, exact (%v 0.5)", k, n, []string{"counter-clockwise", "clockwise"}[i], g, float64(k)/2)
				return
			}
		}
		// perimeter centroid of the rectangle: by symmetry its centre
		if len(c3) < 2 || math.Abs(c3[0]-float64(k)/2) > tol || math.Abs(c3[1]-0.5) > tol {
			c.Fail("wrong-centroid", "%d x 1 rectangle of %d vertices: LinearRingsCentroid = %v, exact (%v 0.5)", k, n, c3, float64(k)/2)
			return
		}
		// line and points
		line := make([]float64, n*stride)
		pts := make([]float64, n*stride)
		for i := 0; i < n; i++ {
			put(line, i, float64(i), 7)
			put(pts, i, float64(i), float64(-i))
		}
		var l1, p1, p2 geom.Coord
		if c.Guard("panic", func() {
			l1 = xy.LinesCentroid(geom.NewLineStringFlat(layout, line))
			p1 = xy.PointsCentroidFlat(layout, pts)
			p2 = xy.MultiPointCentroid(geom.NewMultiPointFlat(layout, pts))
		}) {
			return
		}
		c.Eval(3)
		h := float64(n-1) / 2
		if len(l1) < 2 || math.Abs(l1[0]-h) > tol || math.Abs(l1[1]-7) > tol {
			c.Fail("wrong-centroid", "unit-step line of %d vertices: LinesCentroid = %v, exact (%v 7)", n, l1, h)
			return
		}
		for i, g := range []geom.Coord{p1, p2} {
			if len(g) < 2 || math.Abs(g[0]-h) > tol || math.Abs(g[1]+h) > tol {
				c.Fail("wrong-centroid", "%d points (i, -i): %s = %v, exact (%v %v)", n, []string{"PointsCentroidFlat", "MultiPointCentroid"}[i], g, h, -h)
				return
			}
		}
	}
	c.Count("sizes_with_closed_form_centroids")
	if idx%1000 == 0 {
		c.Distinct(fmt.Sprintf("every-length/%d", idx))
	}
}

func init() {
	fw.Register(&fw.Monitor{
		ID:     "C14",
		Title:  "centroids, ring direction and signed area match exact geometry",
		Rule:   "integer-grid inputs (extent <= 1e5 around offsets 0, +-1e3, +-1e6, +-1e9): simple rings (star-shaped by exact angle order; rectilinear staircases with flat tops and repeated vertices) in both directions from every start vertex -> IsRingCounterClockwise == (exact area > 0), SignedArea == exact (clockwise positive); polygons with 0..3 holes strictly inside and multipolygons of disjoint members -> area centroid vs exact rational centroid within ((4n+16)u(sum|a_i c_i| + 3|C|sum|a_i|))/(3|A2|) through PolygonsCentroid, MultiPolygonCentroid and Centroid; collinear (zero-area) polygons -> length-weighted centroid; polylines and point sets vs 400-bit / rational means. distinct_nontrivial = distinct (kind, size, direction/holes, layout) combinations",
		Assume: []string{"math/big exact; every difference and product the code forms on these grids is exact or rounded once, which is what the bound assumes"},
		Classes: []fw.Class{
			{Name: "rings", Quick: 80000, Thorough: 6000000, Run: c14Rings},
			{Name: "polygons", Quick: 60000, Thorough: 4000000, Run: c14Polygons},
			{Name: "zero-area", Quick: 15000, Thorough: 800000, Run: c14ZeroArea},
			{Name: "lines-points", Quick: 40000, Thorough: 3200000, Run: c14LinesPoints},
			{Name: "every-length", Quick: 8000, Thorough: 40000, Chunk: 40, Run: c14EveryLength, Exhaustive: "closed-form rectangle, line and point set at every size from 5 to the class count + 4"},
		},
		Require: []string{"ring_ccw", "ring_cw", "ring_tie_at_top", "ring_star", "ring_staircase", "with_holes", "polygons_1", "polygons_3", "zero_area_fallback", "line_sets", "point_sets"},
	})
}

// c14RefusedCalls makes centroid calls on inputs the functions cannot handle (an
// empty member after a non-empty one, a hole of three coordinates, an empty line
// among lines): as the code stands they panic part-way through, the caller
// recovers, and goes on.  Nothing is judged here; what is judged is the ordinary
// call that follows - whatever the failed call had accumulated must be gone.
func c14RefusedCalls(c *fw.Ctx, layout geom.Layout) {
	st := layout.Stride()
	ring := func(pts ...float64) []float64 {
		f := make([]float64, 0, len(pts)/2*st)
		for i := 0; i+1 < len(pts); i += 2 {
			f = append(f, pts[i], pts[i+1])
			for k := 2; k < st; k++ {
				f = append(f, 0)
			}
		}
		return f
	}
	sq := ring(100, 100, 140, 100, 140, 140, 100, 140, 100, 100)
	tri := ring(110, 110, 120, 110, 110, 110) // three coordinates: not a ring
	try := func(f func()) {
		defer func() {
			if recover() != nil {
				c.Count("refused_centroid_calls_that_panicked")
			}
		}()
		f()
	}
	poly := geom.NewPolygonFlat(layout, sq, []int{len(sq)})
	withBadHole := geom.NewPolygonFlat(layout, append(append([]float64{}, sq...), tri...), []int{len(sq), len(sq) + len(tri)})
	mpEmptySecond := geom.NewMultiPolygonFlat(layout, sq, [][]int{{len(sq)}, {}})
	try(func() { xy.MultiPolygonCentroid(mpEmptySecond) })
	try(func() { xy.PolygonsCentroid(poly, geom.NewPolygon(layout)) })
	try(func() { xy.PolygonsCentroid(withBadHole) })
	try(func() { xy.Centroid(mpEmptySecond) })
	try(func() { xy.LinesCentroid(geom.NewLineStringFlat(layout, sq), geom.NewLineString(layout)) })
	try(func() { xy.LinearRingsCentroid(geom.NewLinearRingFlat(layout, sq), geom.NewLinearRing(layout)) })
	try(func() { xy.PointsCentroid(geom.NewPointFlat(layout, sq[:st]), geom.NewPointEmpty(layout)) })
	c.Count("refused_centroid_calls_before_a_judged_one")
}
