// Package mon holds one runtime monitor per property (C01..C20).
package mon

import (
	"fmt"
	"math"

	geom "github.com/twpayne/go-geom"
	"github.com/twpayne/go-geom/bigxy"
	"github.com/twpayne/go-geom/encoding/ewkb"
	"github.com/twpayne/go-geom/encoding/ewkbhex"
	"github.com/twpayne/go-geom/encoding/geojson"
	"github.com/twpayne/go-geom/encoding/wkb"
	"github.com/twpayne/go-geom/encoding/wkbcommon"
	"github.com/twpayne/go-geom/encoding/wkbhex"
	"github.com/twpayne/go-geom/encoding/wkt"
	"github.com/twpayne/go-geom/xy"
	"github.com/twpayne/go-geom/xy/lineintersector"
	"github.com/twpayne/go-geom/xyz"

	"verifharness/fw"
	"verifharness/model"
)

// wfCheck applies the well-formedness monitor to a geometry obtained from
// go-geom and cross-counts the library's own verify() (hook) as a second opinion.
func wfCheck(c *fw.Ctx, how string, t geom.T) bool {
	err := model.WF(t)
	verr := geom.VerifCheck(t)
	switch {
	case err == nil && verr == nil:
		c.Count("wf_ok")
	case err != nil && verr != nil:
		c.Count("wf_both_reject")
	case err != nil:
		c.Count("wf_monitor_stricter_than_verify")
	default:
		c.Count("wf_verify_stricter_than_monitor")
	}
	if err != nil {
		c.Fail("ill-formed", "%s: geometry is not well formed: %v (library verify: %v)", how, err, verr)
		return false
	}
	return true
}

// expectGeom checks that t is well formed and equal to the model, reading t
// only through Layout/SRID/FlatCoords/Ends/Endss.
func expectGeom(c *fw.Ctx, how string, t geom.T, want *model.G, o model.Opts) bool {
	if t == nil {
		c.Fail("nil-geometry", "%s: nil geometry, want %s", how, want.Sig())
		return false
	}
	if !wfCheck(c, how, t) {
		return false
	}
	got := model.FromGeom(t)
	if got == nil {
		c.Fail("unknown-type", "%s: unexpected geometry type %T", how, t)
		return false
	}
	if d := model.Equal(want, got, o); d != "" {
		c.Fail("not-equal", "%s: %s\n want %s\n got  %s", how, d, want, got)
		return false
	}
	return true
}

// rawFlatCheck compares the flat array and end offsets with the model's prefix sums.
func rawFlatCheck(c *fw.Ctx, how string, t geom.T, want *model.G) bool {
	if want.Kind == model.Collection {
		return true
	}
	flat, ends, endss := want.Flat()
	if !model.BitsEq(flat, t.FlatCoords()) {
		c.Fail("flat-mismatch", "%s: flat coordinates differ from the model's: got %s want %s", how, fw.Fs(t.FlatCoords()), fw.Fs(flat))
		return false
	}
	switch want.Kind {
	case model.Polygon, model.MultiLineString, model.MultiPoint:
		if !model.IntsEq(ends, t.Ends()) {
			c.Fail("ends-mismatch", "%s: ends %v, model prefix sums %v", how, t.Ends(), ends)
			return false
		}
	case model.MultiPolygon:
		ge := t.Endss()
		if len(ge) != len(endss) {
			c.Fail("endss-mismatch", "%s: endss %v, model %v", how, ge, endss)
			return false
		}
		for i := range ge {
			if !model.IntsEq(ge[i], endss[i]) {
				c.Fail("endss-mismatch", "%s: endss %v, model %v", how, ge, endss)
				return false
			}
		}
	}
	return true
}

func coordEq(a geom.Coord, b []float64) bool { return model.BitsEq([]float64(a), b) }

func coords1Eq(a []geom.Coord, b [][]float64) bool {
	if len(a) != len(b) {
		return false
	}
	for i := range a {
		if !coordEq(a[i], b[i]) {
			return false
		}
	}
	return true
}

func coords2Eq(a [][]geom.Coord, b [][][]float64) bool {
	if len(a) != len(b) {
		return false
	}
	for i := range a {
		if !coords1Eq(a[i], b[i]) {
			return false
		}
	}
	return true
}

func coords3Eq(a [][][]geom.Coord, b [][][][]float64) bool {
	if len(a) != len(b) {
		return false
	}
	for i := range a {
		if !coords2Eq(a[i], b[i]) {
			return false
		}
	}
	return true
}

// snapshot is a deep bitwise copy of everything observable of a geometry.
type snapshot struct {
	typ     string
	layout  geom.Layout
	stride  int
	srid    int
	flat    []uint64
	flatNil bool
	ends    []int
	endss   [][]int
	subs    []snapshot
}

func snap(t geom.T) snapshot {
	s := snapshot{typ: fmt.Sprintf("%T", t)}
	if gc, ok := t.(*geom.GeometryCollection); ok {
		s.layout = gc.Layout()
		s.srid = gc.SRID()
		for _, m := range gc.Geoms() {
			s.subs = append(s.subs, snap(m))
		}
		return s
	}
	s.layout = t.Layout()
	s.stride = t.Stride()
	s.srid = t.SRID()
	f := t.FlatCoords()
	s.flat = make([]uint64, len(f))
	for i, v := range f {
		s.flat[i] = math.Float64bits(v)
	}
	s.ends = append([]int{}, t.Ends()...)
	for _, e := range t.Endss() {
		s.endss = append(s.endss, append([]int{}, e...))
	}
	return s
}

// diff returns "" when two snapshots agree (length-and-bits, never DeepEqual).
func (a snapshot) diff(b snapshot) string {
	if a.typ != b.typ {
		return fmt.Sprintf("type %s vs %s", a.typ, b.typ)
	}
	if a.layout != b.layout {
		return fmt.Sprintf("layout %s vs %s", a.layout, b.layout)
	}
	if a.stride != b.stride {
		return fmt.Sprintf("stride %d vs %d", a.stride, b.stride)
	}
	if a.srid != b.srid {
		return fmt.Sprintf("srid %d vs %d", a.srid, b.srid)
	}
	if len(a.flat) != len(b.flat) {
		return fmt.Sprintf("flat length %d vs %d", len(a.flat), len(b.flat))
	}
	for i := range a.flat {
		if a.flat[i] != b.flat[i] {
			return fmt.Sprintf("flat[%d] %v vs %v", i, math.Float64frombits(a.flat[i]), math.Float64frombits(b.flat[i]))
		}
	}
	if !model.IntsEq(a.ends, b.ends) {
		return fmt.Sprintf("ends %v vs %v", a.ends, b.ends)
	}
	if len(a.endss) != len(b.endss) {
		return fmt.Sprintf("endss %v vs %v", a.endss, b.endss)
	}
	for i := range a.endss {
		if !model.IntsEq(a.endss[i], b.endss[i]) {
			return fmt.Sprintf("endss %v vs %v", a.endss, b.endss)
		}
	}
	if len(a.subs) != len(b.subs) {
		return fmt.Sprintf("%d vs %d members", len(a.subs), len(b.subs))
	}
	for i := range a.subs {
		if d := a.subs[i].diff(b.subs[i]); d != "" {
			return fmt.Sprintf("member %d: %s", i, d)
		}
	}
	return ""
}

func pickLayout(r *fw.Rand, ls []geom.Layout) geom.Layout { return ls[r.Intn(len(ls))] }

// codecNoise makes a few encoder calls with non-default options on an
// unrelated geometry.  Options are per call: a later call without them must
// behave as if these had never happened.
func codecNoise(c *fw.Ctx) {
	r := c.R
	g := geom.NewLineStringFlat(geom.XY, []float64{1.23456789, 2.5, -3.000001, 4.75})
	d := r.Intn(4)
	c.Guard("panic", func() {
		switch r.Intn(6) {
		case 4, 5:
			// calls that fail part-way: an encoder must not carry what it had
			// already produced for them into a later call
			bad := geom.NewLineStringFlat(geom.Layout(5), []float64{1, 2, 3, 4, 5, 6, 7, 8, 9, 10})
			badGC := geom.NewGeometryCollection().MustPush(geom.NewPointFlat(geom.XY, []float64{1, 2}), bad)
			if r.Bool() {
				// fails only after the first member has been written
				badGC = geom.NewGeometryCollection().MustPush(geom.NewPointFlat(geom.XY, []float64{1, 2}), geom.NewLineString(geom.NoLayout))
			}
			ewkb.Marshal(bad, ewkb.NDR)
			ewkb.Marshal(badGC, ewkb.XDR)
			ewkbhex.Encode(badGC, ewkbhex.NDR)
			wkb.Marshal(badGC, wkb.NDR)
			wkb.Marshal(geom.NewMultiPointFlat(geom.XY, []float64{1, 2}, geom.NewMultiPointFlatOptionWithEnds([]int{2, 2})), wkb.XDR) // empty member: error mode rejects it
			wkbhex.Encode(badGC, wkbhex.XDR)
			wkt.Marshal(badGC)
			geojson.Marshal(badGC)
			(&ewkb.GeometryCollection{GeometryCollection: badGC}).Value()
			(&wkb.GeometryCollection{GeometryCollection: badGC}).Value()
		case 0:
			wkt.Marshal(g, wkt.EncodeOptionWithMaxDecimalDigits(d))
		case 1:
			wkt.NewEncoder(wkt.EncodeOptionWithMaxDecimalDigits(d)).Encode(g)
		case 2:
			geojson.Marshal(g, geojson.EncodeGeometryWithMaxDecimalDigits(d), geojson.EncodeGeometryWithBBox())
		default:
			geojson.Marshal(g, geojson.EncodeGeometryWithBBox())
			wkb.Marshal(geom.NewPointEmpty(geom.XY), wkb.NDR, wkbcommon.WKBOptionEmptyPointHandling(wkbcommon.EmptyPointHandlingNaN))
		}
	})
	c.Count("calls_with_other_options_interleaved")
}

// heldSlot is a result object of an earlier case that is still referenced.
type heldSlot struct {
	desc     string
	snap     func() string
	want     string
	scribble func()
}

var heldSlots = map[string]*heldSlot{}

// holdAndRecheck keeps a result object alive across cases: the object held
// under this key since an earlier case is read again (it must still say what it
// said when it was returned - later calls of the library must not have written
// into it), then the new one takes its place.
func holdAndRecheck(c *fw.Ctx, key, desc string, snap func() string) bool {
	return holdRecheckScribble(c, key, desc, snap, nil)
}

// holdRecheckScribble is holdAndRecheck for results that are plain data the
// caller owns: when the held object is let go it is first overwritten with
// junk (scribble), as a caller recycling its memory would.  Results returned
// later are judged by their oracles as always - they must not be made of that memory.
func holdRecheckScribble(c *fw.Ctx, key, desc string, snap func() string, scribble func()) bool {
	ok := true
	if h := heldSlots[key]; h != nil {
		var now string
		if !c.Guard("panic", func() { now = h.snap() }) {
			c.Count("held_results_rechecked")
			if now != h.want {
				c.Fail("result-invalidated", "a result returned earlier (%s) changed after later calls: it was %s, now reads %s", h.desc, clipStr(h.want, 300), clipStr(now, 300))
				ok = false
			}
		}
		if h.scribble != nil {
			c.Guard("panic", h.scribble)
			c.Count("held_results_overwritten_by_the_caller_when_let_go")
		}
	}
	var w string
	if c.Guard("panic", func() { w = snap() }) {
		delete(heldSlots, key)
		return false
	}
	heldSlots[key] = &heldSlot{desc: desc, snap: snap, want: w, scribble: scribble}
	return ok
}

// negZeros rewrites, in one flat array in four, about half of the zero X and Y
// ordinates as -0: the same numbers, other bit patterns.  It reports whether it
// did.  Oracles work on the numbers and are not affected.
func negZeros(r *fw.Rand, flat []float64, stride int) bool {
	if stride < 2 || !r.Chance(1, 4) {
		return false
	}
	did := false
	for i := 0; i+1 < len(flat); i += stride {
		for k := 0; k < 2; k++ {
			if flat[i+k] == 0 && r.Bool() {
				flat[i+k] = math.Copysign(0, -1)
				did = true
			}
		}
	}
	return did
}

// xyRefusedCalls calls the planar functions on arguments they cannot do anything
// sensible with (no points, one ordinate, odd array lengths, too-short rings,
// nil).  Several of them panic as the code stands; the caller recovers and
// carries on.  Nothing is judged here: the point is that the ordinary call
// judged next must not see anything such a call left behind.
func xyRefusedCalls(c *fw.Ctx) {
	try := func(f func()) {
		defer func() {
			if recover() != nil {
				c.Count("refused_xy_calls_that_panicked")
			}
		}()
		f()
	}
	short := geom.Coord{1}
	p, q := geom.Coord{1, 2}, geom.Coord{3, 4}
	odd := []float64{0, 0, 4, 0, 4}
	tri := []float64{0, 0, 4, 0, 0, 0}
	for _, l := range []geom.Layout{geom.XY, geom.XYZ} {
		try(func() { xy.LocatePointInRing(l, p, nil) })
		try(func() { xy.LocatePointInRing(l, short, tri) })
		try(func() { xy.IsPointInRing(l, p, odd) })
		try(func() { xy.IsOnLine(l, p, nil) })
		try(func() { xy.IsOnLine(l, p, odd[:2]) })
		try(func() { xy.IsRingCounterClockwise(l, tri) })
		try(func() { xy.IsRingCounterClockwise(l, nil) })
		try(func() { xy.SignedArea(l, odd) })
		try(func() { xy.ConvexHullFlat(l, nil) })
		try(func() { xy.ConvexHullFlat(l, odd) })
		try(func() { xy.DistanceFromPointToLineString(l, p, nil) })
		try(func() { xy.DistanceFromPointToLineString(l, short, odd) })
		try(func() { xy.PointsCentroidFlat(l, nil) })
		try(func() { xy.PointsCentroidFlat(l, odd) })
	}
	try(func() { xy.SimplifyFlatCoords(odd, 1, 2) })
	try(func() { xy.SimplifyFlatCoords(tri, 1, 0) })
	try(func() { xy.SimplifyFlatCoords(nil, -1, 2) })
	try(func() { xy.DistanceFromPointToLine(short, p, q) })
	try(func() { xy.DistanceFromLineToLine(p, q, short, nil) })
	try(func() { xy.OrientationIndex(p, short, q) })
	try(func() { bigxy.OrientationIndex(nil, p, q) })
	// lines that have no single intersection point (parallel, identical, zero length)
	for _, q4 := range [][8]float64{{0, 0, 4, 0, 0, 1, 4, 1}, {0, 0, 0, 4, 1, 0, 1, 4}, {0, 0, 4, 4, 0, 0, 4, 4}, {1, 1, 1, 1, 2, 2, 2, 2}, {0, 0, 4, 0, 1, 0, 9, 0}} {
		try(func() {
			bigxy.Intersection(geom.Coord{q4[0], q4[1]}, geom.Coord{q4[2], q4[3]}, geom.Coord{q4[4], q4[5]}, geom.Coord{q4[6], q4[7]})
		})
	}
	try(func() { lineintersector.LineIntersectsLine(lineintersector.RobustLineIntersector{}, p, q, short, p) })
	try(func() { lineintersector.LineIntersectsLine(lineintersector.NonRobustLineIntersector{}, p, nil, q, p) })
	try(func() { lineintersector.PointIntersectsLine(lineintersector.RobustLineIntersector{}, short, p, q) })
	try(func() { xyz.DistanceLineToLine(p, q, p, q) })
	try(func() { xyz.DistancePointToLine(short, p, q) })
	try(func() { xyz.Distance(p, short) })
	c.Count("refused_xy_calls_before_a_judged_one")
}

// callerScribbles treats a geometry the library returned (a decoder's result, a
// hull, a clone) as what it is: the caller's own.  The caller pushes further
// parts onto it - empty ones and non-empty ones -, gives it other coordinates,
// and finally overwrites every ordinate and every end offset it can reach,
// spare capacity included.  Nothing is judged here; results the library returns
// later are judged by their oracles and must not be made of, or share tables
// with, what was scribbled on.
func callerScribbles(c *fw.Ctx, t geom.T) {
	if t == nil || isNilGeom(t) {
		return
	}
	c.Guard("panic", func() { scribbleGeom(c.R, t, 0) })
	c.Count("results_scribbled_on_by_the_caller")
}

func scribbleGeom(r *fw.Rand, t geom.T, depth int) {
	l := t.Layout()
	st := l.Stride()
	if depth == 0 {
		geom.SetSRID(t, 987654)
	}
	co := func(v float64) []float64 {
		f := make([]float64, st)
		for i := range f {
			f[i] = v + float64(i)
		}
		return f
	}
	if st > 0 && depth < 6 {
		switch g := t.(type) {
		case *geom.Point:
			g.SetCoords(co(-901))
		case *geom.LineString:
			g.SetCoords([]geom.Coord{co(-902), co(-903)})
		case *geom.LinearRing:
			g.SetCoords([]geom.Coord{co(-904), co(-905), co(-906), co(-904)})
		case *geom.MultiPoint:
			g.Push(geom.NewPointEmpty(l))
			g.Push(geom.NewPointFlat(l, co(-907)))
			g.Push(geom.NewPointEmpty(l))
		case *geom.MultiLineString:
			g.Push(geom.NewLineString(l))
			g.Push(geom.NewLineStringFlat(l, append(co(-908), co(-909)...)))
		case *geom.Polygon:
			g.Push(geom.NewLinearRing(l))
			g.Push(geom.NewLinearRingFlat(l, append(append(append(co(-910), co(-911)...), co(-912)...), co(-910)...)))
		case *geom.MultiPolygon:
			g.Push(geom.NewPolygon(l))
			ring := append(append(append(co(-913), co(-914)...), co(-915)...), co(-913)...)
			g.Push(geom.NewPolygonFlat(l, ring, []int{len(ring)}))
			g.Push(geom.NewPolygon(l))
		case *geom.GeometryCollection:
			for _, m := range g.Geoms() {
				scribbleGeom(r, m, depth+1)
			}
			g.Push(geom.NewPointFlat(geom.XY, []float64{-916, -917}))
			return
		}
	}
	if _, ok := t.(*geom.GeometryCollection); ok {
		return
	}
	f := t.FlatCoords()
	f = f[:cap(f)]
	for i := range f {
		f[i] = -8.5e250
	}
	e := t.Ends()
	e = e[:cap(e)]
	for i := range e {
		e[i] = -31337
	}
	es := t.Endss()
	es = es[:cap(es)]
	for i := range es {
		row := es[i][:cap(es[i])]
		for j := range row {
			row[j] = -31338
		}
	}
}

// hugeFloats draws a length (in ordinates, a multiple of stride) on or next to
// the sizes at which block-wise code switches: multiples of 65536 up to
// 18*65536 (so 2^16, 2^17, 2^18 and 2^20 are among them), exactly, one
// coordinate more or less, or a few coordinates off.
func hugeFloats(r *fw.Rand, stride int) int {
	n := 65536 * r.Range(1, 18)
	if r.Chance(1, 2) {
		n = 65536 * []int{1, 2, 4, 8, 16, 17, 17, 18, 20}[r.Intn(9)]
	}
	switch r.Intn(6) {
	case 0:
		n += stride
	case 1:
		n -= stride
	case 2:
		n += stride * r.Range(-40, 40)
	}
	n -= n % stride
	if n < stride {
		n = stride
	}
	return n
}

// spareStored returns, one time in three, the geometry of model g built over
// storage a caller may well have: flat coordinates and end offsets with spare
// capacity behind their length (zeros behind an empty point's, too), or empty but
// non-nil slices, and perhaps a Reserve on top.  What a geometry is is decided
// by the lengths; an encoder or measure has no business behind them.
func spareStored(c *fw.Ctx, g *model.G, t geom.T) geom.T {
	r := c.R
	if g.Kind == model.Collection || g.Layout.Stride() == 0 || !r.Chance(1, 3) {
		return t
	}
	nt := c16Build(g, 1+r.Intn(2))
	if nt == nil {
		return t
	}
	geom.SetSRID(nt, g.SRID)
	if r.Chance(1, 3) {
		c16Reserve(nt, r.Range(1, 9))
	}
	c.Count("geometry_built_over_storage_with_spare_capacity")
	return nt
}
