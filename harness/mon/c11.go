package mon

import (
	"fmt"
	"math"
	"math/big"

	geom "github.com/twpayne/go-geom"
	"github.com/twpayne/go-geom/xy"
	"github.com/twpayne/go-geom/xy/lineintersector"
	"github.com/twpayne/go-geom/xy/location"

	"verifharness/exact"
	"verifharness/fw"
	"verifharness/gen"
)

// C11 - point location against rings and lines is exact.

type ipt struct{ x, y int64 }

func icross(a, b, c ipt) int64 { return (b.x-a.x)*(c.y-a.y) - (b.y-a.y)*(c.x-a.x) }

// icrossSign is the sign of icross, also when the products do not fit 64 bits.
func icrossSign(a, b, c ipt) int {
	const lim = 1 << 30
	in := func(v int64) bool { return v > -lim && v < lim }
	if in(b.x-a.x) && in(c.y-a.y) && in(b.y-a.y) && in(c.x-a.x) && in(a.x) && in(a.y) && in(b.x) && in(b.y) && in(c.x) && in(c.y) {
		v := icross(a, b, c)
		switch {
		case v > 0:
			return 1
		case v < 0:
			return -1
		}
		return 0
	}
	bi := func(v int64) *big.Int { return big.NewInt(v) }
	l := new(big.Int).Mul(new(big.Int).Sub(bi(b.x), bi(a.x)), new(big.Int).Sub(bi(c.y), bi(a.y)))
	r := new(big.Int).Mul(new(big.Int).Sub(bi(b.y), bi(a.y)), new(big.Int).Sub(bi(c.x), bi(a.x)))
	return l.Cmp(r)
}

func ionseg(p, a, b ipt) bool {
	if icrossSign(a, b, p) != 0 {
		return false
	}
	return min64(a.x, b.x) <= p.x && p.x <= max64(a.x, b.x) && min64(a.y, b.y) <= p.y && p.y <= max64(a.y, b.y)
}

func min64(a, b int64) int64 {
	if a < b {
		return a
	}
	return b
}

func max64(a, b int64) int64 {
	if a > b {
		return a
	}
	return b
}

// iLocate is the oracle: boundary iff on an edge or vertex, otherwise the even-odd
// rule with a ray towards +x, evaluated in exact integer arithmetic.  ring is
// closed (last == first).
func iLocate(p ipt, ring []ipt) (loc location.Type, rayThroughVertex, horizOnRay bool) {
	for i := 1; i < len(ring); i++ {
		if ionseg(p, ring[i-1], ring[i]) {
			return location.Boundary, false, false
		}
	}
	crossings := 0
	for i := 1; i < len(ring); i++ {
		a, b := ring[i-1], ring[i]
		if a.y == p.y && a.x > p.x || b.y == p.y && b.x > p.x {
			rayThroughVertex = true
		}
		if a.y == b.y {
			if a.y == p.y && max64(a.x, b.x) > p.x {
				horizOnRay = true
			}
			continue
		}
		// half-open rule: the edge counts if exactly one endpoint is strictly above the ray
		if (a.y > p.y) == (b.y > p.y) {
			continue
		}
		// x of the crossing is right of p iff cross(lower, upper, p) > 0
		lo, hi := a, b
		if lo.y > hi.y {
			lo, hi = hi, lo
		}
		if icrossSign(lo, hi, p) > 0 {
			crossings++
		}
	}
	if crossings%2 == 1 {
		return location.Interior, rayThroughVertex, horizOnRay
	}
	return location.Exterior, rayThroughVertex, horizOnRay
}

func flatRing(ring []ipt, stride int, r *fw.Rand) []float64 {
	out := make([]float64, 0, len(ring)*stride)
	for _, v := range ring {
		out = append(out, float64(v.x), float64(v.y))
		for k := 2; k < stride; k++ {
			if r != nil {
				out = append(out, gen.Float(r, gen.AnyClass(r)))
			} else {
				out = append(out, math.NaN())
			}
		}
	}
	if r != nil {
		negZeros(r, out, stride)
	}
	return out
}

func c11Desc(p ipt, ring []ipt) map[string]any {
	s := ""
	for i, v := range ring {
		if i > 0 {
			s += " "
		}
		s += fmt.Sprintf("(%d %d)", v.x, v.y)
	}
	return map[string]any{"point": fmt.Sprintf("(%d %d)", p.x, p.y), "ring": s}
}

// c11CheckRing checks one ring/point pair in its plain form and, when variants is
// set, reversed, rotated, vertex-doubled and with extra ordinates.
// a ring buffer that lives as long as the worker process
var (
	c11Buf   [4096]float64
	c11Calls int
)

func c11CheckRing(c *fw.Ctx, p ipt, ring []ipt, variants bool) {
	if c.R.Chance(1, 64) {
		xyRefusedCalls(c)
	}
	c.SetInput(c11Desc(p, ring))
	want, tv, hr := iLocate(p, ring)
	switch want {
	case location.Interior:
		c.Count("loc_interior")
	case location.Boundary:
		c.Count("loc_boundary")
		onV := false
		for _, v := range ring {
			if v == p {
				onV = true
			}
		}
		if onV {
			c.Count("on_vertex")
		} else {
			c.Count("on_edge_interior")
		}
	default:
		c.Count("loc_exterior")
	}
	if tv {
		c.Count("ray_through_vertex")
	}
	if hr {
		c.Count("horizontal_edge_on_ray")
	}
	check := func(how string, layout geom.Layout, flat []float64, pc geom.Coord) bool {
		var got location.Type
		var in bool
		// runs of 64 rings are handed over in one buffer that the caller keeps and
		// refills: the same memory, the same length, other contents
		c11Calls++
		if (c11Calls/64)%2 == 0 && len(flat) <= len(c11Buf) {
			copy(c11Buf[:], flat)
			flat = c11Buf[:len(flat):len(flat)]
			c.Count("rings_passed_in_a_reused_buffer")
		}
		if c.Guard("panic", func() {
			got = xy.LocatePointInRing(layout, pc, flat)
			in = xy.IsPointInRing(layout, pc, flat)
		}) {
			return false
		}
		c.Eval(2)
		if got != want {
			c.Fail("wrong-location", "%s: LocatePointInRing = %s, exact even-odd/boundary answer is %s", how, got, want)
			return false
		}
		if in != (want != location.Exterior) {
			c.Fail("wrong-in-ring", "%s: IsPointInRing = %v but the exact location is %s", how, in, want)
			return false
		}
		return true
	}
	pc := geom.Coord{float64(p.x), float64(p.y)}
	if !check("plain", geom.XY, flatRing(ring, 2, nil), pc) {
		return
	}
	if !variants {
		return
	}
	r := c.R
	n := len(ring) - 1
	// reversed
	rev := make([]ipt, len(ring))
	for i := range ring {
		rev[i] = ring[len(ring)-1-i]
	}
	if !check("reversed", geom.XY, flatRing(rev, 2, nil), pc) {
		return
	}
	// rotated to another start vertex
	if n > 0 {
		k := r.Intn(n)
		rot := make([]ipt, 0, len(ring))
		for i := 0; i < n; i++ {
			rot = append(rot, ring[(i+k)%n])
		}
		rot = append(rot, rot[0])
		if !check(fmt.Sprintf("rotated by %d", k), geom.XY, flatRing(rot, 2, nil), pc) {
			return
		}
	}
	// a vertex repeated
	{
		k := r.Intn(len(ring))
		dbl := make([]ipt, 0, len(ring)+1)
		dbl = append(dbl, ring[:k+1]...)
		dbl = append(dbl, ring[k])
		dbl = append(dbl, ring[k+1:]...)
		if !check(fmt.Sprintf("vertex %d doubled", k), geom.XY, flatRing(dbl, 2, nil), pc) {
			return
		}
	}
	// extra ordinates
	for _, l := range []geom.Layout{geom.XYZ, geom.XYZM} {
		pcx := geom.Coord{float64(p.x), float64(p.y), math.NaN(), 5}[:l.Stride()]
		if !check("layout "+l.String(), l, flatRing(ring, l.Stride(), r), pcx) {
			return
		}
	}
	c.Count("variant_sets")
}

// (i) exhaustive: all closed rings of 3 vertices on a 4x4 grid x all 16 points
func c11Exh3(c *fw.Ctx, idx int) {
	n := idx
	ring := make([]ipt, 0, 4)
	for i := 0; i < 3; i++ {
		ring = append(ring, ipt{int64(n % 4), int64(n / 4 % 4)})
		n /= 16
	}
	ring = append(ring, ring[0])
	for q := 0; q < 16; q++ {
		c11CheckRing(c, ipt{int64(q % 4), int64(q / 4)}, ring, false)
	}
	c.Distinct(fmt.Sprintf("exh3/%d", idx))
}

func c11Exh4(c *fw.Ctx, idx int) {
	n := idx
	ring := make([]ipt, 0, 5)
	for i := 0; i < 4; i++ {
		ring = append(ring, ipt{int64(n % 4), int64(n / 4 % 4)})
		n /= 16
	}
	ring = append(ring, ring[0])
	for q := 0; q < 16; q++ {
		c11CheckRing(c, ipt{int64(q % 4), int64(q / 4)}, ring, false)
	}
	c.Distinct(fmt.Sprintf("exh4/%d", idx))
	if idx%9973 == 0 && c.WantSample() {
		c.Sample(c.Input())
	}
}

func gcd64(a, b int64) int64 {
	if a < 0 {
		a = -a
	}
	if b < 0 {
		b = -b
	}
	for b != 0 {
		a, b = b, a%b
	}
	return a
}

// (ii) random rings on grids, query points aimed at the corners of the algorithm
func c11Random(c *fw.Ctx, idx int) {
	r := c.R
	grids := []int64{4, 16, 1 << 10, 1 << 26}
	g := grids[r.Intn(len(grids))]
	n := r.Range(3, 40)
	if r.Chance(1, 2) {
		n = r.Range(3, 8)
	}
	ring := make([]ipt, 0, n+1)
	kind := r.Intn(4)
	switch kind {
	case 0: // arbitrary (self-intersecting) polygon
		for i := 0; i < n; i++ {
			ring = append(ring, ipt{int64(r.Intn(int(g) + 1)), int64(r.Intn(int(g) + 1))})
		}
	case 1: // star-shaped around the centre: sort by angle
		cx, cy := g/2, g/2
		type pa struct {
			p ipt
			a float64
		}
		var ps []pa
		for i := 0; i < n; i++ {
			p := ipt{int64(r.Intn(int(g) + 1)), int64(r.Intn(int(g) + 1))}
			ps = append(ps, pa{p, math.Atan2(float64(p.y-cy), float64(p.x-cx))})
		}
		for i := 1; i < len(ps); i++ {
			for j := i; j > 0 && ps[j].a < ps[j-1].a; j-- {
				ps[j], ps[j-1] = ps[j-1], ps[j]
			}
		}
		for _, q := range ps {
			ring = append(ring, q.p)
		}
	case 2: // rectilinear staircase: horizontal and vertical edges only
		x, y := int64(0), int64(0)
		for i := 0; i < n; i++ {
			if i%2 == 0 {
				x = int64(r.Intn(int(g) + 1))
			} else {
				y = int64(r.Intn(int(g) + 1))
			}
			ring = append(ring, ipt{x, y})
		}
	default: // few distinct y values: many horizontal edges and repeated points
		ys := []int64{int64(r.Intn(int(g) + 1)), int64(r.Intn(int(g) + 1)), int64(r.Intn(int(g) + 1))}
		for i := 0; i < n; i++ {
			ring = append(ring, ipt{int64(r.Intn(int(g) + 1)), ys[r.Intn(3)]})
			if r.Chance(1, 6) {
				ring = append(ring, ring[len(ring)-1])
			}
		}
	}
	ring = append(ring, ring[0])
	c.Distinct(fmt.Sprintf("rnd/%d/%d/%d", kind, g, idx))
	// query points
	for q := 0; q < 6; q++ {
		var p ipt
		switch r.Intn(5) {
		case 0: // a vertex
			p = ring[r.Intn(len(ring))]
		case 1: // x of one vertex, y of another: rays level with vertices
			p = ipt{ring[r.Intn(len(ring))].x, ring[r.Intn(len(ring))].y}
		case 2: // an exact lattice point on an edge
			i := 1 + r.Intn(len(ring)-1)
			a, b := ring[i-1], ring[i]
			dx, dy := b.x-a.x, b.y-a.y
			gg := gcd64(dx, dy)
			if gg == 0 {
				p = a
			} else {
				k := int64(r.Intn(int(min64(gg, 1<<30)) + 1))
				p = ipt{a.x + dx/gg*k, a.y + dy/gg*k}
			}
		case 3: // one unit off an edge point
			i := 1 + r.Intn(len(ring)-1)
			a := ring[i-1]
			p = ipt{a.x + int64(r.Range(-1, 1)), a.y + int64(r.Range(-1, 1))}
		default:
			p = ipt{int64(r.Intn(int(g) + 1)), int64(r.Intn(int(g) + 1))}
		}
		c11CheckRing(c, p, ring, true)
	}
	if c.WantSample() {
		c.Sample(c.Input())
	}
}

// (iii) point on line: integer polylines and moderate floats
// (ii') triangles with one edge as long as the grid allows (corner to corner of
// +-2^26, or shorter), and query points that miss that edge by the least a
// lattice point can: determinant +-1 (or on it: 0).  Edges whose slope is a
// ratio of consecutive Fibonacci numbers are in the class: they take an
// exact-sign algorithm of the Euclidean kind the greatest number of rounds.
func c11HardEdges(c *fw.Ctx, idx int) {
	r := c.R
	var a, d ipt
	fib := r.Chance(1, 3)
	if fib {
		f := []int64{1, 1}
		for len(f) < 79 {
			f = append(f, f[len(f)-1]+f[len(f)-2])
		}
		k := r.Range(5, 40)
		if r.Bool() {
			k = r.Range(34, 40)
		}
		if r.Chance(1, 3) {
			k = r.Range(41, 77) // ordinates up to 5.5e15: still exact doubles
		}
		d = ipt{f[k], f[k-1]}
		if r.Bool() {
			d = ipt{f[k-1], f[k]}
		}
		if r.Bool() {
			d.x = -d.x
		}
		if r.Bool() {
			d.y = -d.y
		}
		c.Count("hard_edges_fibonacci")
	} else {
		kk := r.Range(8, 26)
		if r.Bool() {
			kk = 26
		}
		R := int64(1)<<uint(kk) - 1
		for {
			d = ipt{2*R - int64(r.Intn(64)), 2*R - int64(r.Intn(64))}
			if r.Chance(1, 3) {
				d = ipt{int64(r.Range(1, int(2*R))), int64(r.Range(1, int(2*R)))}
			}
			if r.Bool() {
				d.x = -d.x
			}
			if r.Bool() {
				d.y = -d.y
			}
			if gcd64(d.x, d.y) == 1 {
				break
			}
		}
		c.Count("hard_edges_corner_to_corner")
	}
	// start so that the edge is centred on the origin
	a = ipt{-d.x / 2, -d.y / 2}
	b := ipt{a.x + d.x, a.y + d.y}
	_, x, y := egcd(d.x, d.y)
	if d.x*x+d.y*y < 0 {
		x, y = -x, -y
	}
	v0, u0 := x, -y // d.x*v0 - d.y*u0 = 1
	q := int64(math.Round((float64(u0)*float64(d.x) + float64(v0)*float64(d.y)) / (float64(d.x)*float64(d.x) + float64(d.y)*float64(d.y))))
	u0, v0 = u0-q*d.x, v0-q*d.y // the representative nearest to the start of the edge
	// third vertex: far off to one side
	side := int64(1)
	if r.Bool() {
		side = -1
	}
	cv := ipt{a.x + d.x/2 - side*d.y/3 + int64(r.Range(-50, 50)), a.y + d.y/2 + side*d.x/3 + int64(r.Range(-50, 50))}
	ring := []ipt{a, b, cv, a}
	if r.Bool() {
		ring = []ipt{a, cv, b, a}
	}
	if r.Bool() {
		ring = []ipt{b, cv, a, b}
	}
	c.Distinct(fmt.Sprintf("hard/%d/%d", d.x, d.y))
	var qs []ipt
	for _, k := range []int64{1, -1, 0, 2, -2} {
		for _, t := range []int64{0, 1} {
			qs = append(qs, ipt{a.x + k*u0 + t*(d.x-2*k*u0), a.y + k*v0 + t*(d.y-2*k*v0)})
		}
	}
	if fib {
		f := []int64{1, 1}
		for len(f) < 79 {
			f = append(f, f[len(f)-1]+f[len(f)-2])
		}
		sx, sy := int64(1), int64(1)
		if d.x < 0 {
			sx = -1
		}
		if d.y < 0 {
			sy = -1
		}
		for k := 3; k < 78; k++ {
			if f[k] == abs64(d.x) || f[k] == abs64(d.y) {
				if abs64(d.x) > abs64(d.y) {
					qs = append(qs, ipt{a.x + sx*f[k-1], a.y + sy*f[k-2]}, ipt{a.x + sx*f[k-2], a.y + sy*f[k-3]})
				} else {
					qs = append(qs, ipt{a.x + sx*f[k-2], a.y + sy*f[k-1]}, ipt{a.x + sx*f[k-3], a.y + sy*f[k-2]})
				}
			}
		}
	}
	for _, p := range qs {
		c.Count("hard_edge_queries")
		c11CheckRing(c, p, ring, r.Chance(1, 4))
	}
}

// (v) one array of ordinates that is a closed ring both as XY (3m/2 points) and
// as XYZ (m points, every third ordinate ignored): asked as XY, as XYZ, as XY
// again - each answer is that of the ring the layout makes of the array
func c11TwoLayouts(c *fw.Ctx, idx int) {
	r := c.R
	g := []int{4, 16, 1 << 10}[r.Intn(3)]
	m := 2 * r.Range(2, 8)
	flat := make([]float64, 3*m)
	for i := range flat {
		flat[i] = float64(r.Intn(g + 1))
	}
	v := float64(r.Intn(g + 1))
	flat[0], flat[1] = v, v
	flat[3*m-3], flat[3*m-2], flat[3*m-1] = v, v, v
	var ring2, ring3 []ipt
	for j := 0; j < 3*m/2; j++ {
		ring2 = append(ring2, ipt{int64(flat[2*j]), int64(flat[2*j+1])})
	}
	for i := 0; i < m; i++ {
		ring3 = append(ring3, ipt{int64(flat[3*i]), int64(flat[3*i+1])})
	}
	for q := 0; q < 4; q++ {
		p := ipt{int64(r.Intn(g + 1)), int64(r.Intn(g + 1))}
		if r.Bool() {
			p = ring3[r.Intn(len(ring3))]
		}
		pc := geom.Coord{float64(p.x), float64(p.y)}
		w2, _, _ := iLocate(p, ring2)
		w3, _, _ := iLocate(p, ring3)
		for k, lay := range []geom.Layout{geom.XY, geom.XYZ, geom.XY, geom.XYZ} {
			want := w2
			if lay == geom.XYZ {
				want = w3
			}
			var got location.Type
			if c.Guard("panic", func() { got = xy.LocatePointInRing(lay, pc, flat) }) {
				return
			}
			c.Eval(1)
			c.Count("one_array_asked_under_two_layouts")
			if got != want {
				c.SetInput(map[string]any{"point": fmt.Sprintf("(%d %d)", p.x, p.y), "array": fw.Fs(flat), "asked_as": lay.String(), "call": k + 1, "of": "XY, XYZ, XY, XYZ on the same array"})
				c.Fail("wrong-location", "LocatePointInRing(%s, ...) = %s on call %d of XY/XYZ/XY/XYZ over one array, exact answer for that layout is %s", lay, got, k+1, want)
				return
			}
		}
	}
	c.Distinct(fmt.Sprintf("two/%d/%d", g, idx))
	// ... and layouts of many dimensions after the usual ones: a small ring and a
	// line under Layout(66), Layout(67), Layout(129), Layout(130), right after the same
	// questions under XY and XYZ
	if r.Chance(1, 4) {
		sq := []ipt{{0, 0}, {6, 0}, {6, 6}, {0, 6}, {0, 0}}
		p := ipt{int64(r.Intn(8)), int64(r.Intn(8))}
		want, _, _ := iLocate(p, sq)
		onl := false
		for k := 1; k < len(sq); k++ {
			if ionseg(p, sq[k-1], sq[k]) {
				onl = true
			}
		}
		for _, lay := range []geom.Layout{geom.XY, geom.XYZ, geom.Layout([]int{66, 67, 129, 130, 64, 65, 258}[r.Intn(7)]), geom.XYZM} {
			st := lay.Stride()
			fl := make([]float64, len(sq)*st)
			for i, v := range sq {
				fl[i*st], fl[i*st+1] = float64(v.x), float64(v.y)
				for k := 2; k < st; k++ {
					fl[i*st+k] = float64(100 + k)
				}
			}
			pc := make(geom.Coord, st)
			pc[0], pc[1] = float64(p.x), float64(p.y)
			var got location.Type
			var gotOn bool
			if c.Guard("panic", func() { got = xy.LocatePointInRing(lay, pc, fl); gotOn = xy.IsOnLine(lay, pc, fl) }) {
				return
			}
			c.Eval(2)
			c.Count("layouts_of_many_dimensions_after_the_usual_ones")
			if got != want || gotOn != onl {
				c.SetInput(map[string]any{"point": fmt.Sprintf("(%d %d)", p.x, p.y), "ring": "square (0 0)-(6 6)", "layout": lay.String()})
				c.Fail("wrong-location", "square (0 0)-(6 6) under %s: LocatePointInRing = %s (exact %s), IsOnLine = %v (exact %v)", lay, got, want, gotOn, onl)
				return
			}
		}
	}
}

// (vi) rings of 8,192 .. 20,000 vertices (star-shaped around the origin), with
// query points on vertices, on edges, on chords between far-apart vertices (the
// first vertex and the ones around the middle of the list among them), inside and outside
// c11Sawtooth: a comb of 20,000..70,000 teeth: a point under the first tooth sees
// every tooth edge on its ray (tens of thousands of crossings), a point inside a
// tooth further along fewer; the closing base runs below everything.
func c11Sawtooth(c *fw.Ctx, teeth int) {
	ring := make([]ipt, 0, 2*teeth+4)
	for i := 0; i < teeth; i++ {
		ring = append(ring, ipt{int64(4 * i), 0}, ipt{int64(4*i + 2), 10})
	}
	ring = append(ring, ipt{int64(4 * teeth), 0}, ipt{int64(4 * teeth), -10}, ipt{0, -10}, ring[0])
	flat := flatRing(ring, 2, nil)
	c.SetInput(map[string]any{"ring": fmt.Sprintf("comb of %d teeth (x = 4i .. 4i+4, height 10) on a base 10 deep", teeth)})
	for _, p := range []ipt{{1, 1}, {2, 5}, {1, 6}, {-1, 5}, {3, -5}, {int64(4*teeth - 2), 9}, {int64(2 * teeth), 4}, {int64(2*teeth + 1), 4}, {2, 10}, {4, 0}, {5, 20}, {1, 2}} {
		want, _, _ := iLocate(p, ring)
		var got location.Type
		var in bool
		pc := geom.Coord{float64(p.x), float64(p.y)}
		if c.Guard("panic", func() { got = xy.LocatePointInRing(geom.XY, pc, flat); in = xy.IsPointInRing(geom.XY, pc, flat) }) {
			return
		}
		c.Eval(2)
		c.Count("sawtooth_queries")
		if got != want || in != (want != location.Exterior) {
			c.SetInput(map[string]any{"ring": fmt.Sprintf("comb of %d teeth", teeth), "point": fmt.Sprintf("(%d %d)", p.x, p.y)})
			c.Fail("wrong-location", "comb of %d teeth: LocatePointInRing = %s, IsPointInRing = %v, exact answer %s", teeth, got, in, want)
			return
		}
	}
}

func c11HugeRings(c *fw.Ctx, idx int) {
	r := c.R
	if idx%4 == 3 {
		c11Sawtooth(c, []int{16383, 16384, 32767, 32768, 32769, 40000, 65535, 65536, 65537, 70000}[r.Intn(10)])
		return
	}
	n := []int{8192, 8193, 8191, 16384, 16385, 10000, 20000, 12289}[r.Intn(8)] + r.Intn(3)
	R := float64(int64(1) << 24)
	ring := make([]ipt, 0, n+1)
	for i := 0; i < n; i++ {
		a := 2 * math.Pi * float64(i) / float64(n)
		rad := R * (0.6 + 0.4*r.Float01())
		// even coordinates: midpoints of chords are lattice points
		ring = append(ring, ipt{2 * int64(math.Round(rad*math.Cos(a)/2)), 2 * int64(math.Round(rad*math.Sin(a)/2))})
	}
	ring = append(ring, ring[0])
	c.SetInput(map[string]any{"ring": fmt.Sprintf("star-shaped ring of %d vertices around the origin, radii 0.6..1 x 2^24, even coordinates; regenerated from the seed and case index", n)})
	flat := flatRing(ring, 2, nil)
	var qs []ipt
	mid := func(a, b ipt) ipt { return ipt{(a.x + b.x) / 2, (a.y + b.y) / 2} }
	for _, j := range []int{n / 2, n/2 + 1, n/2 - 1, n / 4, n / 3, n - 2, 1, 2} {
		qs = append(qs, mid(ring[0], ring[j]), ring[j])
	}
	for k := 0; k < 6; k++ {
		i, j := r.Intn(n), r.Intn(n)
		qs = append(qs, mid(ring[i], ring[j]), mid(ring[i], ring[(i+1)%n]))
	}
	qs = append(qs, ipt{0, 0}, ipt{int64(R) * 2, 0}, ipt{int64(R), int64(R)})
	for _, p := range qs {
		want, _, _ := iLocate(p, ring)
		var got location.Type
		var in bool
		pc := geom.Coord{float64(p.x), float64(p.y)}
		if c.Guard("panic", func() { got = xy.LocatePointInRing(geom.XY, pc, flat); in = xy.IsPointInRing(geom.XY, pc, flat) }) {
			return
		}
		c.Eval(2)
		c.Count("huge_ring_queries")
		if got != want || in != (want != location.Exterior) {
			c.SetInput(map[string]any{"ring": fmt.Sprintf("star-shaped ring of %d vertices (regenerated from the seed and case index)", n), "point": fmt.Sprintf("(%d %d)", p.x, p.y)})
			c.Fail("wrong-location", "ring of %d vertices: LocatePointInRing = %s, IsPointInRing = %v, exact answer %s", n, got, in, want)
			return
		}
	}
	c.Distinct(fmt.Sprintf("hugering/%d/%d", n, idx))
}

func c11OnLine(c *fw.Ctx, idx int) {
	if c.R.Chance(1, 64) {
		xyRefusedCalls(c)
	}
	r := c.R
	n := r.Range(2, 8)
	useFloat := r.Chance(1, 3)
	stride := r.Range(2, 4)
	layout := []geom.Layout{geom.XY, geom.XYZ, geom.XYZM}[stride-2]
	line := make([][2]float64, n)
	for i := range line {
		if useFloat {
			line[i] = [2]float64{gen.Float(r, gen.Moderate), gen.Float(r, gen.Moderate)}
		} else {
			g := []int{4, 16, 1 << 10, 1 << 26}[r.Intn(4)]
			line[i] = [2]float64{float64(r.Intn(g + 1)), float64(r.Intn(g + 1))}
		}
		if i > 0 && r.Chance(1, 8) {
			line[i] = line[i-1]
		}
	}
	// one case in six: floats that are *exactly* collinear although their
	// coordinates live in different binades - every vertex and the query point lie
	// on y = k*x with k of few bits and x = m*2^e, m below 2^24, so k*x is exact
	// while the coordinate differences the predicate forms are not
	exactLine := r.Chance(1, 6)
	var kf float64
	xe := func() float64 {
		v := math.Ldexp(float64(r.Range(1, 1<<24-1)), r.Range(-34, 6))
		if r.Chance(1, 3) {
			v = -v
		}
		return v
	}
	if exactLine {
		useFloat = true
		kf = []float64{1, 2, 3, 0.5, -1, 5, -3, 0.25, 1.5, -0.75}[r.Intn(10)]
		for i := range line {
			x := xe()
			line[i] = [2]float64{x, kf * x}
		}
	}
	// the query point
	var p [2]float64
	i := 1 + r.Intn(n-1)
	a, b := line[i-1], line[i]
	sw := r.Intn(5)
	if exactLine {
		sw = 5
		x := xe()
		if r.Bool() {
			// between the two ends of one segment
			x = a[0] + (b[0]-a[0])*r.Float01()
			x = math.Ldexp(math.Round(math.Ldexp(x, 30)), -30)
		}
		p = [2]float64{x, kf * x}
		if r.Chance(1, 4) {
			p[1] = gen.NextAfterN(p[1], []int{-1, 1}[r.Intn(2)])
		}
		c.Count("online_exactly_collinear_floats")
	}
	switch sw {
	case 5:
	case 0:
		p = a
	case 1, 2:
		if useFloat {
			t := r.Float01()
			p = [2]float64{gen.NextAfterN(a[0]+t*(b[0]-a[0]), r.Range(-2, 2)), gen.NextAfterN(a[1]+t*(b[1]-a[1]), r.Range(-2, 2))}
		} else {
			dx, dy := int64(b[0]-a[0]), int64(b[1]-a[1])
			gg := gcd64(dx, dy)
			if gg == 0 {
				p = a
			} else {
				k := int64(r.Range(-1, int(min64(gg, 1<<30))+1))
				p = [2]float64{a[0] + float64(dx/gg*k), a[1] + float64(dy/gg*k)}
			}
		}
	case 3:
		p = [2]float64{a[0] + float64(r.Range(-1, 1)), b[1] + float64(r.Range(-1, 1))}
	default:
		if useFloat {
			p = [2]float64{gen.Float(r, gen.Moderate), gen.Float(r, gen.Moderate)}
		} else {
			p = [2]float64{float64(r.Intn(17)), float64(r.Intn(17))}
		}
	}
	flat := make([]float64, 0, n*stride)
	for _, v := range line {
		flat = append(flat, v[0], v[1])
		for k := 2; k < stride; k++ {
			flat = append(flat, gen.Float(r, gen.AnyClass(r)))
		}
	}
	c.SetInput(map[string]any{"point": fw.Fs(p[:]), "line": fw.Fs(flat), "stride": stride})
	ep := exact.Pt(p[0], p[1])
	want := false
	wantSeg := make([]bool, n)
	for j := 1; j < n; j++ {
		wantSeg[j] = exact.OnSegment(ep, exact.Pt(line[j-1][0], line[j-1][1]), exact.Pt(line[j][0], line[j][1]))
		if wantSeg[j] {
			want = true
		}
	}
	if want {
		c.Count("online_true")
	} else {
		c.Count("online_false")
	}
	if useFloat {
		c.Count("online_float_inputs")
	}
	c.Distinct(fmt.Sprintf("online/%d", idx))
	pc := geom.Coord{p[0], p[1], math.NaN(), 1}[:stride]
	var got bool
	if c.Guard("panic", func() { got = xy.IsOnLine(layout, pc, flat) }) {
		return
	}
	c.Eval(1)
	if got != want {
		c.Fail("wrong-online", "IsOnLine = %v, exact on-segment test says %v", got, want)
		return
	}
	for j := 1; j < n; j++ {
		var g2 bool
		a := geom.Coord(flat[(j-1)*stride : (j-1)*stride+2])
		b := geom.Coord(flat[j*stride : j*stride+2])
		if r.Chance(1, 3) {
			// another question first: does a segment starting at the query point meet
			// this segment of the line
			func() {
				defer func() { _ = recover() }()
				q := geom.Coord{pc[0] + float64(r.Range(-9, 9)), pc[1] + float64(r.Range(-9, 9))}
				_ = lineintersector.LineIntersectsLine(lineintersector.RobustLineIntersector{}, pc, q, a, b)
			}()
			c.Count("line_intersection_with_the_same_point_and_segment_asked_first")
		}
		if c.Guard("panic", func() { g2 = lineintersector.PointIntersectsLine(lineintersector.RobustLineIntersector{}, pc, a, b) }) {
			return
		}
		c.Eval(1)
		if g2 != wantSeg[j] {
			c.Fail("wrong-point-intersects-line", "PointIntersectsLine(robust, p, %s, %s) = %v, exact on-segment test says %v", fw.Fs(a), fw.Fs(b), g2, wantSeg[j])
			return
		}
	}
	// right after a point that is on the line: its neighbours a few units in the last
	// place away (any offsets up to 64 ulps, and offsets of the form (k, -m*k) for the
	// multipliers string and coordinate hashes like to use), asked one after the other
	if !want || !useFloat || !c.R.Chance(1, 2) {
		return
	}
	for k := 0; k < 10; k++ {
		dx, dy := r.Range(-64, 64), r.Range(-64, 64)
		if k >= 4 {
			dx = []int{1, -1, 2, -2}[r.Intn(4)]
			dy = -dx * []int{1, 2, 3, 7, 15, 16, 17, 31, 32, 33, 37, 63}[r.Intn(12)]
			if r.Bool() {
				dy = -dy
			}
		}
		q := [2]float64{gen.NextAfterN(p[0], dx), gen.NextAfterN(p[1], dy)}
		eq := exact.Pt(q[0], q[1])
		wq := false
		for j := 1; j < n; j++ {
			if exact.OnSegment(eq, exact.Pt(line[j-1][0], line[j-1][1]), exact.Pt(line[j][0], line[j][1])) {
				wq = true
			}
		}
		qc := geom.Coord{q[0], q[1], math.NaN(), 1}[:stride]
		var g0, g1 bool
		if c.Guard("panic", func() {
			g0 = xy.IsOnLine(layout, pc, flat) // the point on the line again ...
			g1 = xy.IsOnLine(layout, qc, flat) // ... and then its neighbour
		}) {
			return
		}
		c.Eval(2)
		c.Count("online_ulp_neighbours_asked_right_after_a_point_on_the_line")
		if g0 != want || g1 != wq {
			c.SetInput(map[string]any{"point": fw.Fs(p[:]), "neighbour": fw.Fs(q[:]), "ulps": []int{dx, dy}, "line": fw.Fs(flat), "stride": stride})
			c.Fail("wrong-online", "IsOnLine(point on the line) = %v (exact %v), then IsOnLine(its neighbour %d,%d ulps away) = %v (exact %v)", g0, want, dx, dy, g1, wq)
			return
		}
	}
}

// c11LongLines: IsOnLine against tracks of 257..1100 vertices (going east, north
// or along a diagonal band, integer ordinates), query points inside and next to
// every kind of segment - with a bias to segments number 255, 256, 257, 511, 512,
// ...: a scan made in blocks has to get the segment that joins two blocks right.
func c11LongLines(c *fw.Ctx, idx int) {
	r := c.R
	n := r.Range(257, 1100)
	stride := r.Range(2, 4)
	layout := []geom.Layout{geom.XY, geom.XYZ, geom.XYZM}[stride-2]
	dir := r.Intn(3)
	pts := make([]ipt, n)
	var x, y int64 = int64(r.Range(-50, 50)), int64(r.Range(-50, 50))
	for i := range pts {
		pts[i] = ipt{x, y}
		step, wob := int64(2*r.Range(1, 3)), int64(2*r.Range(-2, 2))
		switch dir {
		case 0:
			x, y = x+step, y+wob-y%2
		case 1:
			y, x = y+step, x+wob-x%2
		default:
			x, y = x+step, y+step+wob
		}
	}
	flat := make([]float64, 0, n*stride)
	for _, p := range pts {
		flat = append(flat, float64(p.x), float64(p.y))
		for k := 2; k < stride; k++ {
			flat = append(flat, gen.Float(r, gen.AnyClass(r)))
		}
	}
	before := append([]float64{}, flat...)
	for q := 0; q < 24; q++ {
		j := r.Range(1, n-1)
		if q < 16 {
			// segments at and next to multiples of 256, 128, 64
			blk := []int{256, 256, 128, 64}[r.Intn(4)]
			j = blk*r.Range(1, (n-1)/blk) + r.Range(-1, 1)
			if j < 1 {
				j = 1
			}
			if j > n-1 {
				j = n - 1
			}
		}
		a, b := pts[j-1], pts[j]
		p := ipt{(a.x + b.x) / 2, (a.y + b.y) / 2}
		switch r.Intn(5) {
		case 0:
			p = a
		case 1:
			p.y++
		case 2:
			p.x--
		}
		want := false
		for k := 1; k < n; k++ {
			if ionseg(p, pts[k-1], pts[k]) {
				want = true
				break
			}
		}
		pc := geom.Coord{float64(p.x), float64(p.y), math.NaN(), 1}[:stride]
		c.SetInput(map[string]any{"point": fw.Fs(pc[:2]), "vertices": n, "segment": j, "segment_ends": fmt.Sprintf("(%d %d)-(%d %d)", a.x, a.y, b.x, b.y), "stride": stride, "line": "regenerated from the seed and case index"})
		var got bool
		if c.Guard("panic", func() { got = xy.IsOnLine(layout, pc, flat) }) {
			return
		}
		c.Eval(1)
		if want {
			c.Count("longline_true")
		} else {
			c.Count("longline_false")
		}
		if got != want {
			c.Fail("wrong-online", "IsOnLine(point near segment %d of a line of %d vertices) = %v, exact on-segment test over all segments says %v", j, n, got, want)
			return
		}
	}
	for i := range before {
		if math.Float64bits(before[i]) != math.Float64bits(flat[i]) {
			c.Fail("argument-modified", "IsOnLine changed ordinate %d of the line", i)
			return
		}
	}
	c.Distinct(fmt.Sprintf("longline/%d/%d/%d", n, dir, stride))
}

func init() {
	fw.Register(&fw.Monitor{
		ID:    "C11",
		Title: "point location against rings and lines is exact",
		Rule: "LocatePointInRing/IsPointInRing compared with the even-odd rule and an on-edge test in exact integer arithmetic: every closed ring of 3 and of 4 vertices on a 4x4 grid x all 16 query points; random rings (arbitrary, star-shaped, rectilinear, few-y-levels with repeated points) on grids 4..2^26 with query points on vertices, level with vertices, on exact lattice points of edges, one unit off, random - each also reversed, rotated, vertex-doubled and with extra ordinates; " +
			"IsOnLine/PointIntersectsLine against the exact on-segment test on integer and moderate float polylines. distinct_nontrivial = distinct rings/polylines evaluated",
		Assume: []string{"int64 arithmetic is exact for grids up to 2^26 (cross products < 2^56)", "math/big for the float on-line cases"},
		Classes: []fw.Class{
			{Name: "exhaustive-3", Quick: 4096, Thorough: 4096, Run: c11Exh3, Exhaustive: "all closed rings of 3 vertices on a 4x4 grid x all 16 query points"},
			{Name: "exhaustive-4", Quick: 65536, Thorough: 65536, Run: c11Exh4, Exhaustive: "all closed rings of 4 vertices on a 4x4 grid x all 16 query points"},
			{Name: "random-rings", Quick: 60000, Thorough: 6000000, Run: c11Random},
			{Name: "on-line", Quick: 150000, Thorough: 12000000, Run: c11OnLine},
			{Name: "hard-edges", Quick: 20000, Thorough: 2400000, Run: c11HardEdges},
			{Name: "one-array-two-layouts", Quick: 20000, Thorough: 1600000, Run: c11TwoLayouts},
			{Name: "long-lines", Quick: 3000, Thorough: 200000, Run: c11LongLines},
			{Name: "huge-rings", Quick: 32, Thorough: 2400, Chunk: 2, Run: c11HugeRings},
		},
		Require: []string{"loc_interior", "loc_boundary", "loc_exterior", "on_vertex", "on_edge_interior", "ray_through_vertex", "horizontal_edge_on_ray", "variant_sets", "online_true", "online_false", "online_float_inputs"},
	})
}
