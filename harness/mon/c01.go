package mon

import (
	"errors"
	"fmt"
	"math"

	geom "github.com/twpayne/go-geom"
	"github.com/twpayne/go-geom/encoding/geojson"
	"github.com/twpayne/go-geom/encoding/wkt"

	"verifharness/fw"
	"verifharness/gen"
	"verifharness/model"
	"verifharness/ref"
)

// C01 - flat representation well formed and lossless.

var c01Layouts = []geom.Layout{geom.NoLayout, geom.XY, geom.XY, geom.XYZ, geom.XYM, geom.XYZM, geom.Layout(5), geom.Layout(6), geom.Layout(7), geom.Layout(8)}

// readBack compares everything the read accessors return with the model.
func c01ReadBack(c *fw.Ctx, how string, t geom.T, g *model.G) {
	c.Eval(1)
	switch x := t.(type) {
	case *geom.Point:
		if g.C0 != nil {
			if !coordEq(x.Coords(), g.C0) {
				c.Fail("coords-mismatch", "%s: Point.Coords() = %s, set %s", how, fw.Fs(x.Coords()), fw.Fs(g.C0))
			}
		}
		if x.NumCoords() != 1 && g.C0 != nil {
			c.Fail("numcoords", "%s: Point.NumCoords() = %d", how, x.NumCoords())
		}
		if g.C0 != nil && g.Layout != geom.NoLayout {
			// the ordinate accessors go by the layout's semantic dimension
			wantZ, wantM := 0.0, 0.0
			if zi := g.Layout.ZIndex(); zi >= 0 {
				wantZ = g.C0[zi]
			}
			if mi := g.Layout.MIndex(); mi >= 0 {
				wantM = g.C0[mi]
			}
			got := []float64{x.X(), x.Y(), x.Z(), x.M()}
			want := []float64{g.C0[0], g.C0[1], wantZ, wantM}
			if !model.BitsEq(got, want) {
				c.Fail("point-ordinate", "%s: Point X/Y/Z/M = %s, want %s (layout %s)", how, fw.Fs(got), fw.Fs(want), g.Layout)
			}
		}
	case *geom.LineString:
		if cs := x.Coords(); !coords1Eq(cs, g.C1) {
			c.Fail("coords-mismatch", "%s: LineString.Coords() has %d coords differing from the %d set", how, len(cs), len(g.C1))
		}
		if x.NumCoords() != len(g.C1) {
			c.Fail("numcoords", "%s: LineString.NumCoords() = %d, want %d", how, x.NumCoords(), len(g.C1))
		}
		for i := range g.C1 {
			if !coordEq(x.Coord(i), g.C1[i]) {
				c.Fail("coord-i", "%s: LineString.Coord(%d) = %s, want %s", how, i, fw.Fs(x.Coord(i)), fw.Fs(g.C1[i]))
				break
			}
		}
		if g.Layout != geom.NoLayout {
			// a sub-linestring is the corresponding slice of the coordinates
			a := c.R.Intn(len(g.C1) + 1)
			b := a + c.R.Intn(len(g.C1)-a+1)
			sub := x.SubLineString(a, b)
			c.Count("part_accessor_checked")
			expectGeom(c, fmt.Sprintf("%s, SubLineString(%d,%d)", how, a, b), sub, &model.G{Kind: model.LineString, Layout: g.Layout, SRID: g.SRID, C1: g.C1[a:b]}, model.Opts{})
		}
	case *geom.LinearRing:
		if cs := x.Coords(); !coords1Eq(cs, g.C1) {
			c.Fail("coords-mismatch", "%s: LinearRing.Coords() has %d coords differing from the %d set", how, len(cs), len(g.C1))
		}
		if x.NumCoords() != len(g.C1) {
			c.Fail("numcoords", "%s: LinearRing.NumCoords() = %d, want %d", how, x.NumCoords(), len(g.C1))
		}
		for i := range g.C1 {
			if !coordEq(x.Coord(i), g.C1[i]) {
				c.Fail("coord-i", "%s: LinearRing.Coord(%d) differs", how, i)
				break
			}
		}
	case *geom.MultiPoint:
		cs := x.Coords()
		if !coords1Eq(cs, g.C1) {
			c.Fail("coords-mismatch", "%s: MultiPoint.Coords() differs from the coordinates set (%d vs %d)", how, len(cs), len(g.C1))
		} else {
			for i := range g.C1 {
				if (g.C1[i] == nil) != (cs[i] == nil) {
					c.Fail("empty-member-moved", "%s: MultiPoint.Coords()[%d] nil=%v, set nil=%v", how, i, cs[i] == nil, g.C1[i] == nil)
					break
				}
			}
		}
		if x.NumCoords() != len(g.C1) || x.NumPoints() != len(g.C1) {
			c.Fail("numcoords", "%s: MultiPoint.NumCoords()/NumPoints() = %d/%d, want %d", how, x.NumCoords(), x.NumPoints(), len(g.C1))
		}
		for i := range g.C1 {
			if !coordEq(x.Coord(i), g.C1[i]) {
				c.Fail("coord-i", "%s: MultiPoint.Coord(%d) = %s, want %s", how, i, fw.Fs(x.Coord(i)), fw.Fs(g.C1[i]))
				break
			}
		}
		if x.NumPoints() == len(g.C1) {
			for i := range g.C1 {
				c.Count("part_accessor_checked")
				if !expectGeom(c, fmt.Sprintf("%s, Point(%d)", how, i), x.Point(i), &model.G{Kind: model.Point, Layout: g.Layout, SRID: g.SRID, C0: g.C1[i]}, model.Opts{}) {
					break
				}
			}
		}
	case *geom.Polygon:
		if cs := x.Coords(); !coords2Eq(cs, g.C2) {
			c.Fail("coords-mismatch", "%s: Polygon.Coords() differs from the coordinates set", how)
		}
		if x.NumLinearRings() != len(g.C2) {
			c.Fail("numparts", "%s: Polygon.NumLinearRings() = %d, want %d", how, x.NumLinearRings(), len(g.C2))
			return
		}
		for i := range g.C2 {
			c.Count("part_accessor_checked")
			if !expectGeom(c, fmt.Sprintf("%s, LinearRing(%d)", how, i), x.LinearRing(i), &model.G{Kind: model.LinearRing, Layout: g.Layout, SRID: g.SRID, C1: g.C2[i]}, model.Opts{}) {
				break
			}
		}
	case *geom.MultiLineString:
		if cs := x.Coords(); !coords2Eq(cs, g.C2) {
			c.Fail("coords-mismatch", "%s: MultiLineString.Coords() differs from the coordinates set", how)
		}
		if x.NumLineStrings() != len(g.C2) {
			c.Fail("numparts", "%s: MultiLineString.NumLineStrings() = %d, want %d", how, x.NumLineStrings(), len(g.C2))
			return
		}
		for i := range g.C2 {
			c.Count("part_accessor_checked")
			if !expectGeom(c, fmt.Sprintf("%s, LineString(%d)", how, i), x.LineString(i), &model.G{Kind: model.LineString, Layout: g.Layout, SRID: g.SRID, C1: g.C2[i]}, model.Opts{}) {
				break
			}
		}
	case *geom.MultiPolygon:
		if cs := x.Coords(); !coords3Eq(cs, g.C3) {
			c.Fail("coords-mismatch", "%s: MultiPolygon.Coords() differs from the coordinates set", how)
		}
		if x.NumPolygons() != len(g.C3) {
			c.Fail("numparts", "%s: MultiPolygon.NumPolygons() = %d, want %d", how, x.NumPolygons(), len(g.C3))
			return
		}
		for i := range g.C3 {
			c.Count("part_accessor_checked")
			if !expectGeom(c, fmt.Sprintf("%s, Polygon(%d)", how, i), x.Polygon(i), &model.G{Kind: model.Polygon, Layout: g.Layout, SRID: g.SRID, C2: g.C3[i]}, model.Opts{}) {
				break
			}
		}
	}
}

func c01Clone(t geom.T) geom.T {
	switch x := t.(type) {
	case *geom.Point:
		return x.Clone()
	case *geom.LineString:
		return x.Clone()
	case *geom.LinearRing:
		return x.Clone()
	case *geom.Polygon:
		return x.Clone()
	case *geom.MultiPoint:
		return x.Clone()
	case *geom.MultiLineString:
		return x.Clone()
	case *geom.MultiPolygon:
		return x.Clone()
	}
	return nil
}

func c01MustBuild(g *model.G) geom.T {
	switch g.Kind {
	case model.Point:
		if g.C0 == nil {
			return geom.NewPointEmpty(g.Layout)
		}
		return geom.NewPoint(g.Layout).MustSetCoords(geom.Coord(g.C0))
	case model.LineString:
		return geom.NewLineString(g.Layout).MustSetCoords(g.Coords1())
	case model.LinearRing:
		return geom.NewLinearRing(g.Layout).MustSetCoords(g.Coords1())
	case model.Polygon:
		return geom.NewPolygon(g.Layout).MustSetCoords(g.Coords2())
	case model.MultiPoint:
		return geom.NewMultiPoint(g.Layout).MustSetCoords(g.Coords1())
	case model.MultiLineString:
		return geom.NewMultiLineString(g.Layout).MustSetCoords(g.Coords2())
	case model.MultiPolygon:
		return geom.NewMultiPolygon(g.Layout).MustSetCoords(g.Coords3())
	}
	return nil
}

// c01EveryLength: SetCoords / Coords round trips of geometries of exactly idx
// coordinates, idx = 0, 1, 2, ..., three layouts, five multi-coordinate types
// (parts cut at thirds, with an empty part in between): flattening and inflating in
// blocks of any size has its seam at some length.
func c01EveryLength(c *fw.Ctx, idx int) {
	n := idx
	for _, layout := range []geom.Layout{geom.XY, geom.XYZ, geom.XYZM} {
		stride := layout.Stride()
		cs := make([]geom.Coord, n)
		for i := range cs {
			cs[i] = make(geom.Coord, stride)
			for k := range cs[i] {
				cs[i][k] = float64((i*stride+k)%9973) + 0.25
			}
		}
		a, b := n/3, 2*n/3
		parts := [][]geom.Coord{cs[:a], {}, cs[a:b], cs[b:]}
		eq1 := func(what string, got []geom.Coord, want []geom.Coord) bool {
			if len(got) != len(want) {
				c.Fail("not-equal", "%s of %d coordinates: %d coordinates read back", what, len(want), len(got))
				return false
			}
			for i := range want {
				if len(got[i]) != stride {
					c.Fail("not-equal", "%s: coordinate %d read back with %d ordinates", what, i, len(got[i]))
					return false
				}
				for k := range want[i] {
					if got[i][k] != want[i][k] {
						c.Fail("not-equal", "%s of %d coordinates: coordinate %d reads back as %v, was set as %v", what, len(want), i, got[i], want[i])
						return false
					}
				}
			}
			return true
		}
		c.SetInput(map[string]any{"coordinates": n, "layout": layout.String(), "ordinate_i": "(i mod 9973) + 0.25", "parts": fmt.Sprintf("[0,%d) [] [%d,%d) [%d,%d)", a, a, b, b, n)})
		var ls *geom.LineString
		var mpt *geom.MultiPoint
		var pg *geom.Polygon
		var ml *geom.MultiLineString
		var mpg *geom.MultiPolygon
		var err [5]error
		if c.Guard("panic", func() {
			ls, err[0] = geom.NewLineString(layout).SetCoords(cs)
			mpt, err[1] = geom.NewMultiPoint(layout).SetCoords(cs)
			pg, err[2] = geom.NewPolygon(layout).SetCoords(parts)
			ml, err[3] = geom.NewMultiLineString(layout).SetCoords(parts)
			mpg, err[4] = geom.NewMultiPolygon(layout).SetCoords([][][]geom.Coord{{parts[0], parts[1]}, {}, {parts[2]}, {parts[3]}})
		}) {
			return
		}
		c.Eval(5)
		for i, e := range err {
			if e != nil {
				c.Fail("setcoords-error", "SetCoords (type %d of LineString, MultiPoint, Polygon, MultiLineString, MultiPolygon) of %d coordinates failed: %v", i, n, e)
				return
			}
		}
		for _, t := range []geom.T{ls, mpt, pg, ml, mpg} {
			if !wfCheck(c, fmt.Sprintf("SetCoords of %d coordinates", n), t) {
				return
			}
			if len(t.FlatCoords()) != n*stride {
				c.Fail("not-equal", "%T after SetCoords of %d coordinates holds %d ordinates", t, n, len(t.FlatCoords()))
				return
			}
		}
		var got1, got1b []geom.Coord
		var got2, got2b [][]geom.Coord
		var got3 [][][]geom.Coord
		if c.Guard("panic", func() {
			got1, got1b = ls.Coords(), mpt.Coords()
			got2, got2b = pg.Coords(), ml.Coords()
			got3 = mpg.Coords()
		}) {
			return
		}
		if !eq1("LineString", got1, cs) || !eq1("MultiPoint", got1b, cs) {
			return
		}
		if len(got2) != 4 || len(got2b) != 4 || len(got3) != 4 || len(got3[0]) != 2 || len(got3[1]) != 0 || len(got3[2]) != 1 || len(got3[3]) != 1 {
			c.Fail("not-equal", "parts read back: Polygon %d rings, MultiLineString %d lines, MultiPolygon %d polygons (set: 4, 4, 4 of 2/0/1/1 rings)", len(got2), len(got2b), len(got3))
			return
		}
		for k, want := range parts {
			if !eq1(fmt.Sprintf("Polygon ring %d", k), got2[k], want) || !eq1(fmt.Sprintf("MultiLineString line %d", k), got2b[k], want) {
				return
			}
		}
		if !eq1("MultiPolygon polygon 0 ring 0", got3[0][0], parts[0]) || !eq1("MultiPolygon polygon 0 ring 1", got3[0][1], parts[1]) || !eq1("MultiPolygon polygon 2 ring 0", got3[2][0], parts[2]) || !eq1("MultiPolygon polygon 3 ring 0", got3[3][0], parts[3]) {
			return
		}
	}
	c.Count("lengths_set_and_read_back")
	if idx%1000 == 0 {
		c.Distinct(fmt.Sprintf("every-length/%d", idx))
	}
}

func c01Shapes(c *fw.Ctx, idx int) {
	r := c.R
	kind := gen.Kinds7[r.Intn(len(gen.Kinds7))]
	layout := gen.PickLayout(r, c01Layouts)
	cl := gen.AnyClass(r)
	g := gen.Shape(r, kind, layout, cl, gen.ShapeOpts{Big: true, Huge: true})
	if layout == geom.NoLayout {
		// NoLayout: exercise empty nested arrays of every shape the type allows
		switch kind {
		case model.LineString, model.LinearRing, model.MultiPoint:
			g.C1 = [][]float64{}
		case model.Polygon, model.MultiLineString:
			g.C2 = [][][]float64{}
		case model.MultiPolygon:
			g.C3 = [][][][]float64{}
		}
	}
	c.SetInput(map[string]any{"geometry": g.String()})
	if c.WantSample() {
		c.Sample(g.String())
	}
	c.Count("kind_" + kind.String())
	c.Count("layout_" + layout.String())
	nonTrivial := !g.IsEmpty()
	if nonTrivial {
		c.Distinct(g.Sig())
	} else if layout == geom.NoLayout {
		c.Distinct(g.Sig())
	}
	if g.HasEmptyBetween() {
		c.Count("empty_component_before_nonempty")
	}

	// (a) nested coordinates -> SetCoords -> flat representation -> read back
	var t geom.T
	var err error
	if c.Guard("panic", func() { t, err = g.Build() }) {
		return
	}
	c.Eval(1)
	if err != nil {
		c.Fail("setcoords-error", "SetCoords rejected well-formed coordinates: %v", err)
		return
	}
	if expectGeom(c, "SetCoords", t, g, model.Opts{}) {
		rawFlatCheck(c, "SetCoords", t, g)
		c.Guard("panic", func() { c01ReadBack(c, "SetCoords", t, g) })
	}
	// (b) model prefix sums -> New*Flat -> read back
	var tf geom.T
	if !c.Guard("panic", func() { tf = g.BuildFlat() }) {
		c.Eval(1)
		if expectGeom(c, "New*Flat", tf, g, model.Opts{}) {
			c.Guard("panic", func() { c01ReadBack(c, "New*Flat", tf, g) })
		}
	}
	// (b') NewMultiPointFlat without the ends option (all members non-empty)
	if kind == model.MultiPoint && layout != geom.NoLayout {
		allNonEmpty := true
		for _, m := range g.C1 {
			if m == nil {
				allNonEmpty = false
			}
		}
		if allNonEmpty {
			flat, _, _ := g.Flat()
			var mp *geom.MultiPoint
			if !c.Guard("panic", func() { mp = geom.NewMultiPointFlat(layout, flat) }) {
				c.Eval(1)
				if expectGeom(c, "NewMultiPointFlat(no ends)", mp, g, model.Opts{}) {
					c.Guard("panic", func() { c01ReadBack(c, "NewMultiPointFlat(no ends)", mp, g) })
				}
			}
		}
	}
	// (c) MustSetCoords
	var tm geom.T
	if !c.Guard("panic", func() { tm = c01MustBuild(g) }) {
		c.Eval(1)
		expectGeom(c, "MustSetCoords", tm, g, model.Opts{})
	}
	// (d) Clone is well formed and equal
	if t != nil {
		var cl geom.T
		if !c.Guard("panic", func() { cl = c01Clone(t) }) && cl != nil {
			c.Eval(1)
			expectGeom(c, "Clone", cl, g, model.Opts{})
		}
	}
	// (e) a coordinate of the wrong length must be rejected, not stored
	c01WrongLength(c, g)
	c01WrongLengthMulti(c, g)
	// (f) SetCoords again on the same object: other sizes, then coordinates that
	// alias the geometry's own storage (taken from Coord(i)) in another order
	if t != nil && layout != geom.NoLayout {
		c01Reset(c, t, kind, layout, cl)
	}

}

// setCoordsOn calls SetCoords on an existing geometry object.
func setCoordsOn(t geom.T, g *model.G) error {
	var err error
	switch x := t.(type) {
	case *geom.Point:
		_, err = x.SetCoords(geom.Coord(g.C0))
	case *geom.LineString:
		_, err = x.SetCoords(g.Coords1())
	case *geom.LinearRing:
		_, err = x.SetCoords(g.Coords1())
	case *geom.Polygon:
		_, err = x.SetCoords(g.Coords2())
	case *geom.MultiPoint:
		_, err = x.SetCoords(g.Coords1())
	case *geom.MultiLineString:
		_, err = x.SetCoords(g.Coords2())
	case *geom.MultiPolygon:
		_, err = x.SetCoords(g.Coords3())
	}
	return err
}

type coordAt interface{ Coord(i int) geom.Coord }

// c01Reset re-sets the coordinates of a geometry that already holds some.
func c01Reset(c *fw.Ctx, t geom.T, kind model.Kind, layout geom.Layout, cl gen.FloatClass) {
	r := c.R
	// other sizes (both growing and shrinking happen over the run)
	g2 := gen.Shape(r, kind, layout, cl, gen.ShapeOpts{NoEmptyPoint: true})
	before := model.FromGeom(t)
	c.SetInput(map[string]any{"first": before.String(), "then_SetCoords": g2.String()})
	var err error
	if c.Guard("panic", func() { err = setCoordsOn(t, g2) }) {
		return
	}
	c.Eval(1)
	c.Count("setcoords_on_used_geometry")
	if err != nil {
		c.Fail("setcoords-error", "second SetCoords rejected well-formed coordinates: %v", err)
		return
	}
	if !expectGeom(c, "second SetCoords", t, g2, model.Opts{}) {
		return
	}
	c.Guard("panic", func() { c01ReadBack(c, "second SetCoords", t, g2) })
	// the same coordinates once more, equal as numbers but not bit for bit: every
	// zero with the other sign, every NaN with another payload
	{
		g3 := g2.Clone()
		changed := false
		for _, co := range g3.AllCoords() {
			for i, v := range co {
				switch {
				case v == 0:
					co[i] = math.Copysign(0, -1)
					if math.Signbit(v) {
						co[i] = 0
					}
					changed = true
				case v != v:
					co[i] = math.Float64frombits(math.Float64bits(v) ^ 0x5)
					changed = true
				}
			}
		}
		if changed {
			c.SetInput(map[string]any{"first": g2.String(), "then_SetCoords": g3.String(), "note": "equal as numbers, other zero signs / NaN payloads"})
			if c.Guard("panic", func() { err = setCoordsOn(t, g3) }) {
				return
			}
			c.Eval(1)
			c.Count("setcoords_equal_numbers_other_bits")
			if err != nil {
				c.Fail("setcoords-error", "SetCoords of equal numbers with other zero signs failed: %v", err)
				return
			}
			if !expectGeom(c, "SetCoords of equal numbers with other zero signs / NaN payloads", t, g3, model.Opts{}) {
				return
			}
			g2 = g3
		}
	}
	// coordinates aliasing the geometry's own storage, in reverse order
	ca, ok := t.(coordAt)
	if !ok || kind == model.Point {
		return
	}
	cur := model.FromGeom(t)
	all := cur.AllCoords()
	if len(all) < 2 {
		return
	}
	if kind == model.MultiPoint {
		for _, m := range cur.C1 {
			if len(m) == 0 {
				return // Coord(i) of an empty member is nil: no storage to alias
			}
		}
	}
	n := len(all)
	alias := func(i int) []float64 { return []float64(ca.Coord(i)) }
	want := &model.G{Kind: kind, Layout: layout}
	arg := &model.G{Kind: kind, Layout: layout}
	k := n - 1
	rev1 := func(l [][]float64) ([][]float64, [][]float64) {
		w := make([][]float64, len(l))
		a := make([][]float64, len(l))
		for i := range l {
			w[i] = append([]float64{}, all[k]...)
			a[i] = alias(k)
			k--
		}
		return w, a
	}
	switch kind {
	case model.LineString, model.LinearRing, model.MultiPoint:
		want.C1, arg.C1 = rev1(cur.C1)
	case model.Polygon, model.MultiLineString:
		for _, l := range cur.C2 {
			w, a := rev1(l)
			want.C2 = append(want.C2, w)
			arg.C2 = append(arg.C2, a)
		}
	case model.MultiPolygon:
		for _, pg := range cur.C3 {
			var wp, ap [][][]float64
			for _, l := range pg {
				w, a := rev1(l)
				wp = append(wp, w)
				ap = append(ap, a)
			}
			want.C3 = append(want.C3, wp)
			arg.C3 = append(arg.C3, ap)
		}
	}
	c.SetInput(map[string]any{"geometry": cur.String(), "then_SetCoords": "its own Coord(i) slices in reverse order"})
	if c.Guard("panic", func() { err = setCoordsOn(t, arg) }) {
		return
	}
	c.Eval(1)
	c.Count("setcoords_with_aliasing_input")
	if err != nil {
		c.Fail("setcoords-error", "SetCoords with aliasing input failed: %v", err)
		return
	}
	if !expectGeom(c, "SetCoords(own Coord(i) slices reversed)", t, want, model.Opts{}) {
		return
	}
	if kind != model.LineString && kind != model.LinearRing {
		return
	}
	// the same with only two interior coordinates exchanged: the first and the last
	// argument are the geometry's own first and last coordinate, in place
	cur = model.FromGeom(t)
	if n := len(cur.C1); n >= 4 {
		i, j := 1+r.Intn(n-2), 1+r.Intn(n-2)
		if i == j {
			j = 1 + (i % (n - 2))
		}
		want2 := cur.Clone()
		want2.C1[i], want2.C1[j] = want2.C1[j], want2.C1[i]
		arg2 := make([]geom.Coord, n)
		for k := range arg2 {
			arg2[k] = ca.Coord(k)
		}
		arg2[i], arg2[j] = arg2[j], arg2[i]
		c.SetInput(map[string]any{"geometry": cur.String(), "then_SetCoords": fmt.Sprintf("its own Coord(i) slices with %d and %d exchanged", i, j)})
		if c.Guard("panic", func() {
			switch x := t.(type) {
			case *geom.LineString:
				_, err = x.SetCoords(arg2)
			case *geom.LinearRing:
				_, err = x.SetCoords(arg2)
			}
		}) {
			return
		}
		c.Eval(1)
		c.Count("setcoords_with_own_coordinates_two_exchanged")
		if err != nil {
			c.Fail("setcoords-error", "SetCoords with aliasing input failed: %v", err)
			return
		}
		if !expectGeom(c, "SetCoords(own Coord(i) slices, two interior ones exchanged)", t, want2, model.Opts{}) {
			return
		}
	}
	// coordinates that are windows onto one array of the caller's (as a caller that
	// fills a slab and slices it produces them), except for one or two that live
	// elsewhere - with whatever capacity
	stride := layout.Stride()
	g3 := gen.Shape(r, kind, layout, cl, gen.ShapeOpts{NoEmptyPoint: true, MaxPts: 9})
	if n := len(g3.C1); n >= 3 && stride > 0 {
		slab := make([]float64, n*stride)
		arg3 := make([]geom.Coord, n)
		for k := 0; k < n; k++ {
			copy(slab[k*stride:], g3.C1[k])
			arg3[k] = slab[k*stride : (k+1)*stride] // capacity runs to the end of the slab
		}
		for rep := r.Range(1, 2); rep > 0; rep-- {
			k := 1 + r.Intn(n-2)
			capk := []int{stride, cap(arg3[0]) - k*stride, cap(arg3[0]) - k*stride + 1, 2 * stride}[r.Intn(4)]
			if capk < stride {
				capk = stride
			}
			foreign := make(geom.Coord, stride, capk)
			copy(foreign, g3.C1[k])
			arg3[k] = foreign
			for q := 0; q < stride; q++ {
				slab[k*stride+q] = -6.5e77 // what the slab holds there is not the coordinate
			}
		}
		c.SetInput(map[string]any{"first": cur.String(), "then_SetCoords": g3.String(), "passed_as": "windows onto one array, one or two coordinates allocated separately"})
		if c.Guard("panic", func() {
			switch x := t.(type) {
			case *geom.LineString:
				_, err = x.SetCoords(arg3)
			case *geom.LinearRing:
				_, err = x.SetCoords(arg3)
			}
		}) {
			return
		}
		c.Eval(1)
		c.Count("setcoords_with_windows_onto_one_array")
		if err != nil {
			c.Fail("setcoords-error", "SetCoords with coordinates sliced from one array failed: %v", err)
			return
		}
		expectGeom(c, "SetCoords(windows onto one array, some coordinates elsewhere)", t, g3, model.Opts{})
	}
}

// c01WrongLength injects one coordinate of wrong length at a random position.
func c01WrongLength(c *fw.Ctx, g *model.G) {
	r := c.R
	stride := g.Layout.Stride()
	bad := g.Clone()
	var lens []int
	for _, l := range []int{0, stride - 1, stride + 1, stride + 3} {
		if l >= 0 && l != stride && !(l == 0 && g.Kind == model.MultiPoint) {
			lens = append(lens, l)
		}
	}
	badLen := lens[r.Intn(len(lens))]
	badCoord := make([]float64, badLen) // non-nil, zero-length allowed
	for i := range badCoord {
		badCoord[i] = float64(100 + i)
	}
	injected := false
	switch bad.Kind {
	case model.Point:
		bad.C0 = badCoord
		injected = true
	case model.LineString, model.LinearRing, model.MultiPoint:
		pos := r.Intn(len(bad.C1) + 1)
		bad.C1 = append(bad.C1[:pos:pos], append([][]float64{badCoord}, bad.C1[pos:]...)...)
		injected = true
	case model.Polygon, model.MultiLineString:
		if len(bad.C2) == 0 {
			bad.C2 = [][][]float64{{}}
		}
		i := r.Intn(len(bad.C2))
		pos := r.Intn(len(bad.C2[i]) + 1)
		bad.C2[i] = append(bad.C2[i][:pos:pos], append([][]float64{badCoord}, bad.C2[i][pos:]...)...)
		injected = true
	case model.MultiPolygon:
		if len(bad.C3) == 0 {
			bad.C3 = [][][][]float64{{{}}}
		}
		i := r.Intn(len(bad.C3))
		if len(bad.C3[i]) == 0 {
			bad.C3[i] = [][][]float64{{}}
		}
		j := r.Intn(len(bad.C3[i]))
		pos := r.Intn(len(bad.C3[i][j]) + 1)
		bad.C3[i][j] = append(bad.C3[i][j][:pos:pos], append([][]float64{badCoord}, bad.C3[i][j][pos:]...)...)
		injected = true
	}
	if !injected {
		return
	}
	if badLen > 0 && r.Chance(1, 3) {
		// the bad coordinate is another window onto the array of the (valid)
		// coordinate before it: same first element, another length
		share := func(seq [][]float64) bool {
			for k := 1; k < len(seq); k++ {
				if len(seq[k]) == badLen && len(seq[k-1]) == stride && &seq[k][0] == &badCoord[0] {
					base := make([]float64, stride+4)
					copy(base, seq[k-1])
					for i := stride; i < len(base); i++ {
						base[i] = float64(100 + i)
					}
					seq[k-1], seq[k] = base[:stride], base[:badLen]
					return true
				}
			}
			return false
		}
		done := share(bad.C1)
		for _, s2 := range bad.C2 {
			done = done || share(s2)
		}
		for _, p3 := range bad.C3 {
			for _, s2 := range p3 {
				done = done || share(s2)
			}
		}
		if done {
			c.Count("wrong_length_window_onto_the_previous_coordinate")
		}
	}
	c.SetInput(map[string]any{"geometry": bad.String(), "injected_length": badLen, "stride": stride})
	var t geom.T
	var err error
	if c.Guard("panic", func() { t, err = buildNoEmptyPoint(bad) }) {
		return
	}
	c.Eval(1)
	c.Count("wrong_length_injected")
	if err == nil {
		c.Fail("stored-bad-coordinate", "a coordinate of length %d was accepted by a geometry of stride %d", badLen, stride)
		return
	}
	var sm geom.ErrStrideMismatch
	if !errors.As(err, &sm) {
		c.Fail("wrong-error", "coordinate of length %d in stride %d: error %T %q is not a stride-mismatch error", badLen, stride, err, err)
		return
	}
	if sm.Got != badLen || sm.Want != stride {
		c.Fail("wrong-error", "stride-mismatch error reports got=%d want=%d, expected got=%d want=%d", sm.Got, sm.Want, badLen, stride)
	}
	if t != nil && !isNilGeom(t) {
		c.Fail("stored-bad-coordinate", "SetCoords returned both an error and a geometry")
	}
}

// c01WrongLengthMulti injects two or three coordinates of wrong length whose
// lengths compensate (their total is a whole number of coordinates), next to
// each other or apart, into one line/ring or into two different ones: every one
// of them is "a coordinate whose length does not match the layout", so the
// whole SetCoords must be rejected with a stride-mismatch error naming one of
// the injected lengths, however the total adds up.
func c01WrongLengthMulti(c *fw.Ctx, g *model.G) {
	r := c.R
	stride := g.Layout.Stride()
	if stride < 1 || g.Kind == model.Point {
		return
	}
	bad := g.Clone()
	// the innermost coordinate lists of the geometry
	var lines []*[][]float64
	switch bad.Kind {
	case model.LineString, model.LinearRing, model.MultiPoint:
		lines = append(lines, &bad.C1)
	case model.Polygon, model.MultiLineString:
		if len(bad.C2) == 0 {
			bad.C2 = [][][]float64{{}}
		}
		for i := range bad.C2 {
			lines = append(lines, &bad.C2[i])
		}
	case model.MultiPolygon:
		if len(bad.C3) == 0 {
			bad.C3 = [][][][]float64{{{}}}
		}
		for i := range bad.C3 {
			if len(bad.C3[i]) == 0 {
				bad.C3[i] = [][][]float64{{}}
			}
			for j := range bad.C3[i] {
				lines = append(lines, &bad.C3[i][j])
			}
		}
	}
	if len(lines) == 0 {
		return
	}
	// compensating lengths: (stride+k, stride-k), or (stride+1, stride+1, stride-2), ...
	var lens []int
	switch r.Intn(4) {
	case 0:
		k := 1 + r.Intn(stride)
		lens = []int{stride + k, stride - k}
	case 1:
		k := 1 + r.Intn(stride)
		lens = []int{stride - k, stride + k}
	case 2:
		if stride >= 2 {
			lens = []int{stride + 1, stride + 1, stride - 2}
		} else {
			lens = []int{stride + 1, stride - 1}
		}
	default:
		// total is a multiple of the stride without being "the same number of coordinates"
		lens = []int{2 * stride, stride + 1, stride - 1}
	}
	if bad.Kind == model.MultiPoint {
		// a zero-length member of a MultiPoint is an empty point, not a bad coordinate
		for i, l := range lens {
			if l == 0 {
				lens[i] = 2 * stride
			}
		}
	}
	sameLine := r.Chance(2, 3) || len(lines) == 1
	l0 := lines[r.Intn(len(lines))]
	adjacent := r.Bool()
	pos := r.Intn(len(*l0) + 1)
	for i, bl := range lens {
		bc := make([]float64, bl)
		for k := range bc {
			bc[k] = float64(100 + 10*i + k)
		}
		ln := l0
		if !sameLine {
			ln = lines[r.Intn(len(lines))]
		}
		p := pos
		if !adjacent || !sameLine {
			p = r.Intn(len(*ln) + 1)
		} else if p > len(*ln) {
			p = len(*ln)
		}
		*ln = append((*ln)[:p:p], append([][]float64{bc}, (*ln)[p:]...)...)
	}
	c.SetInput(map[string]any{"geometry": bad.String(), "injected_lengths": lens, "stride": stride})
	var t geom.T
	var err error
	if c.Guard("panic", func() { t, err = buildNoEmptyPoint(bad) }) {
		return
	}
	c.Eval(1)
	c.Count("wrong_length_injected_multi")
	if sameLine {
		c.Count("wrong_length_compensating_in_one_line")
	}
	if err == nil {
		c.Fail("stored-bad-coordinate", "coordinates of lengths %v were accepted by a geometry of stride %d", lens, stride)
		return
	}
	var sm geom.ErrStrideMismatch
	if !errors.As(err, &sm) {
		c.Fail("wrong-error", "coordinates of lengths %v in stride %d: error %T %q is not a stride-mismatch error", lens, stride, err, err)
		return
	}
	okGot := false
	for _, l := range lens {
		if sm.Got == l {
			okGot = true
		}
	}
	if !okGot || sm.Want != stride {
		c.Fail("wrong-error", "stride-mismatch error reports got=%d want=%d, expected got in %v want=%d", sm.Got, sm.Want, lens, stride)
	}
	if t != nil && !isNilGeom(t) {
		c.Fail("stored-bad-coordinate", "SetCoords returned both an error and a geometry")
	}
}

func isNilGeom(t geom.T) bool {
	switch x := t.(type) {
	case *geom.Point:
		return x == nil
	case *geom.LineString:
		return x == nil
	case *geom.LinearRing:
		return x == nil
	case *geom.Polygon:
		return x == nil
	case *geom.MultiPoint:
		return x == nil
	case *geom.MultiLineString:
		return x == nil
	case *geom.MultiPolygon:
		return x == nil
	case *geom.GeometryCollection:
		return x == nil
	}
	return t == nil
}

// buildNoEmptyPoint is model.Build, except that a Point always goes through SetCoords.
func buildNoEmptyPoint(g *model.G) (geom.T, error) {
	if g.Kind == model.Point {
		p, err := geom.NewPoint(g.Layout).SetCoords(geom.Coord(g.C0))
		if err != nil {
			return nil, err
		}
		return p, nil
	}
	t, err := g.Build()
	if err != nil {
		return nil, err
	}
	return t, nil
}

// c01NoLayout calls the read accessors on NoLayout geometries of every type.
func c01NoLayout(c *fw.Ctx, idx int) {
	kind := gen.Kinds7[idx%len(gen.Kinds7)]
	variant := (idx / len(gen.Kinds7)) % 3 // 0: constructor, 1: SetCoords(empty), 2: New*Flat(nil)
	g := &model.G{Kind: kind, Layout: geom.NoLayout}
	c.SetInput(map[string]any{"kind": kind.String(), "layout": "NoLayout", "variant": variant})
	c.Distinct(fmt.Sprintf("nolayout/%s/%d", kind, variant))
	c.Count("nolayout_cases")
	var t geom.T
	if c.Guard("panic", func() {
		switch variant {
		case 0:
			switch kind {
			case model.Point:
				t = geom.NewPointEmpty(geom.NoLayout)
			case model.LineString:
				t = geom.NewLineString(geom.NoLayout)
			case model.LinearRing:
				t = geom.NewLinearRing(geom.NoLayout)
			case model.Polygon:
				t = geom.NewPolygon(geom.NoLayout)
			case model.MultiPoint:
				t = geom.NewMultiPoint(geom.NoLayout)
			case model.MultiLineString:
				t = geom.NewMultiLineString(geom.NoLayout)
			case model.MultiPolygon:
				t = geom.NewMultiPolygon(geom.NoLayout)
			}
		case 1:
			var err error
			t, err = g.Build()
			if err != nil {
				c.Fail("setcoords-error", "SetCoords(empty) on a NoLayout %s: %v", kind, err)
			}
		case 2:
			t = g.BuildFlat()
		}
	}) || t == nil {
		return
	}
	c.Eval(1)
	if !expectGeom(c, "NoLayout", t, g, model.Opts{}) {
		return
	}
	c.Guard("panic", func() {
		switch x := t.(type) {
		case *geom.Point:
			_ = x.FlatCoords()
			_ = x.Stride()
		case *geom.LineString:
			if n := x.NumCoords(); n != 0 {
				c.Fail("numcoords", "NoLayout LineString NumCoords() = %d", n)
			}
			if cs := x.Coords(); len(cs) != 0 {
				c.Fail("coords-mismatch", "NoLayout LineString Coords() has %d coords", len(cs))
			}
		case *geom.LinearRing:
			if n := x.NumCoords(); n != 0 {
				c.Fail("numcoords", "NoLayout LinearRing NumCoords() = %d", n)
			}
			if cs := x.Coords(); len(cs) != 0 {
				c.Fail("coords-mismatch", "NoLayout LinearRing Coords() has %d coords", len(cs))
			}
		case *geom.Polygon:
			if cs := x.Coords(); len(cs) != 0 || x.NumLinearRings() != 0 {
				c.Fail("coords-mismatch", "NoLayout Polygon Coords() has %d rings", len(cs))
			}
		case *geom.MultiPoint:
			if cs := x.Coords(); len(cs) != 0 || x.NumCoords() != 0 || x.NumPoints() != 0 {
				c.Fail("coords-mismatch", "NoLayout MultiPoint Coords() has %d members", len(cs))
			}
		case *geom.MultiLineString:
			if cs := x.Coords(); len(cs) != 0 || x.NumLineStrings() != 0 {
				c.Fail("coords-mismatch", "NoLayout MultiLineString Coords() has %d lines", len(cs))
			}
		case *geom.MultiPolygon:
			if cs := x.Coords(); len(cs) != 0 || x.NumPolygons() != 0 {
				c.Fail("coords-mismatch", "NoLayout MultiPolygon Coords() has %d polygons", len(cs))
			}
		}
		_ = t.Empty()
		_ = t.Ends()
		_ = t.Endss()
		if cl := c01Clone(t); cl != nil {
			expectGeom(c, "NoLayout Clone", cl, g, model.Opts{})
		}
		// a part with a real layout pushed onto it: refused or not, what is left is
		// a well-formed geometry (stride = dimension of the layout), and an
		// unchanged one if the push was refused
		sq := []float64{0, 0, 4, 0, 4, 4, 0, 0}
		var perr error
		pushed := true
		switch x := t.(type) {
		case *geom.Polygon:
			perr = x.Push(geom.NewLinearRingFlat(geom.XY, sq))
		case *geom.MultiPoint:
			perr = x.Push(geom.NewPointFlat(geom.XY, []float64{1, 2}))
		case *geom.MultiLineString:
			perr = x.Push(geom.NewLineStringFlat(geom.XY, sq))
		case *geom.MultiPolygon:
			perr = x.Push(geom.NewPolygonFlat(geom.XY, sq, []int{8}))
		default:
			pushed = false
		}
		if pushed {
			c.Count("nolayout_push_of_an_XY_part")
			if !wfCheck(c, "a NoLayout geometry after Push of an XY part", t) {
				return
			}
			if perr != nil {
				expectGeom(c, "NoLayout geometry after a refused Push", t, g, model.Opts{})
			} else if t.Layout().Stride() != t.Stride() || len(t.FlatCoords()) == 0 {
				c.Fail("ill-formed", "Push of an XY part onto a NoLayout %s succeeded and left layout %s, stride %d, %d ordinates", kind, t.Layout(), t.Stride(), len(t.FlatCoords()))
			}
		}
	})
}

// c01Decoders: every decoder hands out well-formed geometries equal to what was encoded.
func c01Decoders(c *fw.Ctx, idx int) {
	r := c.R
	switch idx % 3 {
	case 0: // WKB / EWKB bytes from the independent writer
		g := c03Model(r)
		m := wkbModes[2+r.Intn(4)]
		b, _, err := ref.WriteWKB(g, m.o)
		if err != nil {
			return
		}
		c.SetInput(map[string]any{"decoder": m.name, "geometry": g.String()})
		var t geom.T
		if c.Guard("panic", func() { t, err = m.unmarshal(b) }) {
			return
		}
		c.Eval(1)
		c.Count("decoded_" + m.name)
		if err != nil {
			c.Fail("unmarshal-error", "%s rejected a standard encoding: %v", m.name, err)
			return
		}
		expectGeom(c, m.name+" decoder", t, decodeExpectation(g, m), model.Opts{})
		c.Distinct("dec/" + m.name + "/" + g.Sig())
	case 1: // WKT text from the independent speller
		g := c05Model(r)
		st := &ref.WKTStyle{R: r, Whitespace: r.Bool(), BareMultiPt: r.Bool(), DetachSuffix: r.Bool()}
		text := st.Spell(g)
		c.SetInput(map[string]any{"decoder": "wkt", "wkt": clipStr(text, 500)})
		var t geom.T
		var err error
		if c.Guard("panic", func() { t, err = wkt.Unmarshal(text) }) {
			return
		}
		c.Eval(1)
		c.Count("decoded_wkt")
		if err != nil {
			c.Fail("unmarshal-error", "wkt.Unmarshal rejected standard text: %v", err)
			return
		}
		expectGeom(c, "wkt decoder", t, g, model.Opts{})
		c.Distinct("dec/wkt/" + g.Sig())
	default: // GeoJSON
		g := c07Model(r)
		_, dec, readable := geojsonExpect(g)
		if !readable {
			return
		}
		data, err := geojson.Marshal(g.BuildFlat())
		if err != nil {
			return
		}
		c.SetInput(map[string]any{"decoder": "geojson", "geojson": clipStr(string(data), 500)})
		var t geom.T
		if c.Guard("panic", func() { err = geojson.Unmarshal(data, &t) }) {
			return
		}
		c.Eval(1)
		c.Count("decoded_geojson")
		if err != nil {
			c.Fail("unmarshal-error", "geojson.Unmarshal rejected the library's own output: %v", err)
			return
		}
		expectGeom(c, "geojson decoder", t, dec, model.Opts{})
		c.Distinct("dec/geojson/" + g.Sig())
	}
}

func init() {
	fw.Register(&fw.Monitor{
		ID:    "C01",
		Title: "flat-coordinate representation stays well formed and lossless",
		Rule: "generated nested coordinate arrays for the 7 geometry types x layouts {NoLayout, XY, XYZ, XYM, XYZM, Layout(5..8)} x float classes (NaN payloads, +-Inf, -0, denormals, random bits, grids); " +
			"each built by SetCoords, New*Flat (from the model's own prefix sums), MustSetCoords and Clone, checked by the well-formedness monitor and compared bit for bit with the nested-list model through FlatCoords/Ends/Endss and through Coords/Coord(i)/Num*; " +
			"a second SetCoords on the same object (other sizes; then the geometry's own Coord(i) slices in reverse order, i.e. input aliasing its storage); one wrong-length coordinate injected at a random position; geometries handed out by the WKB/EWKB, WKT and GeoJSON decoders for encodings produced by the independent writers. distinct_nontrivial = number of distinct shape signatures (type, layout, nested length pattern capped at 3) with at least one coordinate, plus the NoLayout accessor cases",
		Assume: []string{"Go runtime bounds/nil checks turn memory errors into panics, which are observed", "nested-list model and WF monitor in /verif/harness/model"},
		Classes: []fw.Class{
			{Name: "shapes", Quick: 120000, Thorough: 3000000, Run: c01Shapes},
			{Name: "decoders", Quick: 60000, Thorough: 1500000, Run: c01Decoders},
			{Name: "every-length", Quick: 6001, Thorough: 30001, Chunk: 40, Run: c01EveryLength, Exhaustive: "SetCoords/Coords of every number of coordinates from 0 to the class count, three layouts, five types"},
			{Name: "nolayout", Quick: 21, Thorough: 21, Chunk: 21, Run: c01NoLayout, Exhaustive: "7 types x 3 ways of obtaining a NoLayout geometry"},
		},
		Require: []string{"wf_ok", "wrong_length_injected", "empty_component_before_nonempty", "nolayout_cases", "setcoords_on_used_geometry", "setcoords_with_aliasing_input", "decoded_wkt", "decoded_geojson", "decoded_ewkb-ndr"},
	})
}
