package mon

import (
	"bytes"
	"encoding/binary"
	"encoding/hex"
	"errors"
	"fmt"
	"io"
	"runtime"

	geom "github.com/twpayne/go-geom"
	"github.com/twpayne/go-geom/encoding/ewkbhex"
	"github.com/twpayne/go-geom/encoding/wkbcommon"
	"github.com/twpayne/go-geom/encoding/wkbhex"

	"verifharness/fw"
	"verifharness/gen"
	"verifharness/model"
	"verifharness/ref"
)

// C04 - binary decoders are total, allocation-bounded and canonical on arbitrary bytes.

type limitCfg struct {
	name string
	lim  [4]int
}

var c04Configs = []limitCfg{
	{"disabled", [4]int{0, -1, -1, -1}},
	{"10-10-10", [4]int{0, 10, 10, 10}},
	{"1000-100-10", [4]int{0, 1000, 100, 10}},
	{"0-0-0", [4]int{0, 0, 0, 0}},
	{"only-level-1", [4]int{0, 50, -1, -1}},
	{"only-level-2", [4]int{0, -1, 20, -1}},
	{"only-level-3", [4]int{0, -1, -1, 5}},
	{"4096-4096-4096", [4]int{0, 4096, 4096, 4096}},
}

// countingReader hands out everything available and counts Read calls.
type countingReader struct {
	b     []byte
	pos   int
	reads int
}

func (r *countingReader) Read(p []byte) (int, error) {
	r.reads++
	if r.pos >= len(r.b) {
		return 0, errEOF
	}
	n := copy(p, r.b[r.pos:])
	r.pos += n
	return n, nil
}

var errEOF = io.EOF

func c04SmallModel(r *fw.Rand) *model.G {
	cl := gen.AnyClass(r)
	so := gen.ShapeOpts{MaxPts: 4}
	if r.Chance(1, 3) {
		return gen.Collection(r, cl, gen.CollOpts{Shape: so, Layouts: gen.StdLayouts, MixLayouts: r.Bool(), MaxDepth: 3, MaxMembers: 3, FixedChance: 30}, 0)
	}
	return gen.Shape(r, gen.Kinds6[r.Intn(6)], gen.StdLayouts[r.Intn(4)], cl, so)
}

// c04Base produces a valid encoding and its field map.
func c04Base(r *fw.Rand, m wkbMode) ([]byte, []ref.Field, *model.G) {
	for {
		g := c04SmallModel(r)
		if m.o.EWKB {
			g.SRID = []int{0, 0, 4326, 1 << 31}[r.Intn(4)]
			if g.Kind == model.Collection && r.Chance(1, 3) {
				memberSRIDs(r, g)
			}
		}
		b, f, err := ref.WriteWKB(g, m.o)
		if err == nil {
			return b, f, g
		}
	}
}

// the re-encoding handed out for the previous case of this worker, and a copy of it
var c04Held, c04HeldCopy []byte

func putU32(b []byte, off int, be bool, v uint32) {
	if be {
		binary.BigEndian.PutUint32(b[off:], v)
	} else {
		binary.LittleEndian.PutUint32(b[off:], v)
	}
}

// c04Judge runs the decoders on one input under one limit configuration.
func c04JudgeQuiet(c *fw.Ctx, m wkbMode, cfg limitCfg, in []byte, class string, desc map[string]any) {
	c04JudgeOpt(c, m, cfg, in, class, desc, true)
}

func c04Judge(c *fw.Ctx, m wkbMode, cfg limitCfg, in []byte, class string, desc map[string]any) {
	c04JudgeOpt(c, m, cfg, in, class, desc, false)
}

func c04JudgeOpt(c *fw.Ctx, m wkbMode, cfg limitCfg, in []byte, class string, desc map[string]any, quiet bool) {
	desc["mode"] = m.name
	desc["limits"] = cfg.name
	desc["class"] = class
	if quiet && len(in) > 300 {
		desc["bytes_prefix"] = hex.EncodeToString(in[:300])
	} else {
		desc["bytes"] = hex.EncodeToString(in)
	}
	c.SetRawInput(desc, append([]byte{byte(modeIndex(m)), byte(cfgIndex(cfg))}, in...))
	// what does the reference reader make of it?
	ro := m.o
	lim := cfg.lim
	ro.Limits = &lim
	rg, _, rerr := ref.ReadWKB(in, ro)
	var tl *ref.TooLarge
	var ub *ref.Unbacked
	if errors.As(rerr, &ub) {
		// a count field at a level without a limit claims more than the input holds:
		// outside the property (its carve-out for disabled limits); not driven
		c.Count("skipped_unbacked_count_at_unlimited_level")
		return
	}
	c.Count("class_" + class)
	c.Count("config_" + cfg.name)
	saved := wkbcommon.MaxGeometryElements
	wkbcommon.MaxGeometryElements = cfg.lim
	defer func() { wkbcommon.MaxGeometryElements = saved }()

	var ms0, ms1 runtime.MemStats
	var t geom.T
	var err error
	runtime.ReadMemStats(&ms0)
	panicked := c.Guard("panic", func() { t, err = m.unmarshal(in) })
	runtime.ReadMemStats(&ms1)
	if panicked {
		return
	}
	c.Eval(1)
	alloc := ms1.TotalAlloc - ms0.TotalAlloc
	limSum := 0
	for _, l := range cfg.lim[1:] {
		if l > 0 {
			limSum += l
		}
	}
	bound := uint64(64*len(in) + 128*limSum + 65536)
	if alloc > bound {
		// allocations by the runtime itself occasionally land in the window; what the
		// decode allocates is deterministic, so measure again and keep the minimum
		for k := 0; k < 3 && alloc > bound; k++ {
			runtime.ReadMemStats(&ms0)
			fw.Try(func() { m.unmarshal(in) })
			runtime.ReadMemStats(&ms1)
			if a := ms1.TotalAlloc - ms0.TotalAlloc; a < alloc {
				alloc = a
			}
			c.Count("allocation_remeasured")
		}
	}
	c.Max("alloc_over_bound", float64(alloc)/float64(bound))
	if alloc > bound {
		c.Fail("allocation-unbounded", "decoding %d input bytes under limits %s allocated %d bytes, bound 64*len+128*limits+65536 = %d", len(in), cfg.name, alloc, bound)
		return
	}
	if errors.As(rerr, &tl) {
		c.Count("expected_too_large")
		c.Distinct(fmt.Sprintf("toolarge/%s/%s/L%d", m.name, cfg.name, tl.Level))
		var ge wkbcommon.ErrGeometryTooLarge
		if err == nil {
			c.Fail("limit-not-enforced", "a count of %d at level %d exceeds the limit %d but the decoder returned a geometry", tl.N, tl.Level, tl.Limit)
			return
		}
		if !errors.As(err, &ge) {
			c.Fail("limit-not-enforced", "a count of %d at level %d exceeds the limit %d but the decoder returned %T %q instead of a geometry-too-large error", tl.N, tl.Level, tl.Limit, err, err)
			return
		}
		if ge.Level != tl.Level || ge.N != tl.N || ge.Limit != tl.Limit {
			c.Fail("limit-error-wrong", "geometry-too-large error names level=%d n=%d limit=%d, the input has level=%d n=%d limit=%d", ge.Level, ge.N, ge.Limit, tl.Level, tl.N, tl.Limit)
			return
		}
		c.Guard("panic", func() { _ = err.Error() })
		return
	}
	if err != nil {
		c.Count("decoder_error")
		if rerr == nil {
			c.Count("rejected_where_reference_accepts")
		}
		if t != nil && !isNilGeom(t) {
			c.Fail("error-and-geometry", "decoder returned both an error (%v) and a geometry", err)
		}
		c.Guard("panic", func() { _ = err.Error() })
		return
	}
	c.Count("decoder_accepted")
	if t == nil || isNilGeom(t) {
		c.Fail("nil-geometry", "decoder returned neither an error nor a geometry")
		return
	}
	if !wfCheck(c, m.name+" Unmarshal", t) {
		return
	}
	if rerr != nil {
		c.Count("accepted_where_reference_rejects")
	} else {
		// both accept: same geometry
		if d := model.Equal(rg, model.FromGeom(t), model.Opts{IgnoreSRID: true}); d != "" {
			c.Fail("decoded-differently", "decoder and reference reader disagree on accepted bytes: %s", d)
			return
		}
	}
	c.Distinct(fmt.Sprintf("accepted/%s/%s/%s", m.name, class, model.FromGeom(t).Sig()))
	// canonical: encode -> decode gives an equal geometry
	var re []byte
	if c.R.Chance(1, 8) {
		codecNoise(c)
	}
	if c.Guard("panic", func() { re, err = m.marshal(t) }) {
		return
	}
	c.Eval(1)
	// the re-encoding of the previous case is still held: it must not have changed
	if c04Held != nil {
		c.Count("held_reencodings_rechecked")
		if !bytes.Equal(c04Held, c04HeldCopy) {
			c.Fail("result-invalidated", "the bytes returned by an earlier Marshal (of another geometry) changed when this one was encoded")
			c04Held = nil
			return
		}
	}
	if err == nil {
		c04Held, c04HeldCopy = re, append([]byte(nil), re...)
	}
	if err != nil {
		c.Fail("reencode-failed", "a decoded geometry cannot be re-encoded: %v", err)
		return
	}
	var t2 geom.T
	if c.Guard("panic", func() { t2, err = m.unmarshal(re) }) {
		return
	}
	c.Eval(1)
	if err != nil {
		c.Fail("redecode-failed", "decode(encode(decode(x))) failed: %v", err)
		return
	}
	if d := snap(t).diff(snap(t2)); d != "" {
		c.Fail("not-canonical", "decode(encode(g)) differs from g: %s", d)
		return
	}
	// termination, decided logically: number of Read calls is linear in the input
	cr := &countingReader{b: in}
	if c.Guard("panic", func() { _, err = m.read(cr) }) {
		return
	}
	c.Eval(1)
	if cr.reads > 4*len(in)+16 {
		c.Fail("too-many-reads", "decoding %d bytes issued %d Read calls", len(in), cr.reads)
		return
	}
	if c.R.Chance(1, 4) {
		// decoded geometries are the caller's own
		callerScribbles(c, t)
		callerScribbles(c, t2)
	}
}

func modeIndex(m wkbMode) int {
	for i, x := range wkbModes {
		if x.name == m.name {
			return i
		}
	}
	return 0
}

func cfgIndex(cf limitCfg) int {
	for i, x := range c04Configs {
		if x.name == cf.name {
			return i
		}
	}
	return 0
}

// c04BigRows are large valid encodings (a polygon of two rings of 100,000 points, a
// multilinestring and a multipolygon of that size) that one case in 400 decodes
// before its own input, the way one large row precedes small ones in a table: what
// a decode allocates is bounded by ITS input, whatever was decoded before.
var c04BigRows [][]byte

func c04BigRowFirst(c *fw.Ctx) {
	if c04BigRows == nil {
		ring := func(n int, off float64) [][]float64 {
			out := make([][]float64, n)
			for i := range out {
				out[i] = []float64{off + float64(i%1000), off + float64(i/1000)}
			}
			out[n-1] = append([]float64{}, out[0]...)
			return out
		}
		for _, g := range []*model.G{
			{Kind: model.Polygon, Layout: geom.XY, C2: [][][]float64{ring(100000, 0), ring(100000, 5000)}},
			{Kind: model.MultiLineString, Layout: geom.XY, C2: [][][]float64{ring(100000, 0), ring(50000, 7)}},
			{Kind: model.MultiPolygon, Layout: geom.XY, C3: [][][][]float64{{ring(100000, 0)}, {ring(60000, 9), ring(30000, 11)}}},
		} {
			for _, o := range []ref.WKBOpts{{}, {EWKB: true}} {
				if b, _, err := ref.WriteWKB(g, o); err == nil {
					c04BigRows = append(c04BigRows, b)
				}
			}
		}
	}
	saved := wkbcommon.MaxGeometryElements
	wkbcommon.MaxGeometryElements = [4]int{-1, -1, -1, -1}
	defer func() { wkbcommon.MaxGeometryElements = saved; _ = recover() }()
	k := c.R.Intn(len(c04BigRows))
	_, _ = wkbMode{"", ref.WKBOpts{EWKB: k%2 == 1}}.unmarshal(c04BigRows[k])
	c.Count("large_valid_row_decoded_first")
}

func c04Mutations(c *fw.Ctx, idx int) {
	r := c.R
	if r.Chance(1, 400) {
		c04BigRowFirst(c)
	}
	m := wkbModes[r.Intn(len(wkbModes))]
	cfg := c04Configs[r.Intn(len(c04Configs))]
	base, fields, g := c04Base(r, m)
	desc := map[string]any{"base": g.String()}
	in := append([]byte{}, base...)
	class := ""
	switch r.Intn(8) {
	case 7:
		// one member of a multi-part geometry replaced by the complete, valid
		// encoding of a geometry of that member's type in ANOTHER layout (what a
		// careless producer concatenates): the bytes are consistent in themselves,
		// only the dimensions of parent and member disagree
		class = "member-of-another-layout"
		var starts []int
		for _, f := range fields {
			if f.Kind == "order" && f.Depth == 1 {
				starts = append(starts, f.Off)
			}
		}
		var mk model.Kind
		switch g.Kind {
		case model.MultiPoint:
			mk = model.Point
		case model.MultiLineString:
			mk = model.LineString
		case model.MultiPolygon:
			mk = model.Polygon
		}
		if len(starts) == 0 || mk == 0 && g.Kind != model.MultiPoint {
			class = "valid"
			break
		}
		k := r.Intn(len(starts))
		end := len(in)
		if k+1 < len(starts) {
			end = starts[k+1]
		}
		var alt []byte
		for try := 0; try < 20 && alt == nil; try++ {
			l2 := gen.StdLayouts[r.Intn(4)]
			if l2 == g.Layout {
				continue
			}
			ag := gen.Shape(r, mk, l2, gen.SmallInt, gen.ShapeOpts{Valid: true, NoEmptyPoint: true})
			if b, _, err := ref.WriteWKB(ag, m.o); err == nil {
				alt = b
				desc["member"] = fmt.Sprintf("member %d replaced by the encoding of %s", k, ag.String())
			}
		}
		if alt == nil {
			class = "valid"
			break
		}
		in = append(append(append([]byte{}, in[:starts[k]]...), alt...), in[end:]...)
	case 0:
		class = "valid"
	case 1:
		class = "truncated"
		in = in[:r.Intn(len(in))]
	case 2:
		class = "bitflip"
		k := 1 + r.Intn(2)
		for i := 0; i < k; i++ {
			var pos int
			if r.Bool() && len(fields) > 0 {
				f := fields[r.Intn(len(fields))]
				pos = f.Off
				if f.Kind != "order" {
					pos += r.Intn(4)
				}
			} else {
				pos = r.Intn(len(in))
			}
			in[pos] ^= 1 << uint(r.Intn(8))
		}
	case 3:
		class = "splice"
		other, _, _ := c04Base(r, wkbModes[r.Intn(len(wkbModes))])
		a := r.Intn(len(in) + 1)
		b := r.Intn(len(other) + 1)
		in = append(append([]byte{}, in[:a]...), other[b:]...)
	case 4, 5:
		class = "forged-count"
		var counts []ref.Field
		for _, f := range fields {
			if f.Kind == "count" {
				counts = append(counts, f)
			}
		}
		if len(counts) == 0 {
			class = "valid"
			break
		}
		f := counts[r.Intn(len(counts))]
		limit := 0
		if f.Level > 0 && cfg.lim[f.Level] >= 0 {
			limit = cfg.lim[f.Level]
		}
		vals := []uint32{uint32(limit), uint32(limit + 1), 1<<31 - 1, 1 << 31, 1<<32 - 1, uint32(r.Uint64()), uint32(r.Intn(100000))}
		v := vals[r.Intn(len(vals))]
		putU32(in, f.Off, m.o.BigEndian, v)
		desc["forged_field"] = fmt.Sprintf("count of %s at offset %d (level %d, depth %d) := %d", f.Type, f.Off, f.Level, f.Depth, v)
		c.Distinct(fmt.Sprintf("forge/%s/%s/%s/L%d/d%d", m.name, cfg.name, f.Type, f.Level, f.Depth))
	default:
		class = "random-behind-header"
		n := r.Intn(40)
		in = in[:0]
		if m.o.BigEndian {
			in = append(in, 0)
		} else {
			in = append(in, 1)
		}
		var tw [4]byte
		code := uint32(1 + r.Intn(7))
		if m.o.EWKB {
			code |= uint32(r.Intn(8)) << 29
		} else {
			code += 1000 * uint32(r.Intn(4))
		}
		putU32(tw[:], 0, m.o.BigEndian, code)
		in = append(in, tw[:]...)
		for i := 0; i < n; i++ {
			if r.Chance(1, 2) {
				in = append(in, byte(r.Intn(4)))
			} else {
				in = append(in, byte(r.Uint64()))
			}
		}
	}
	c04Judge(c, m, cfg, in, class, desc)
	if c.WantSample() && class == "forged-count" {
		c.Sample(c.Input())
	}
}

// every prefix of an encoding
func c04Truncations(c *fw.Ctx, idx int) {
	r := c.R
	m := wkbModes[r.Intn(len(wkbModes))]
	cfg := c04Configs[r.Intn(len(c04Configs))]
	base, _, g := c04Base(r, m)
	if len(base) > 400 {
		base = base[:400]
	}
	for k := 0; k <= len(base); k++ {
		c04Judge(c, m, cfg, base[:k], "every-prefix", map[string]any{"base": g.String(), "prefix": k})
	}
	c.Count("encodings_truncated_at_every_prefix")
}

// large counts that stay within generous limits: allocation must still be linear in
// the input (a product of two in-limit counts must not be reserved up front)
func c04LargeWithinLimits(c *fw.Ctx, idx int) {
	r := c.R
	m := wkbModes[r.Intn(len(wkbModes))]
	cfg := c04Configs[len(c04Configs)-1]
	if r.Chance(1, 4) {
		cfg = c04Configs[2] // 1000-100-10
	}
	layout := gen.StdLayouts[r.Intn(4)]
	stride := layout.Stride()
	pts := func(n int) [][]float64 {
		out := make([][]float64, n)
		for i := range out {
			out[i] = make([]float64, stride)
			for j := range out[i] {
				out[i][j] = float64(r.Range(-100, 100))
			}
		}
		return out
	}
	L1, L2, L3 := cfg.lim[1], cfg.lim[2], cfg.lim[3]
	var g *model.G
	kindName := ""
	switch r.Intn(6) {
	case 5: // very many polygons of several rings each (as a multipolygon, or as members of a collection)
		g = &model.G{Kind: model.MultiPolygon, Layout: layout}
		np := r.Range(200, 900)
		if np > L3 {
			np = L3
		}
		nr := r.Range(2, 12)
		if nr > L2 {
			nr = L2
		}
		if r.Chance(1, 3) {
			nr = []int{7, 8, 9, 15, 16, 17}[r.Intn(6)]
		}
		for i := 0; i < np; i++ {
			var pg [][][]float64
			for k := 0; k < nr; k++ {
				pg = append(pg, pts(4))
			}
			g.C3 = append(g.C3, pg)
		}
		kindName = "multipolygon-many-polygons-of-several-rings"
		if r.Chance(1, 3) {
			gc := &model.G{Kind: model.Collection}
			for _, pg := range g.C3 {
				gc.Members = append(gc.Members, &model.G{Kind: model.Polygon, Layout: layout, C2: pg})
			}
			g = gc
			kindName = "collection-of-many-polygons-of-several-rings"
		}
	case 0: // polygon: big first ring, many small rings
		g = &model.G{Kind: model.Polygon, Layout: layout}
		g.C2 = append(g.C2, pts(r.Range(L1/4, L1)))
		for i := 0; i < r.Range(1, 40); i++ {
			g.C2 = append(g.C2, pts(r.Range(0, 4)))
		}
		kindName = "polygon-big-first-ring"
	case 1: // polygon with very many small rings
		g = &model.G{Kind: model.Polygon, Layout: layout}
		for i := 0; i < r.Range(L2/2, L2); i++ {
			g.C2 = append(g.C2, pts(r.Range(0, 3)))
		}
		kindName = "polygon-many-rings"
	case 2: // multilinestring: big first line, many lines
		g = &model.G{Kind: model.MultiLineString, Layout: layout}
		g.C2 = append(g.C2, pts(r.Range(L1/4, L1)))
		for i := 0; i < r.Range(1, min(L2, 60)); i++ {
			g.C2 = append(g.C2, pts(r.Range(0, 3)))
		}
		kindName = "multilinestring-big-first-line"
	case 3: // multipolygon: big first polygon, several polygons
		g = &model.G{Kind: model.MultiPolygon, Layout: layout}
		g.C3 = append(g.C3, [][][]float64{pts(r.Range(L1/4, L1)), pts(3)})
		for i := 0; i < r.Range(1, min(L3, 30)); i++ {
			g.C3 = append(g.C3, [][][]float64{pts(r.Range(0, 4))})
		}
		kindName = "multipolygon-big-first-polygon"
	default: // multipoint with many points
		g = &model.G{Kind: model.MultiPoint, Layout: layout}
		g.C1 = pts(r.Range(L1/2, L1))
		kindName = "multipoint-many-points"
	}
	base, fields, err := ref.WriteWKB(g, m.o)
	if err != nil {
		return
	}
	in := append([]byte{}, base...)
	desc := map[string]any{"shape": kindName}
	class := "large-within-limits"
	// raise one count to its limit (the claimed elements need not exist) and/or truncate
	var counts []ref.Field
	for _, f := range fields {
		if f.Kind == "count" && f.Depth == 0 && f.Level > 0 {
			counts = append(counts, f)
		}
	}
	if len(counts) > 0 && r.Chance(2, 3) {
		f := counts[0]
		if r.Chance(1, 3) {
			f = counts[r.Intn(len(counts))]
		}
		v := uint32(cfg.lim[f.Level])
		if r.Bool() {
			v = uint32(r.Range(cfg.lim[f.Level]/2, cfg.lim[f.Level]))
		}
		putU32(in, f.Off, m.o.BigEndian, v)
		desc["forged_field"] = fmt.Sprintf("count of %s at offset %d (level %d) := %d", f.Type, f.Off, f.Level, v)
	}
	if r.Chance(1, 3) {
		in = in[:r.Range(len(in)/2, len(in))]
	}
	desc["input_bytes"] = len(in)
	c.Count("shape_" + kindName)
	c04JudgeQuiet(c, m, cfg, in, class, desc)
}

// hex strings and SQL wrappers over arbitrary input
func c04Wrappers(c *fw.Ctx, idx int) {
	r := c.R
	m := wkbModes[r.Intn(len(wkbModes))]
	cfg := c04Configs[1+r.Intn(len(c04Configs)-1)]
	base, _, g := c04Base(r, m)
	in := append([]byte{}, base...)
	if r.Bool() && len(in) > 0 {
		in[r.Intn(len(in))] ^= byte(1 << uint(r.Intn(8)))
	}
	if r.Chance(1, 3) {
		in = in[:r.Intn(len(in)+1)]
	}
	hs := hex.EncodeToString(in)
	switch r.Intn(4) {
	case 0:
		hs = hs[:r.Intn(len(hs)+1)] // odd lengths
	case 1:
		hs += "zz"
	case 2:
		hs = string(bytes.ToUpper([]byte(hs)))
	}
	c.SetInput(map[string]any{"mode": m.name, "limits": cfg.name, "base": g.String(), "hex": hs})
	ro := m.o
	lim := cfg.lim
	ro.Limits = &lim
	if raw, e := hex.DecodeString(hs); e == nil {
		var ub *ref.Unbacked
		if _, _, rerr := ref.ReadWKB(raw, ro); errors.As(rerr, &ub) {
			c.Count("skipped_unbacked_count_at_unlimited_level")
			return
		}
	}
	saved := wkbcommon.MaxGeometryElements
	wkbcommon.MaxGeometryElements = cfg.lim
	defer func() { wkbcommon.MaxGeometryElements = saved }()
	var t geom.T
	var err error
	if c.Guard("panic", func() {
		if m.o.EWKB {
			t, err = ewkbhex.Decode(hs)
		} else {
			t, err = wkbhex.Decode(hs, m.opts()...)
		}
	}) {
		return
	}
	c.Eval(1)
	c.Count("hex_decodes")
	c.Distinct(fmt.Sprintf("hex/%s/%v", m.name, err == nil))
	if err == nil {
		if t == nil || isNilGeom(t) {
			c.Fail("nil-geometry", "hex Decode returned neither error nor geometry")
			return
		}
		if !wfCheck(c, "hex Decode", t) {
			return
		}
	} else {
		c.Guard("panic", func() { _ = err.Error() })
	}
	// SQL wrappers
	raw, e := hex.DecodeString(hs)
	if e != nil {
		raw = in
	}
	{
		var ub *ref.Unbacked
		if _, _, rerr := ref.ReadWKB(raw, ro); errors.As(rerr, &ub) {
			c.Count("skipped_unbacked_count_at_unlimited_level")
			return
		}
	}
	mk := wkbWrapper
	if m.o.EWKB {
		mk = ewkbWrapper
	}
	if m.o.NaNEmptyPoint && !m.o.EWKB {
		return
	}
	for _, k := range sqlKinds {
		w := mk(k, nil)
		if c.Guard("panic", func() { err = w.Scan(append([]byte{}, raw...)) }) {
			return
		}
		c.Eval(1)
		c.Count("sql_scans")
		if err == nil {
			if gt := wrappedGeom(w); gt != nil && !isNilGeom(gt) {
				if !wfCheck(c, "Scan", gt) {
					return
				}
			}
		} else {
			c.Guard("panic", func() { _ = err.Error() })
		}
	}
}

func c04RawReplay(c *fw.Ctx, raw []byte) {
	if len(raw) < 2 {
		return
	}
	m := wkbModes[int(raw[0])%len(wkbModes)]
	cfg := c04Configs[int(raw[1])%len(c04Configs)]
	c04Judge(c, m, cfg, raw[2:], "replay", map[string]any{})
}

func init() {
	fw.Register(&fw.Monitor{
		MemDeathIsViolation: true,
		ID:                  "C04",
		Title:               "binary decoders are total, allocation-bounded and canonical on arbitrary bytes",
		Rule:                "valid encodings from the reference writer (small geometries, collections to depth 3, all modes/orders) mutated by truncation (sampled, and every prefix), 1-2 bit flips biased to header fields, splices of two encodings, forgery of exactly one count field located through the reference writer's field map to {limit, limit+1, 2^31-1, 2^31, 2^32-1, random}, random bytes behind plausible headers; large geometries whose counts stay within generous limits (big first ring/line/polygon followed by many parts, one count raised to its limit, optionally truncated) so that an allocation proportional to a PRODUCT of in-limit counts shows; 8 settings of wkbcommon.MaxGeometryElements. Monitors: panic/process death (journal), WF of accepted geometries, decode->encode->decode equality, agreement with the reference reader on accepted bytes, ErrGeometryTooLarge{Level,N,Limit} exactly when the reference reader (same limits) meets an over-limit count first, allocation monitor (TotalAlloc delta <= 64*len+128*sum(limits)+65536, re-measured on excess), Read-call bound 4*len+16. Inputs whose count at a level WITHOUT a limit is not backed by input are not driven (the property's carve-out). distinct_nontrivial = distinct (format, config, field type, level, depth) forgeries + accepted shape signatures",
		Assume:              []string{"runtime.ReadMemStats TotalAlloc delta in a single-goroutine child is exactly what the decode allocated", "reference reader in harness/ref decides which count field is met first", "children run under ulimit -v 4000000 so an unrejected forged count kills the child, which the journal attributes to the input"},
		Classes: []fw.Class{
			{Name: "mutations", Quick: 200000, Thorough: 12000000, Run: c04Mutations, RawReplay: c04RawReplay},
			{Name: "every-prefix", Quick: 3000, Thorough: 100000, Run: c04Truncations},
			{Name: "hex-sql", Quick: 50000, Thorough: 1000000, Run: c04Wrappers},
			{Name: "large-within-limits", Quick: 3000, Thorough: 100000, Run: c04LargeWithinLimits, RawReplay: c04RawReplay},
		},
		Extra: fuzzExtra("C04", 3000000),
		Require: []string{"class_valid", "class_truncated", "class_bitflip", "class_splice", "class_forged-count", "class_random-behind-header", "class_every-prefix", "expected_too_large", "decoder_accepted", "decoder_error",
			"config_disabled", "config_0-0-0", "config_only-level-2", "hex_decodes", "sql_scans", "encodings_truncated_at_every_prefix", "class_large-within-limits", "shape_polygon-big-first-ring"},
	})
}
