package mon

import (
	"fmt"
	"math"
	"strings"

	geom "github.com/twpayne/go-geom"

	"verifharness/fw"
	"verifharness/gen"
	"verifharness/model"
)

// C16 - Clone returns an equal geometry that shares no storage.

func withSpare(f []float64, extra int) []float64 {
	out := make([]float64, len(f), len(f)+extra)
	copy(out, f)
	return out
}

func withSpareInts(e []int, extra int) []int {
	out := make([]int, len(e), len(e)+extra)
	copy(out, e)
	return out
}

// c16Build constructs the geometry with a chosen storage class.
func c16Build(g *model.G, storage int) geom.T {
	flat, ends, endss := g.Flat()
	switch storage {
	case 1: // spare capacity everywhere
		flat = withSpare(flat, 64)
		ends = withSpareInts(ends, 8)
		if endss != nil {
			ne := make([][]int, len(endss), len(endss)+4)
			for i := range endss {
				ne[i] = withSpareInts(endss[i], 4)
			}
			endss = ne
		}
	case 2: // empty but non-nil slices where empty
		if flat == nil {
			flat = []float64{}
		}
		if ends == nil {
			ends = []int{}
		}
		if endss == nil && g.Kind == model.MultiPolygon {
			endss = [][]int{}
		}
	}
	switch g.Kind {
	case model.Point:
		if g.C0 == nil && storage != 2 {
			return geom.NewPointFlat(g.Layout, nil)
		}
		return geom.NewPointFlat(g.Layout, flat)
	case model.LineString:
		return geom.NewLineStringFlat(g.Layout, flat)
	case model.LinearRing:
		return geom.NewLinearRingFlat(g.Layout, flat)
	case model.Polygon:
		return geom.NewPolygonFlat(g.Layout, flat, ends)
	case model.MultiPoint:
		return geom.NewMultiPointFlat(g.Layout, flat, geom.NewMultiPointFlatOptionWithEnds(ends))
	case model.MultiLineString:
		return geom.NewMultiLineStringFlat(g.Layout, flat, ends)
	case model.MultiPolygon:
		return geom.NewMultiPolygonFlat(g.Layout, flat, endss)
	}
	return nil
}

func c16Reserve(t geom.T, n int) {
	switch x := t.(type) {
	case *geom.Point:
		x.Reserve(n)
	case *geom.LineString:
		x.Reserve(n)
	case *geom.LinearRing:
		x.Reserve(n)
	case *geom.Polygon:
		x.Reserve(n)
	case *geom.MultiPoint:
		x.Reserve(n)
	case *geom.MultiLineString:
		x.Reserve(n)
	case *geom.MultiPolygon:
		x.Reserve(n)
	}
}

// c16Mutate applies one mutation to t and returns its name ("" if not applicable).
func c16Mutate(c *fw.Ctx, t geom.T, kind model.Kind, r *fw.Rand) string {
	layout := t.Layout()
	switch r.Intn(9) {
	case 0:
		f := t.FlatCoords()
		for i := range f {
			f[i] = f[i]*2 + 12345.5
			if math.IsNaN(f[i]) {
				f[i] = 777
			}
		}
		// also scribble over the spare capacity
		if cap(f) > len(f) {
			g := f[:cap(f)]
			for i := len(f); i < len(g); i++ {
				g[i] = -999
			}
		}
		return "write every FlatCoords()[i]"
	case 1:
		return "" // end offsets are probed separately (c16EndsProbe)
	case 2:
		var err error
		switch x := t.(type) {
		case *geom.Polygon:
			err = x.Push(gen.Shape(r, model.LinearRing, layout, gen.SmallInt, gen.ShapeOpts{}).BuildFlat().(*geom.LinearRing))
		case *geom.MultiPoint:
			err = x.Push(gen.Shape(r, model.Point, layout, gen.SmallInt, gen.ShapeOpts{}).BuildFlat().(*geom.Point))
		case *geom.MultiLineString:
			err = x.Push(gen.Shape(r, model.LineString, layout, gen.SmallInt, gen.ShapeOpts{}).BuildFlat().(*geom.LineString))
		case *geom.MultiPolygon:
			err = x.Push(gen.Shape(r, model.Polygon, layout, gen.SmallInt, gen.ShapeOpts{}).BuildFlat().(*geom.Polygon))
		default:
			return ""
		}
		if err != nil {
			c.Fail("push-error", "Push failed: %v", err)
		}
		return "Push"
	case 3:
		if layout.Stride() == 0 {
			// LineString/LinearRing.Reverse() on a NoLayout geometry never returns
			// (reverse1 steps by stride 0); no property covers it, so it is not driven.
			return ""
		}
		switch x := t.(type) {
		case *geom.LineString:
			x.Reverse()
		case *geom.LinearRing:
			x.Reverse()
		case *geom.Polygon:
			x.Reverse()
		case *geom.MultiPoint:
			x.Reverse()
		case *geom.MultiLineString:
			x.Reverse()
		case *geom.MultiPolygon:
			x.Reverse()
		default:
			return ""
		}
		return "Reverse"
	case 4:
		ng := gen.Shape(r, kind, layout, gen.SmallInt, gen.ShapeOpts{NoEmptyPoint: true})
		var err error
		switch x := t.(type) {
		case *geom.Point:
			_, err = x.SetCoords(geom.Coord(ng.C0))
		case *geom.LineString:
			_, err = x.SetCoords(ng.Coords1())
		case *geom.LinearRing:
			_, err = x.SetCoords(ng.Coords1())
		case *geom.Polygon:
			_, err = x.SetCoords(ng.Coords2())
		case *geom.MultiPoint:
			_, err = x.SetCoords(ng.Coords1())
		case *geom.MultiLineString:
			_, err = x.SetCoords(ng.Coords2())
		case *geom.MultiPolygon:
			_, err = x.SetCoords(ng.Coords3())
		}
		if err != nil {
			c.Fail("setcoords-error", "SetCoords failed: %v", err)
		}
		return "SetCoords"
	case 5:
		if layout.Stride() == 0 {
			return ""
		}
		geom.TransformInPlace(t, func(co geom.Coord) {
			for i := range co {
				co[i] = -co[i] + 3
				if math.IsNaN(co[i]) {
					co[i] = 5
				}
			}
		})
		return "TransformInPlace"
	case 6:
		ng := c16Build(gen.Shape(r, kind, layout, gen.SmallInt, gen.ShapeOpts{}), 0)
		switch x := t.(type) {
		case *geom.Point:
			x.Swap(ng.(*geom.Point))
		case *geom.LineString:
			x.Swap(ng.(*geom.LineString))
		case *geom.LinearRing:
			x.Swap(ng.(*geom.LinearRing))
		case *geom.Polygon:
			x.Swap(ng.(*geom.Polygon))
		case *geom.MultiPoint:
			x.Swap(ng.(*geom.MultiPoint))
		case *geom.MultiLineString:
			x.Swap(ng.(*geom.MultiLineString))
		case *geom.MultiPolygon:
			x.Swap(ng.(*geom.MultiPolygon))
		}
		return "Swap with a fresh geometry"
	case 7:
		_, err := geom.SetSRID(t, t.SRID()+1+r.Intn(1000))
		if err != nil {
			c.Fail("setsrid-error", "SetSRID: %v", err)
		}
		return "SetSRID"
	default:
		c16Reserve(t, r.Range(1, 40))
		return "Reserve"
	}
}

// c16EndsProbe bumps every end offset of t, checks the others, and restores.
func c16EndsProbe(c *fw.Ctx, t geom.T, others []geom.T, snaps []snapshot, names []string, who string) bool {
	e := t.Ends()
	ess := t.Endss()
	if len(e) == 0 && len(ess) == 0 {
		return true
	}
	for i := range e {
		e[i] += 1000
	}
	for _, es := range ess {
		for j := range es {
			es[j] += 1000
		}
	}
	ok := true
	for i, o := range others {
		if d := snaps[i].diff(snap(o)); d != "" {
			c.Fail("shared-storage", "bumping the end offsets of %s is visible through %s: %s", who, names[i], d)
			ok = false
		}
	}
	for i := range e {
		e[i] -= 1000
	}
	for _, es := range ess {
		for j := range es {
			es[j] -= 1000
		}
	}
	c.Count("mut_bump ends")
	return ok
}

// c16NilDiff compares nil-ness (not contents) of the slices two geometries
// hand out: FlatCoords, Ends, Endss and every Endss row.
func c16NilDiff(a, b geom.T) string {
	w := func(isNil bool) string {
		if isNil {
			return "nil"
		}
		return "empty, not nil"
	}
	if (a.FlatCoords() == nil) != (b.FlatCoords() == nil) {
		return fmt.Sprintf("FlatCoords() is %s in the original and %s in the copy", w(a.FlatCoords() == nil), w(b.FlatCoords() == nil))
	}
	if (a.Ends() == nil) != (b.Ends() == nil) {
		return fmt.Sprintf("Ends() is %s in the original and %s in the copy", w(a.Ends() == nil), w(b.Ends() == nil))
	}
	ae, be := a.Endss(), b.Endss()
	if (ae == nil) != (be == nil) {
		return fmt.Sprintf("Endss() is %s in the original and %s in the copy", w(ae == nil), w(be == nil))
	}
	for i := range ae {
		if i < len(be) && (ae[i] == nil) != (be[i] == nil) {
			return fmt.Sprintf("Endss()[%d] is %s in the original and %s in the copy", i, w(ae[i] == nil), w(be[i] == nil))
		}
	}
	return ""
}

func c16Geoms(c *fw.Ctx, idx int) {
	r := c.R
	kind := gen.Kinds7[r.Intn(len(gen.Kinds7))]
	layout := gen.PickLayout(r, c01Layouts)
	g := gen.Shape(r, kind, layout, gen.AnyClass(r), gen.ShapeOpts{})
	if kind == model.Point && g.C0 != nil && r.Chance(1, 12) {
		// every ordinate the NaN that the WKB codecs use to spell POINT EMPTY: in a
		// geometry it is a number like any other, the point is not empty
		for i := range g.C0 {
			g.C0[i] = math.Float64frombits(0x7FF8000000000000)
		}
		c.Count("points_of_empty_point_NaNs")
	}
	storage := r.Intn(3)
	var hist []string
	setIn := func() {
		c.SetInput(map[string]any{"geometry": g.String(), "storage": []string{"exact", "spare-capacity", "empty-non-nil"}[storage], "history": strings.Join(hist, "; ")})
	}
	setIn()
	orig := c16Build(g, storage).(geom.T)
	geom.SetSRID(orig, r.Intn(3)*1000)
	if r.Chance(1, 4) {
		c16Reserve(orig, r.Range(1, 30))
	}
	var clone, clone2 geom.T
	if c.Guard("panic", func() { clone = c01Clone(orig); clone2 = c01Clone(clone) }) {
		return
	}
	c.Eval(2)
	s0 := snap(orig)
	if d := s0.diff(snap(clone)); d != "" {
		c.Fail("clone-not-equal", "clone differs from the original: %s", d)
		return
	}
	if d := s0.diff(snap(clone2)); d != "" {
		c.Fail("clone-not-equal", "clone of the clone differs from the original: %s", d)
		return
	}
	if !wfCheck(c, "Clone", clone) {
		return
	}
	// "structure ... including nil vs empty slices": what the accessors hand out
	// for the clone is nil exactly where it is nil for the original.
	for i, cl := range []geom.T{clone, clone2} {
		if d := c16NilDiff(orig, cl); d != "" {
			c.Fail("clone-nil-vs-empty", "%s differs from the original in structure: %s", []string{"the clone", "the clone of the clone"}[i], d)
			return
		}
	}
	c.Count("nil_vs_empty_compared")
	c.Distinct(fmt.Sprintf("%s/%s/%d/%v", kind, layout, storage, g.IsEmpty()))
	c.Count("storage_" + []string{"exact", "spare-capacity", "empty-non-nil"}[storage])
	all := []geom.T{orig, clone, clone2}
	names := []string{"the original", "the clone", "the clone of the clone"}
	steps := r.Range(1, 20)
	for s := 0; s < steps; s++ {
		wi := r.Intn(3)
		var others []geom.T
		var onames []string
		for i := range all {
			if i != wi {
				others = append(others, all[i])
				onames = append(onames, names[i])
			}
		}
		snaps := []snapshot{snap(others[0]), snap(others[1])}
		if r.Chance(1, 8) {
			hist = append(hist, "bump ends of "+names[wi])
			setIn()
			if !c16EndsProbe(c, all[wi], others, snaps, onames, names[wi]) {
				return
			}
			continue
		}
		var what string
		if c.Guard("panic", func() { what = c16Mutate(c, all[wi], kind, r) }) {
			return
		}
		if what == "" {
			continue
		}
		hist = append(hist, what+" on "+names[wi])
		setIn()
		c.Eval(1)
		c.Count("mut_" + what)
		for i, o := range others {
			if d := snaps[i].diff(snap(o)); d != "" {
				c.Fail("shared-storage", "%s on %s is visible through %s: %s", what, names[wi], onames[i], d)
				return
			}
		}
	}
	if c.WantSample() && len(hist) <= 5 {
		c.Sample(c.Input())
	}
}

// boundsSnap reads every dimension a Bounds answers for: Set with more values
// than the layout has dimensions widens the stored minima and maxima without
// changing Layout(), so the readable dimensions are probed, not assumed.
func boundsSnap(b *geom.Bounds) []uint64 {
	out := []uint64{uint64(b.Layout())}
	for i := 0; i < 16; i++ {
		var lo, hi float64
		if panicked, _ := fw.Try(func() { lo, hi = b.Min(i), b.Max(i) }); panicked {
			break
		}
		out = append(out, math.Float64bits(lo), math.Float64bits(hi))
	}
	return out
}

func u64Eq(a, b []uint64) bool {
	if len(a) != len(b) {
		return false
	}
	for i := range a {
		if a[i] != b[i] {
			return false
		}
	}
	return true
}

func c16CoordBounds(c *fw.Ctx, idx int) {
	r := c.R
	// Coord
	n := r.Intn(9)
	co := geom.Coord(gen.Coord(r, n, gen.AnyClass(r)))
	if n == 0 && r.Bool() {
		co = nil
	}
	c.SetInput(map[string]any{"coord": fw.Fs(co)})
	var cc geom.Coord
	if c.Guard("panic", func() { cc = co.Clone() }) {
		return
	}
	c.Eval(1)
	c.Count("coord_clones")
	if !model.BitsEq(co, cc) {
		c.Fail("clone-not-equal", "Coord.Clone() = %s, original %s", fw.Fs(cc), fw.Fs(co))
		return
	}
	before := append([]float64{}, co...)
	other := geom.Coord(gen.Coord(r, n, gen.SmallInt))
	cc.Set(other)
	for i := range cc {
		cc[i] = 4242
	}
	if !model.BitsEq(before, co) {
		c.Fail("shared-storage", "writing the cloned Coord changed the original: %s", fw.Fs(co))
		return
	}
	cc2 := co.Clone()
	for i := range co {
		co[i] = -1
	}
	if !model.BitsEq(before, cc2) {
		c.Fail("shared-storage", "writing the original Coord changed its clone")
		return
	}
	// Bounds
	layout := gen.PickLayout(r, c01Layouts)
	b := geom.NewBounds(layout)
	kind := gen.Kinds7[r.Intn(len(gen.Kinds7))]
	g := gen.Shape(r, kind, layout, gen.FiniteClass(r), gen.ShapeOpts{})
	c.SetInput(map[string]any{"bounds_layout": layout.String(), "extended_with": g.String()})
	if r.Bool() {
		b.Extend(g.BuildFlat())
	}
	if r.Chance(1, 4) {
		// Set with as many or more values than the layout has dimensions
		k := layout.Stride() + r.Intn(3)
		args := make([]float64, 2*k)
		for i := range args {
			args[i] = float64(r.Range(-100, 100))
		}
		b.Set(args...)
		if k > layout.Stride() {
			c.Count("bounds_wider_than_layout")
		}
	}
	var bc *geom.Bounds
	if c.Guard("panic", func() { bc = b.Clone() }) {
		return
	}
	c.Eval(1)
	c.Count("bounds_clones")
	c.Distinct(fmt.Sprintf("bounds/%s/%v", layout, b.IsEmpty()))
	s0 := boundsSnap(b)
	if !u64Eq(s0, boundsSnap(bc)) {
		c.Fail("clone-not-equal", "Bounds.Clone() differs from the original")
		return
	}
	for s := 0; s < 4; s++ {
		target, otherB, tn := bc, b, "the clone"
		if r.Bool() {
			target, otherB, tn = b, bc, "the original"
		}
		so := boundsSnap(otherB)
		what := ""
		if c.Guard("panic", func() {
			switch r.Intn(3) {
			case 0:
				// a geometry of the same or of a wider layout (the box then widens:
				// minima and maxima are re-laid-out or appended to in place)
				l2 := layout
				if r.Bool() {
					l2 = gen.StdLayouts[r.Intn(4)]
				}
				g2 := gen.Shape(r, kind, l2, gen.FiniteClass(r), gen.ShapeOpts{NoEmptyPoint: true})
				target.Extend(g2.BuildFlat())
				what = "Extend"
			case 1:
				stride := target.Layout().Stride() + r.Intn(3)*r.Intn(2)
				args := make([]float64, 2*stride)
				for i := range args {
					args[i] = float64(r.Range(-100, 100))
				}
				target.Set(args...)
				what = "Set"
			default:
				if ts := target.Layout().Stride(); ts > 0 {
					target.SetCoords(geom.Coord(gen.Coord(r, ts, gen.SmallInt)), geom.Coord(gen.Coord(r, ts, gen.SmallInt)))
					what = "SetCoords"
				}
			}
		}) {
			return
		}
		if what == "" {
			continue
		}
		c.Eval(1)
		c.Count("mut_Bounds." + what)
		if !u64Eq(so, boundsSnap(otherB)) {
			c.Fail("shared-storage", "Bounds.%s on %s is visible through the other one", what, tn)
			return
		}
	}
}

// (c) very large geometries (65,536 .. 1.2 million ordinates, on and next to
// multiples of 65,536): a copy made in blocks has block boundaries to get wrong
func c16Huge(c *fw.Ctx, idx int) {
	r := c.R
	layout := []geom.Layout{geom.XY, geom.XYZ, geom.XYZM, geom.Layout(5)}[r.Intn(4)]
	stride := layout.Stride()
	n := hugeFloats(r, stride)
	flat := make([]float64, n)
	for i := range flat {
		flat[i] = float64(i%9973) + 0.25
	}
	var t geom.T
	kind := r.Intn(4)
	switch kind {
	case 0:
		t = geom.NewLineStringFlat(layout, flat)
	case 1:
		t = geom.NewMultiPointFlat(layout, flat)
	case 2:
		cut := stride * r.Range(1, n/stride)
		t = geom.NewPolygonFlat(layout, flat, []int{cut, n})
	default:
		a := stride * r.Range(1, n/stride)
		t = geom.NewMultiPolygonFlat(layout, flat, [][]int{{a}, {}, {n}})
	}
	c.SetInput(map[string]any{"type": fmt.Sprintf("%T", t), "layout": layout.String(), "ordinates": n, "ordinate_i": "(i mod 9973) + 0.25"})
	var cl geom.T
	if c.Guard("panic", func() {
		switch x := t.(type) {
		case *geom.LineString:
			cl = x.Clone()
		case *geom.MultiPoint:
			cl = x.Clone()
		case *geom.Polygon:
			cl = x.Clone()
		case *geom.MultiPolygon:
			cl = x.Clone()
		}
	}) {
		return
	}
	c.Eval(1)
	c.Count("huge_clones")
	c.Distinct(fmt.Sprintf("huge/%d/%s/%d", kind, layout, n))
	if d := snap(t).diff(snap(cl)); d != "" {
		c.Fail("clone-not-equal", "clone of a geometry of %d ordinates differs from it: %s", n, d)
		return
	}
	// writes to either are not seen through the other
	cf, of := cl.FlatCoords(), t.FlatCoords()
	for _, i := range []int{0, n / 2, n - 1, 65535 % n, 65536 % n, (n / 65536) * 65536 % n} {
		cf[i] = -1
		if of[i] == -1 {
			c.Fail("shared-storage", "writing ordinate %d of the clone shows in the original (%d ordinates)", i, n)
			return
		}
		of[i] = -2
		if cf[i] != -1 {
			c.Fail("shared-storage", "writing ordinate %d of the original shows in the clone (%d ordinates)", i, n)
			return
		}
	}
}

// c16Giants: clones of 2^23 .. 2^24 ordinates and a little more (a copy shared out
// between goroutines or made in very large blocks starts somewhere up there).
func c16Giants(c *fw.Ctx, idx int) {
	r := c.R
	n := 1<<uint(23+idx%2) + []int{0, 1, 4, 6, 12, 20, 28, 36, 100, 1000}[r.Intn(10)]
	layout := []geom.Layout{geom.XY, geom.XYZ, geom.XYZM}[r.Intn(3)]
	n -= n % layout.Stride()
	flat := make([]float64, n)
	for i := range flat {
		flat[i] = float64(i%9973) + 0.25
	}
	t := geom.NewLineStringFlat(layout, flat)
	c.SetInput(map[string]any{"type": "LineString", "layout": layout.String(), "ordinates": n, "ordinate_i": "(i mod 9973) + 0.25"})
	var cl *geom.LineString
	if c.Guard("panic", func() { cl = t.Clone() }) {
		return
	}
	c.Eval(1)
	c.Count("giant_clones")
	c.Distinct(fmt.Sprintf("giant/%s/%d", layout, n))
	cf := cl.FlatCoords()
	if len(cf) != n {
		c.Fail("clone-not-equal", "clone of %d ordinates has %d", n, len(cf))
		return
	}
	for i := range cf {
		if cf[i] != float64(i%9973)+0.25 {
			c.Fail("clone-not-equal", "clone of a LineString of %d ordinates: ordinate %d is %v, the original's is %v", n, i, cf[i], flat[i])
			return
		}
	}
	cf[n-1], cf[0], cf[n/2] = -1, -1, -1
	if flat[n-1] == -1 || flat[0] == -1 || flat[n/2] == -1 {
		c.Fail("shared-storage", "writing the clone of %d ordinates shows in the original", n)
	}
}

// (d) every length: geometries of exactly idx coordinates for idx = 0, 1, 2, ...
// in strides 2, 3, 4 and four types - a copy made in blocks of any size has its
// boundary at some length, and no sampling of "round" sizes knows which.
func c16EveryLength(c *fw.Ctx, idx int) {
	for _, layout := range []geom.Layout{geom.XY, geom.XYZ, geom.XYZM} {
		stride := layout.Stride()
		n := idx * stride
		for kind := 0; kind < 4; kind++ {
			flat := make([]float64, n)
			for i := range flat {
				flat[i] = float64(i%9973) + 0.25
			}
			var t geom.T
			switch kind {
			case 0:
				t = geom.NewLineStringFlat(layout, flat)
			case 1:
				t = geom.NewMultiPointFlat(layout, flat)
			case 2:
				t = geom.NewPolygonFlat(layout, flat, []int{stride * (idx / 3), n})
			default:
				t = geom.NewMultiPolygonFlat(layout, flat, [][]int{{stride * (idx / 2)}, {}, {n}})
			}
			c.SetInput(map[string]any{"type": fmt.Sprintf("%T", t), "layout": layout.String(), "coordinates": idx, "ordinate_i": "(i mod 9973) + 0.25"})
			var cl geom.T
			if c.Guard("panic", func() {
				if idx%2 == 1 {
					// a part handed out by an accessor is grown by its holder first: what
					// it outgrew is the geometry's own array
					switch x := t.(type) {
					case *geom.Polygon:
						if x.NumLinearRings() > 0 {
							x.LinearRing(0).Reserve(idx + 50)
						}
					case *geom.MultiPolygon:
						if x.NumPolygons() > 0 {
							x.Polygon(0).Reserve(idx + 50)
						}
					}
				}
				cl = c01Clone(t)
			}) {
				return
			}
			c.Eval(1)
			cf := cl.FlatCoords()
			if len(cf) != n {
				c.Fail("clone-not-equal", "clone of %d ordinates has %d", n, len(cf))
				return
			}
			for i := range cf {
				if cf[i] != float64(i%9973)+0.25 {
					c.Fail("clone-not-equal", "clone of a %T of %d ordinates: ordinate %d is %v, the original's is %v", t, n, i, cf[i], flat[i])
					return
				}
			}
			if !model.IntsEq(cl.Ends(), t.Ends()) || len(cl.Endss()) != len(t.Endss()) {
				c.Fail("clone-not-equal", "clone of a %T of %d ordinates: ends %v / %v, the original's %v / %v", t, n, cl.Ends(), cl.Endss(), t.Ends(), t.Endss())
				return
			}
			for i, e := range t.Endss() {
				if !model.IntsEq(cl.Endss()[i], e) {
					c.Fail("clone-not-equal", "clone of a %T of %d ordinates: endss %v, the original's %v", t, n, cl.Endss(), t.Endss())
					return
				}
			}
			if n > 0 {
				cf[n-1], cf[0] = -1, -1
				if flat[n-1] == -1 || flat[0] == -1 {
					c.Fail("shared-storage", "writing the clone of a %T of %d ordinates shows in the original", t, n)
					return
				}
			}
		}
	}
	c.Count("lengths_cloned_in_3_strides_and_4_types")
	if idx%1000 == 0 {
		c.Distinct(fmt.Sprintf("every-length/%d", idx))
	}
}

func init() {
	fw.Register(&fw.Monitor{
		ID:     "C16",
		Title:  "Clone returns an equal geometry that shares no storage",
		Rule:   "Point/LineString/LinearRing/Polygon/MultiPoint/MultiLineString/MultiPolygon in all layouts, built with exact, spare-capacity (flat, ends and every endss row; Reserve) and empty-non-nil storage; clone and clone-of-clone compared by deep bitwise snapshots; mutation histories of 1..20 steps (write every FlatCoords()[i] and the spare capacity, bump every end offset, Push, Reverse, SetCoords, TransformInPlace, Swap, SetSRID, Reserve) applied to any of the three, the other two must keep their snapshot after every step; Coord and Bounds clones with Set/Extend/Set/SetCoords. distinct_nontrivial = distinct (type, layout, storage class, empty) combinations",
		Assume: []string{"snapshots compare length and bits, never DeepEqual"},
		Classes: []fw.Class{
			{Name: "geometries", Quick: 120000, Thorough: 8000000, Run: c16Geoms},
			{Name: "coord-bounds", Quick: 60000, Thorough: 2000000, Run: c16CoordBounds},
			{Name: "huge", Quick: 48, Thorough: 4800, Chunk: 3, Run: c16Huge},
			{Name: "giants", Quick: 6, Thorough: 40, Chunk: 1, Run: c16Giants},
			{Name: "every-length", Quick: 12001, Thorough: 40001, Chunk: 50, Run: c16EveryLength, Exhaustive: "every length from 0 to the class count in coordinates, strides 2-4, LineString/MultiPoint/Polygon/MultiPolygon"},
		},
		Require: []string{"storage_spare-capacity", "storage_empty-non-nil", "mut_Push", "mut_write every FlatCoords()[i]", "mut_bump ends", "mut_Reverse", "mut_SetCoords", "mut_TransformInPlace", "mut_Swap with a fresh geometry", "mut_SetSRID", "coord_clones", "bounds_clones", "mut_Bounds.Extend", "mut_Bounds.Set", "mut_Bounds.SetCoords"},
	})
}
