package mon

import (
	"bytes"
	"encoding/json"
	"fmt"
	"math"
	"strconv"
	"strings"

	geom "github.com/twpayne/go-geom"
	"github.com/twpayne/go-geom/encoding/geojson"

	"verifharness/fw"
	"verifharness/gen"
	"verifharness/model"
	"verifharness/ref"
)

// C07 - GeoJSON round-trips geometries, features and collections; decoding is total.

var c07Layouts = []geom.Layout{geom.XY, geom.XY, geom.XYZ, geom.XYM, geom.XYZM, geom.Layout(5), geom.Layout(6), geom.Layout(8)}

func c07Finite(r *fw.Rand) func(*fw.Rand, int) []float64 {
	cl := gen.FiniteClass(r)
	return func(r *fw.Rand, stride int) []float64 {
		c := gen.Coord(r, stride, cl)
		for i := range c {
			if math.IsNaN(c[i]) || math.IsInf(c[i], 0) {
				c[i] = 1
			}
			if r.Chance(1, 60) {
				c[i] = []float64{math.Copysign(0, -1), math.MaxFloat64, 5e-324, 1e21, 1e-7, 0.1, 1e20, 123456.789}[r.Intn(8)]
			}
		}
		return c
	}
}

func c07Model(r *fw.Rand) *model.G {
	so := gen.ShapeOpts{CoordFn: c07Finite(r)}
	if r.Chance(1, 4) {
		return gen.Collection(r, gen.SmallInt, gen.CollOpts{Shape: so, Layouts: c07Layouts, MixLayouts: true, MaxDepth: 3, MaxMembers: 4}, 0)
	}
	return gen.Shape(r, gen.Kinds6[r.Intn(6)], c07Layouts[r.Intn(len(c07Layouts))], gen.SmallInt, so)
}

// firstPositionMissing: the path coords[0][0]... does not reach a position.
func firstPositionMissing(g *model.G) bool {
	switch g.Kind {
	case model.Point:
		return len(g.C0) == 0
	case model.LineString, model.MultiPoint:
		return len(g.C1) == 0 || len(g.C1[0]) == 0
	case model.Polygon, model.MultiLineString:
		return len(g.C2) == 0 || len(g.C2[0]) == 0
	case model.MultiPolygon:
		return len(g.C3) == 0 || len(g.C3[0]) == 0 || len(g.C3[0][0]) == 0
	}
	return false
}

// geojsonExpect returns what the JSON must denote (jsonView), what decoding must
// return (decoded) and whether the format can carry the geometry back at all.
func geojsonExpect(g *model.G) (jsonView, decoded *model.G, readable bool) {
	// geojson.DefaultLayout is a knob the caller may turn: a geometry without any
	// position comes back in that layout, and a geometry whose first position is
	// missing can be read only if its own layout is that one
	def := geojson.DefaultLayout
	jsonView = g.Clone()
	readable = true
	var fix func(x *model.G, dec bool)
	fix = func(x *model.G, dec bool) {
		x.SRID = 0
		if x.Kind == model.Collection {
			x.Fixed = false
			x.Layout = geom.NoLayout
			for _, m := range x.Members {
				fix(m, dec)
			}
			return
		}
		if x.Layout == geom.XYM {
			x.Layout = geom.XYZ
		}
		if x.IsEmpty() {
			x.Layout = geom.XY
			if dec {
				x.Layout = def
			}
			if x.Kind == model.MultiPoint && len(x.C1) > 0 {
				readable = false // only empty members: the first null position cannot be read
			}
			return
		}
		if x.Kind == model.MultiPoint {
			for _, m := range x.C1 {
				if len(m) == 0 {
					readable = false
				}
			}
		}
		if x.Layout != def && firstPositionMissing(x) {
			readable = false
		}
	}
	decoded = g.Clone()
	fix(jsonView, false)
	fix(decoded, true)
	return jsonView, decoded, readable
}

func c07Geometry(c *fw.Ctx, idx int) {
	r := c.R
	g := c07Model(r)
	c.SetInput(map[string]any{"geometry": g.String()})
	t := spareStored(c, g, g.BuildFlat())
	var data []byte
	var err error
	if c.R.Chance(1, 4) {
		codecNoise(c)
	}
	if r.Chance(1, 5) {
		// the caller sets the layout empty geometries are to be given, for this case
		geojson.DefaultLayout = []geom.Layout{geom.XYZ, geom.XYZM, geom.XY}[r.Intn(3)]
		c.Count("default_layout_set_to_" + geojson.DefaultLayout.String())
		defer func() { geojson.DefaultLayout = geom.XY }()
	}
	if r.Chance(1, 4) {
		// the intermediate value Encode hands out is an ordinary value: decoding it
		// once, twice, and marshalling it after that all see the same geometry
		var eg *geojson.Geometry
		var d1, d2 geom.T
		var e0, e1, e2, e3 error
		var j1, j2 []byte
		if c.Guard("panic", func() {
			eg, e0 = geojson.Encode(t)
			if e0 == nil {
				j1, e3 = json.Marshal(eg)
				d1, e1 = eg.Decode()
				d2, e2 = eg.Decode()
				if e3 == nil {
					j2, e3 = json.Marshal(eg)
				}
			}
		}) {
			return
		}
		c.Eval(4)
		if e0 == nil {
			c.Count("encode_results_decoded_twice")
			if (e1 == nil) != (e2 == nil) || e3 != nil || !bytes.Equal(j1, j2) {
				c.Fail("decode-not-repeatable", "Encode(g).Decode() twice: errors %v / %v; json.Marshal of the same value before and after: equal=%v (err %v)", e1, e2, bytes.Equal(j1, j2), e3)
				return
			}
			if e1 == nil && d1 != nil && d2 != nil && !isNilGeom(d1) && !isNilGeom(d2) {
				if m1, m2 := model.FromGeom(d1), model.FromGeom(d2); m1 != nil && m2 != nil {
					if df := model.Equal(m1, m2, model.Opts{}); df != "" {
						c.Fail("decode-not-repeatable", "the second Decode() of the value Encode returned differs from the first: %s", df)
						return
					}
				}
			}
		}
	}
	if c.Guard("panic", func() { data, err = geojson.Marshal(t) }) {
		return
	}
	c.Eval(1)
	if err != nil {
		c.Fail("marshal-error", "geojson.Marshal failed on a finite geometry: %v", err)
		return
	}
	c.SetInput(map[string]any{"geometry": g.String(), "geojson": clipStr(string(data), 700)})
	// the returned bytes must stay what they are while other geometries are encoded
	held := append([]byte{}, data...)
	for k := 0; k < 2; k++ {
		og := c07Model(r)
		c.Guard("panic", func() { geojson.Marshal(og.BuildFlat()) })
	}
	c.Count("held_results_rechecked")
	if !bytes.Equal(held, data) {
		c.Fail("result-invalidated", "the slice returned by geojson.Marshal changed after later Marshal calls: now %s", clipStr(string(data), 300))
		return
	}
	// a *Geometry returned by Encode belongs to the caller: it may be edited, or
	// reused as the target of a json.Unmarshal of something else.  Whatever the
	// caller does to it, encoding the same geometry again gives the same document
	if r.Chance(1, 3) {
		var eg *geojson.Geometry
		var again []byte
		var e2 error
		if c.Guard("panic", func() {
			eg, e2 = geojson.Encode(t)
			if e2 != nil || eg == nil {
				return
			}
			c07Scribble(r, eg)
			again, e2 = geojson.Marshal(t)
		}) {
			return
		}
		c.Eval(1)
		c.Count("encode_results_edited_by_the_caller")
		if e2 != nil || !bytes.Equal(again, held) {
			c.Fail("history-dependent", "after the caller edited a *Geometry it got from Encode, geojson.Marshal of the same geometry gives err=%v and %s; before it gave %s", e2, clipStr(string(again), 300), clipStr(string(held), 300))
			return
		}
	}
	jv, dec, readable := geojsonExpect(g)
	c.Count("kind_" + g.Kind.String())
	if !g.IsEmpty() {
		c.Distinct(g.Sig())
	}
	// independent reader
	tree, jerr := ref.ReadJSON(data)
	if jerr != nil {
		c.Fail("invalid-json", "the independent JSON reader rejects the output: %v", jerr)
		return
	}
	rg, gerr := ref.GeoJSONToModel(tree)
	if gerr != nil {
		c.Fail("not-geojson", "the output is not an RFC 7946 geometry object: %v", gerr)
		return
	}
	c.Eval(1)
	if d := model.Equal(jv, rg, model.Opts{}); d != "" {
		c.Fail("reference-reader-differs", "an independent reader understands the GeoJSON differently: %s", d)
		return
	}
	// decode
	var back geom.T
	if c.Guard("panic", func() { err = geojson.Unmarshal(data, &back) }) {
		return
	}
	c.Eval(1)
	if !readable {
		c.Count("format_cannot_carry_back")
		if err == nil && back != nil {
			wfCheck(c, "geojson.Unmarshal (unreadable class)", back)
		}
		return
	}
	if err != nil {
		c.Fail("unmarshal-error", "geojson.Unmarshal rejected the library's own output: %v", err)
		return
	}
	c.Count("roundtrips_compared")
	if g.HasEmptyBetween() {
		c.Count("with_empty_component_before_nonempty")
	}
	expectGeom(c, "geojson.Unmarshal(Marshal(g))", back, dec, model.Opts{})
	// Encode / Decode are the same functions one level down
	var gg *geojson.Geometry
	if c.Guard("panic", func() { gg, err = geojson.Encode(t) }) || err != nil {
		return
	}
	var t2 geom.T
	if c.Guard("panic", func() { t2, err = gg.Decode() }) {
		return
	}
	c.Eval(1)
	if err == nil {
		expectGeom(c, "Geometry.Decode(Encode(g))", t2, dec, model.Opts{})
	} else {
		c.Fail("decode-error", "(*Geometry).Decode failed on Encode output: %v", err)
	}
	if c.WantSample() && len(data) < 200 && !g.IsEmpty() {
		c.Sample(map[string]any{"geometry": g.String(), "geojson": string(data)})
	}
	if r.Chance(1, 3) {
		// decoded geometries are the caller's own
		callerScribbles(c, back)
		callerScribbles(c, t2)
	}
}

// c07Scribble overwrites everything reachable from an encoded Geometry the
// caller owns: the bytes of the raw messages in place, then the messages, then
// the whole value through json.Unmarshal of another document.
func c07Scribble(r *fw.Rand, eg *geojson.Geometry) {
	for _, rm := range []*json.RawMessage{eg.Coordinates, eg.BBox, eg.Geometries} {
		if rm == nil {
			continue
		}
		for i := range *rm {
			(*rm)[i] = '9'
		}
		*rm = append((*rm)[:0], `[[7,8],[9,10]]`...)
	}
	if r.Bool() {
		_ = json.Unmarshal([]byte(`{"type":"LineString","coordinates":[[1,2],[3,4]],"bbox":[1,2,3,4]}`), eg)
	} else {
		_ = json.Unmarshal([]byte(`{"type":"GeometryCollection","geometries":[{"type":"Point","coordinates":[5,6]}]}`), eg)
	}
}

// c07Huge: one coordinate array of 65,536 .. 1.2 million positions (on and next
// to powers of two), or that many parts: marshalled, read back, compared
func c07Huge(c *fw.Ctx, idx int) {
	r := c.R
	n := []int{1<<20 + 1, 1 << 16, 1<<16 + 1, 1<<17 + 1, 1 << 20, 1<<18 + 1, 1<<19 + 3, 70000}[idx%8]
	if idx >= 8 {
		n = hugeFloats(r, 1)
	}
	layout := []geom.Layout{geom.XY, geom.XYZ}[r.Intn(2)]
	stride := layout.Stride()
	flat := make([]float64, n*stride)
	for i := range flat {
		flat[i] = float64(i%1000) + 0.5
	}
	var t geom.T
	how := ""
	switch idx % 3 {
	case 0:
		t, how = geom.NewLineStringFlat(layout, flat), "LineString"
	case 1:
		t, how = geom.NewMultiPointFlat(layout, flat), "MultiPoint"
	default:
		ends := make([]int, 0, n/2)
		for e := 2 * stride; e <= len(flat); e += 2 * stride {
			ends = append(ends, e)
		}
		t, how = geom.NewMultiLineStringFlat(layout, flat[:ends[len(ends)-1]], ends), "MultiLineString of two-point lines"
	}
	c.SetInput(map[string]any{"geometry": how, "layout": layout.String(), "positions": n, "ordinate_i": "(i mod 1000) + 0.5"})
	var data []byte
	var err error
	if c.Guard("panic", func() { data, err = geojson.Marshal(t) }) {
		return
	}
	c.Eval(1)
	if err != nil {
		c.Fail("marshal-error", "geojson.Marshal failed on a geometry of %d positions: %v", n, err)
		return
	}
	var back geom.T
	if c.Guard("panic", func() { err = geojson.Unmarshal(data, &back) }) {
		return
	}
	c.Eval(1)
	if err != nil {
		c.Fail("unmarshal-error", "geojson.Unmarshal rejected the library's own output for a %s of %d positions (%d bytes): %v", how, n, len(data), err)
		return
	}
	c.Count("huge_roundtrips")
	c.Distinct(fmt.Sprintf("huge/%s/%d", how, n))
	// the same document with one position an ordinate short and another an ordinate
	// long (the total is unchanged): an error, or a well-formed geometry - never
	// positions silently shifted
	if idx%3 == 0 || idx%3 == 1 {
		doc := string(data)
		short, long := "[0.5,1.5]", "[0.5,1.5,2.5]"
		if stride == 3 {
			short, long = "[0.5,1.5,2.5]", "[0.5,1.5,2.5,3.5]"
		}
		_ = short
		// position 0 is (0.5, 1.5[, 2.5]): lengthen it, and shorten the position after the middle
		i0 := strings.Index(doc, short)
		if i0 >= 0 {
			rag := doc[:i0] + long + doc[i0+len(short):]
			mid := len(rag) / 2
			if j := strings.Index(rag[mid:], "],["); j >= 0 {
				// drop the last ordinate of the position ending at mid+j
				k := strings.LastIndex(rag[:mid+j], ",")
				rag = rag[:k] + rag[mid+j:]
				var rb geom.T
				var rerr error
				if c.Guard("panic", func() { rerr = geojson.Unmarshal([]byte(rag), &rb) }) {
					return
				}
				c.Eval(1)
				c.Count("huge_ragged_documents")
				if rerr == nil && rb != nil && !isNilGeom(rb) {
					if !wfCheck(c, "geojson.Unmarshal of a ragged document", rb) {
						return
					}
					c.Fail("accepted-invalid", "a %s of %d positions in which one position has an ordinate too many and another one too few was accepted", how, n)
					return
				}
			}
		}
	}
	if back == nil || isNilGeom(back) {
		c.Fail("nil-geometry", "nil geometry decoded")
		return
	}
	if d := snap(t).diff(snap(back)); d != "" {
		c.Fail("not-equal", "a %s of %d positions does not come back equal: %s", how, n, d)
	}
}

// ---- features ----

func c07JSONValue(r *fw.Rand, depth int) any {
	switch k := r.Intn(9); {
	case k == 0:
		return nil
	case k == 1:
		return r.Bool()
	case k == 2:
		return float64(r.Range(-1000000, 1000000))
	case k == 3:
		return math.Round(r.Float01()*1e6) / 1e3
	case k == 4 || k == 5:
		return c07String(r)
	case k == 6 && depth < 3:
		n := r.Intn(4)
		a := make([]any, n)
		for i := range a {
			a[i] = c07JSONValue(r, depth+1)
		}
		return a
	case k == 7 && depth < 3:
		n := r.Intn(4)
		m := map[string]any{}
		for i := 0; i < n; i++ {
			m[c07String(r)] = c07JSONValue(r, depth+1)
		}
		return m
	default:
		return float64(r.Intn(10))
	}
}

func c07String(r *fw.Rand) string {
	pool := []string{"", "a", "name", "id", "héllo", "日本", "😀", "quote\"back\\slash", "tab\tnl\n", "<script>&", " ", "123", "1e5", "null", " spaced "}
	s := pool[r.Intn(len(pool))]
	if r.Chance(1, 3) {
		s += strconv.Itoa(r.Intn(1000))
	}
	return s
}

func canonJSON(v any) string {
	b, err := json.Marshal(v)
	if err != nil {
		return "ERR:" + err.Error()
	}
	return string(b)
}

func c07Bounds(r *fw.Rand) *geom.Bounds {
	if r.Chance(1, 3) {
		return nil
	}
	l := geom.XY
	if r.Bool() {
		l = geom.XYZ
	}
	if r.Chance(1, 4) {
		l = []geom.Layout{geom.XYM, geom.XYZM}[r.Intn(2)]
	}
	n := l.Stride()
	args := make([]float64, 2*n)
	// RFC 7946 section 5.2: a bounding box that crosses the antimeridian has its
	// west edge greater than its east edge; "keeps its bounding box" means the 4
	// or 6 numbers come back as they were, so one case in four leaves the first
	// axis (one in eight every axis) in the order generated
	keepOrder := 0
	switch r.Intn(8) {
	case 0, 1:
		keepOrder = 1
	case 2:
		keepOrder = n
	}
	for i := 0; i < n; i++ {
		a, b := gen.Float(r, gen.LonLat), gen.Float(r, gen.LonLat)
		if a > b && i >= keepOrder {
			a, b = b, a
		}
		args[i], args[i+n] = a, b
	}
	return geom.NewBounds(l).Set(args...)
}

func boundsEq(a, b *geom.Bounds) string {
	if a == nil || b == nil {
		if a == b {
			return ""
		}
		return fmt.Sprintf("one bbox is nil (%v vs %v)", a == nil, b == nil)
	}
	// a GeoJSON bbox has 4 or 6 numbers (RFC 7946 section 5): of a box with an M
	// range the X, Y (and Z) ranges are what is written and what comes back
	wantL := a.Layout()
	switch wantL {
	case geom.XYM:
		wantL = geom.XY
	case geom.XYZM:
		wantL = geom.XYZ
	}
	if wantL != b.Layout() {
		return fmt.Sprintf("bbox layout %s (from a %s box) vs %s", wantL, a.Layout(), b.Layout())
	}
	for i := 0; i < wantL.Stride(); i++ {
		if a.Min(i) != b.Min(i) || a.Max(i) != b.Max(i) {
			return fmt.Sprintf("bbox dimension %d [%v,%v] vs [%v,%v]", i, a.Min(i), a.Max(i), b.Min(i), b.Max(i))
		}
	}
	return ""
}

func c07MakeFeature(r *fw.Rand) (*geojson.Feature, *model.G, bool) {
	f := &geojson.Feature{}
	switch r.Intn(4) {
	case 0:
		f.ID = ""
	case 1:
		f.ID = strconv.Itoa(r.Intn(100000)) // numeric-looking string stays a string
	default:
		f.ID = c07String(r)
	}
	f.BBox = c07Bounds(r)
	var gm *model.G
	readable := true
	if !r.Chance(1, 5) {
		for {
			gm = c07Model(r)
			_, _, readable = geojsonExpect(gm)
			if readable {
				break
			}
		}
		f.Geometry = gm.BuildFlat()
	}
	switch r.Intn(4) {
	case 0:
		f.Properties = nil
	case 1:
		f.Properties = map[string]interface{}{}
	default:
		f.Properties = map[string]interface{}{}
		for i := 0; i < r.Range(1, 4); i++ {
			f.Properties[c07String(r)] = c07JSONValue(r, 0)
		}
	}
	return f, gm, readable
}

func c07CompareFeature(c *fw.Ctx, how string, want *geojson.Feature, wantG *model.G, got *geojson.Feature) bool {
	if got == nil {
		c.Fail("feature-lost", "%s: feature is nil", how)
		return false
	}
	if got.ID != want.ID {
		c.Fail("feature-id", "%s: id %q came back as %q", how, want.ID, got.ID)
		return false
	}
	if d := boundsEq(want.BBox, got.BBox); d != "" {
		c.Fail("feature-bbox", "%s: %s", how, d)
		return false
	}
	if a, b := canonJSON(want.Properties), canonJSON(got.Properties); a != b {
		c.Fail("feature-properties", "%s: properties %s came back as %s", how, clipStr(a, 300), clipStr(b, 300))
		return false
	}
	if wantG == nil {
		if got.Geometry != nil && !isNilGeom(got.Geometry) {
			c.Fail("feature-geometry", "%s: null geometry came back as %T", how, got.Geometry)
			return false
		}
		c.Count("feature_null_geometry")
		return true
	}
	_, dec, _ := geojsonExpect(wantG)
	return expectGeom(c, how+" geometry", got.Geometry, dec, model.Opts{})
}

// decode targets that live as long as the worker process
var (
	c07ReusedFeature geojson.Feature
	c07ReusedFC      geojson.FeatureCollection
)

func c07Feature(c *fw.Ctx, idx int) {
	r := c.R
	f, gm, _ := c07MakeFeature(r)
	gs := "null"
	if gm != nil {
		gs = gm.String()
	}
	c.SetInput(map[string]any{"id": f.ID, "geometry": gs, "properties": clipStr(canonJSON(f.Properties), 300), "bbox": f.BBox != nil})
	var data []byte
	var err error
	if c.Guard("panic", func() { data, err = f.MarshalJSON() }) {
		return
	}
	c.Eval(1)
	if err != nil {
		c.Fail("marshal-error", "Feature.MarshalJSON failed: %v", err)
		return
	}
	if _, jerr := ref.ReadJSON(data); jerr != nil {
		c.Fail("invalid-json", "Feature JSON rejected by the independent reader: %v", jerr)
		return
	}
	c.Count("features")
	if f.ID == "" {
		c.Count("feature_id_absent")
	}
	c.Distinct(fmt.Sprintf("feature/%v/%v/%v/%d", f.ID == "", f.BBox != nil, gm == nil, len(f.Properties)))
	var back geojson.Feature
	if c.Guard("panic", func() { err = back.UnmarshalJSON(data) }) {
		return
	}
	c.Eval(1)
	if err != nil {
		c.Fail("unmarshal-error", "Feature.UnmarshalJSON rejected MarshalJSON output %s: %v", clipStr(string(data), 300), err)
		return
	}
	if !c07CompareFeature(c, "Feature round trip", f, gm, &back) {
		return
	}
	// the caller changes the feature's geometry in place - the same positions in the
	// opposite order - and marshals the same Feature value again: the document is
	// that of the geometry as it is now
	if gm != nil && gm.Kind != model.Collection && !gm.IsEmpty() && r.Chance(1, 3) {
		fcs, st := f.Geometry.FlatCoords(), f.Geometry.Stride()
		n := len(fcs) / st
		for i, j := 0, n-1; i < j; i, j = i+1, j-1 {
			for k := 0; k < st; k++ {
				fcs[i*st+k], fcs[j*st+k] = fcs[j*st+k], fcs[i*st+k]
			}
		}
		gm2 := model.FromGeom(f.Geometry)
		var data2 []byte
		if c.Guard("panic", func() { data2, err = f.MarshalJSON() }) {
			return
		}
		c.Eval(1)
		var back2 geojson.Feature
		if err == nil {
			if c.Guard("panic", func() { err = back2.UnmarshalJSON(data2) }) {
				return
			}
		}
		c.Count("feature_marshalled_again_after_its_geometry_was_changed_in_place")
		if err != nil {
			c.Fail("marshal-error", "Feature marshalled again after an in-place change of its geometry: %v", err)
			return
		}
		if !c07CompareFeature(c, "Feature marshalled again after its positions were reversed in place", f, gm2, &back2) {
			return
		}
		gm = gm2
		data = data2
	}
	// decoding into a Feature value that still holds the previous case's result
	// must give the same as decoding into a fresh one
	// (members a document may omit - id, bbox - keep their old value in a reused
	// target, as with any Go JSON decoding; the caller clears them, the geometry
	// and the properties are always written, a null geometry as nil)
	if f.ID == "" {
		c07ReusedFeature.ID = ""
	}
	if f.BBox == nil {
		c07ReusedFeature.BBox = nil
	}
	if c.Guard("panic", func() { err = c07ReusedFeature.UnmarshalJSON(data) }) {
		return
	}
	c.Eval(1)
	c.Count("decoded_into_reused_feature")
	if err != nil {
		c.Fail("unmarshal-error", "Feature.UnmarshalJSON into a used Feature rejected MarshalJSON output: %v", err)
		return
	}
	if !c07CompareFeature(c, "Feature decoded into a Feature value used before", f, gm, &c07ReusedFeature) {
		return
	}
	// the same through encoding/json and inside a FeatureCollection
	nf := r.Intn(4)
	fc := &geojson.FeatureCollection{BBox: c07Bounds(r)}
	var models []*model.G
	fc.Features = append(fc.Features, f)
	models = append(models, gm)
	for i := 0; i < nf; i++ {
		f2, g2, _ := c07MakeFeature(r)
		fc.Features = append(fc.Features, f2)
		models = append(models, g2)
	}
	if r.Chance(1, 6) {
		fc.Features = nil
		models = nil
	}
	if c.Guard("panic", func() { data, err = json.Marshal(fc) }) {
		return
	}
	c.Eval(1)
	if err != nil {
		c.Fail("marshal-error", "FeatureCollection marshal failed: %v", err)
		return
	}
	var fcb geojson.FeatureCollection
	if c.Guard("panic", func() { err = json.Unmarshal(data, &fcb) }) {
		return
	}
	c.Eval(1)
	if err != nil {
		c.Fail("unmarshal-error", "FeatureCollection unmarshal rejected its own output: %v", err)
		return
	}
	c.Count("feature_collections")
	if d := boundsEq(fc.BBox, fcb.BBox); d != "" {
		c.Fail("collection-bbox", "FeatureCollection %s", d)
		return
	}
	if len(fcb.Features) != len(fc.Features) {
		c.Fail("collection-size", "FeatureCollection of %d features came back with %d", len(fc.Features), len(fcb.Features))
		return
	}
	for i := range fc.Features {
		if !c07CompareFeature(c, fmt.Sprintf("FeatureCollection feature %d", i), fc.Features[i], models[i], fcb.Features[i]) {
			return
		}
	}
	// ... and into a FeatureCollection value used before
	if fc.BBox == nil {
		c07ReusedFC.BBox = nil
	}
	if c.Guard("panic", func() { err = json.Unmarshal(data, &c07ReusedFC) }) {
		return
	}
	c.Eval(1)
	if err != nil {
		c.Fail("unmarshal-error", "FeatureCollection unmarshal into a used value rejected its own output: %v", err)
		return
	}
	if d := boundsEq(fc.BBox, c07ReusedFC.BBox); d != "" {
		c.Fail("collection-bbox", "FeatureCollection decoded into a value used before: %s", d)
		return
	}
	if len(c07ReusedFC.Features) != len(fc.Features) {
		c.Fail("collection-size", "FeatureCollection of %d features decoded into a value used before has %d", len(fc.Features), len(c07ReusedFC.Features))
		return
	}
	for i := range fc.Features {
		if !c07CompareFeature(c, fmt.Sprintf("FeatureCollection (reused value) feature %d", i), fc.Features[i], models[i], c07ReusedFC.Features[i]) {
			return
		}
	}
}

// numeric ids written by other producers are normalised to their decimal string
func c07NumericID(c *fw.Ctx, idx int) {
	r := c.R
	var lit string
	var want string
	switch r.Intn(4) {
	case 0:
		v := r.Range(-1000000, 1000000)
		lit, want = strconv.Itoa(v), strconv.Itoa(v)
	case 1:
		v := int64(r.Uint64() % (1 << 53))
		lit, want = strconv.FormatInt(v, 10), strconv.FormatInt(v, 10)
	case 2:
		v := float64(r.Range(-100000, 100000)) / 8
		lit = strconv.FormatFloat(v, 'f', -1, 64)
		want = lit
	default:
		v := float64(r.Range(1, 999))
		lit = strconv.FormatFloat(v, 'e', -1, 64) // exponent spelling of an integer
		want = strconv.FormatFloat(v, 'f', -1, 64)
	}
	doc := fmt.Sprintf(`{"type":"Feature","id":%s,"geometry":{"type":"Point","coordinates":[1,2]},"properties":{"k":%s}}`, lit, lit)
	c.SetInput(map[string]any{"json": doc})
	var f geojson.Feature
	var err error
	if c.Guard("panic", func() { err = f.UnmarshalJSON([]byte(doc)) }) {
		return
	}
	c.Eval(1)
	c.Count("numeric_ids")
	c.Distinct("numid/" + lit)
	if err != nil {
		c.Fail("numeric-id-rejected", "a Feature with numeric id %s was rejected: %v", lit, err)
		return
	}
	if f.ID != want {
		c.Fail("feature-id", "numeric id %s came back as %q, want %q", lit, f.ID, want)
	}
}

// c07Foreign decodes Feature and FeatureCollection documents as other software
// writes them: members in any order, "id" / "bbox" / "geometry" / "properties"
// present, null or left out, string ids spelt with escapes.  Every document is
// decoded into fresh values; a member that is left out is nil / "" in the result,
// whatever the members before it (in the same collection or in earlier calls) had.
func c07Foreign(c *fw.Ctx, idx int) {
	r := c.R
	type spec struct {
		idLit, id string
		geomState int // 0 absent, 1 null, 2 point
		x, y      int
		propState int // 0 absent, 1 null, 2 object
		propKey   string
		propVal   int
		bbox      bool
		doc       string
	}
	idLits := []string{`"a\/b"`, `"\ud83d\ude00"`, `"caf\u00e9"`, `"q\"uote"`, `"back\\slash"`, `"tab\there"`, `"plain"`, `"\u0041\/\u0042"`, `"x\ud834\udd1ey"`, `17`, `2.5`}
	n := r.Range(1, 6)
	specs := make([]*spec, n)
	var docs []string
	for i := range specs {
		sp := &spec{geomState: r.Intn(3), x: r.Range(-900, 900), y: i, propState: r.Intn(3), propKey: fmt.Sprintf("k%d", r.Intn(4)), propVal: r.Range(0, 99), bbox: r.Chance(1, 3)}
		if r.Chance(2, 3) {
			sp.idLit = idLits[r.Intn(len(idLits))]
			var v any
			if err := json.Unmarshal([]byte(sp.idLit), &v); err != nil {
				panic(err)
			}
			switch t := v.(type) {
			case string:
				sp.id = t
			case float64:
				sp.id = strconv.FormatFloat(t, 'f', -1, 64)
			}
		}
		members := []string{`"type":"Feature"`}
		if sp.idLit != "" {
			members = append(members, `"id":`+sp.idLit)
		}
		switch sp.geomState {
		case 1:
			members = append(members, `"geometry":null`)
		case 2:
			members = append(members, fmt.Sprintf(`"geometry":{"type":"Point","coordinates":[%d,%d]}`, sp.x, sp.y))
		}
		switch sp.propState {
		case 1:
			members = append(members, `"properties":null`)
		case 2:
			members = append(members, fmt.Sprintf(`"properties":{"%s":%d}`, sp.propKey, sp.propVal))
		}
		if sp.bbox {
			members = append(members, fmt.Sprintf(`"bbox":[%d,%d,%d,%d]`, sp.x, sp.y, sp.x+1, sp.y+1))
		}
		shuffled := make([]string, len(members))
		for a, b := range r.Perm(len(members)) {
			shuffled[a] = members[b]
		}
		sp.doc = "{" + strings.Join(shuffled, ",") + "}"
		specs[i] = sp
		docs = append(docs, sp.doc)
	}
	check := func(how string, i int, f *geojson.Feature) bool {
		sp := specs[i]
		if f == nil {
			c.Fail("foreign-document", "%s: member %d is nil", how, i)
			return false
		}
		if f.ID != sp.id {
			c.Fail("feature-id", "%s: member %d (%s) has id %q, want %q", how, i, sp.doc, f.ID, sp.id)
			return false
		}
		switch sp.geomState {
		case 0, 1:
			if f.Geometry != nil && !isNilGeom(f.Geometry) {
				c.Fail("foreign-document", "%s: member %d (%s) has no geometry in the document but decodes with %T %v", how, i, sp.doc, f.Geometry, f.Geometry.FlatCoords())
				return false
			}
		default:
			p, ok := f.Geometry.(*geom.Point)
			if !ok || len(p.FlatCoords()) != 2 || p.FlatCoords()[0] != float64(sp.x) || p.FlatCoords()[1] != float64(sp.y) {
				c.Fail("foreign-document", "%s: member %d (%s) decodes with geometry %T %v", how, i, sp.doc, f.Geometry, f.Geometry)
				return false
			}
		}
		switch sp.propState {
		case 0, 1:
			if len(f.Properties) != 0 {
				c.Fail("foreign-document", "%s: member %d (%s) has no properties in the document but decodes with %s", how, i, sp.doc, canonJSON(f.Properties))
				return false
			}
		default:
			if want := fmt.Sprintf(`{"%s":%d}`, sp.propKey, sp.propVal); canonJSON(f.Properties) != want {
				c.Fail("foreign-document", "%s: member %d (%s) decodes with properties %s", how, i, sp.doc, canonJSON(f.Properties))
				return false
			}
		}
		if (f.BBox != nil) != sp.bbox {
			c.Fail("feature-bbox", "%s: member %d (%s): bbox present in the result: %v, in the document: %v", how, i, sp.doc, f.BBox != nil, sp.bbox)
			return false
		}
		if sp.bbox && (f.BBox.Min(0) != float64(sp.x) || f.BBox.Max(1) != float64(sp.y+1)) {
			c.Fail("feature-bbox", "%s: member %d (%s) decodes with bbox %v", how, i, sp.doc, f.BBox)
			return false
		}
		return true
	}
	coll := `{"features":[` + strings.Join(docs, ",") + `],"type":"FeatureCollection"}`
	c.SetInput(map[string]any{"json": coll})
	var fc geojson.FeatureCollection
	var err error
	if c.Guard("panic", func() { err = json.Unmarshal([]byte(coll), &fc) }) {
		return
	}
	c.Eval(1)
	c.Count("foreign_collections")
	if err != nil {
		c.Fail("foreign-document", "a valid FeatureCollection document was rejected: %v", err)
		return
	}
	if len(fc.Features) != n {
		c.Fail("foreign-document", "collection of %d features decodes with %d", n, len(fc.Features))
		return
	}
	for i, f := range fc.Features {
		if !check("in a FeatureCollection", i, f) {
			return
		}
	}
	// the same members as documents of their own, one call after the other
	for i, sp := range specs {
		var f geojson.Feature
		if c.Guard("panic", func() { err = json.Unmarshal([]byte(sp.doc), &f) }) {
			return
		}
		c.Eval(1)
		c.Count("foreign_features")
		if err != nil {
			c.Fail("foreign-document", "a valid Feature document was rejected: %s: %v", sp.doc, err)
			return
		}
		if !check("as a document of its own, decoded into a fresh Feature after the members before it", i, &f) {
			return
		}
		c.Distinct(fmt.Sprintf("foreign/%d/%d/%v/%s", sp.geomState, sp.propState, sp.bbox, sp.idLit))
	}
	// geometry collections: one with complete members, then members that leave
	// "coordinates" out (empty geometries of their type) or "type" (an error)
	full := fmt.Sprintf(`{"type":"GeometryCollection","geometries":[{"type":"Point","coordinates":[%d,8]},{"type":"LineString","coordinates":[[1,2],[3,%d]]},{"type":"Polygon","coordinates":[[[0,0],[4,0],[4,4],[0,0]]]}]}`, r.Range(1, 99), r.Range(1, 99))
	bare := `{"geometries":[{"type":"Point"},{"type":"LineString"},{"type":"Polygon"},{"type":"MultiPoint"}],"type":"GeometryCollection"}`
	untyped := `{"type":"GeometryCollection","geometries":[{"coordinates":[1,2]}]}`
	var g1, g2, g3 geom.T
	var e1, e2, e3 error
	c.SetInput(map[string]any{"json": full + "  then  " + bare + "  then  " + untyped})
	if c.Guard("panic", func() {
		e1 = geojson.Unmarshal([]byte(full), &g1)
		e2 = geojson.Unmarshal([]byte(bare), &g2)
		e3 = geojson.Unmarshal([]byte(untyped), &g3)
	}) {
		return
	}
	c.Eval(3)
	c.Count("collections_with_members_missing_keys")
	if e1 != nil || e2 != nil {
		c.Fail("foreign-document", "valid GeometryCollection documents were rejected: %v / %v", e1, e2)
		return
	}
	if e3 == nil {
		c.Fail("foreign-document", "a GeometryCollection member without \"type\" was accepted (after a collection with complete members had been decoded): %v", g3)
		return
	}
	gc, ok := g2.(*geom.GeometryCollection)
	if !ok || gc.NumGeoms() != 4 {
		c.Fail("foreign-document", "collection of four members without coordinates decodes as %T", g2)
		return
	}
	for i, m := range gc.Geoms() {
		if m == nil || isNilGeom(m) || len(m.FlatCoords()) != 0 {
			c.Fail("foreign-document", "member %d of %s has no coordinates in the document but decodes as %T with ordinates %v (a collection with complete members had been decoded before)", i, bare, m, flatOf(m))
			return
		}
	}
}

func flatOf(t geom.T) []float64 {
	if t == nil || isNilGeom(t) {
		return nil
	}
	return t.FlatCoords()
}

// c07EveryLength: a line string, a multipoint and a polygon ring of exactly idx
// positions, idx = 0, 1, 2, ..., in XY and XYZ: marshalled, read by encoding/json
// as plain arrays (every number in its place), unmarshalled again (equal), with and
// without a bounding box.
func c07EveryLength(c *fw.Ctx, idx int) {
	n := idx
	for _, layout := range []geom.Layout{geom.XY, geom.XYZ} {
		stride := layout.Stride()
		flat := make([]float64, n*stride)
		for i := range flat {
			flat[i] = float64(i%9973) + 0.25
		}
		var ts []geom.T
		ts = append(ts, geom.NewLineStringFlat(layout, flat), geom.NewMultiPointFlat(layout, flat))
		if n >= 4 {
			ring := append([]float64{}, flat...)
			copy(ring[(n-1)*stride:], ring[:stride])
			ts = append(ts, geom.NewPolygonFlat(layout, ring, []int{len(ring)}))
		}
		for _, t := range ts {
			c.SetInput(map[string]any{"geometry": fmt.Sprintf("%T %s of exactly %d positions, ordinate i = (i mod 9973) + 0.25", t, layout, n)})
			var b []byte
			var err error
			var opts []geojson.EncodeGeometryOption
			if idx%3 == 1 && n > 0 {
				opts = append(opts, geojson.EncodeGeometryWithBBox())
			}
			if c.Guard("panic", func() { b, err = geojson.Marshal(t, opts...) }) {
				return
			}
			c.Eval(1)
			if err != nil {
				c.Fail("marshal-error", "Marshal of a %T of %d positions failed: %v", t, n, err)
				return
			}
			var doc struct {
				Type        string          `json:"type"`
				Coordinates json.RawMessage `json:"coordinates"`
			}
			if e := json.Unmarshal(b, &doc); e != nil {
				c.Fail("invalid-json", "Marshal of a %T of %d positions is not JSON: %v", t, n, e)
				return
			}
			var pos [][]float64
			src := doc.Coordinates
			if _, isPoly := t.(*geom.Polygon); isPoly {
				var rings [][][]float64
				if e := json.Unmarshal(src, &rings); e != nil || len(rings) != 1 {
					c.Fail("json-differs", "polygon of one ring of %d positions: coordinates do not read as one ring (%v)", n, e)
					return
				}
				pos = rings[0]
			} else if e := json.Unmarshal(src, &pos); e != nil && n > 0 {
				c.Fail("json-differs", "%T of %d positions: coordinates do not read as an array of positions: %v", t, n, e)
				return
			}
			want := t.FlatCoords()
			if len(pos) != n {
				c.Fail("json-differs", "%T of %d positions: the JSON holds %d", t, n, len(pos))
				return
			}
			for i, p := range pos {
				if len(p) != stride {
					c.Fail("json-differs", "%T of %d positions: position %d has %d numbers", t, n, i, len(p))
					return
				}
				for k := range p {
					if p[k] != want[i*stride+k] {
						c.Fail("json-differs", "%T of %d positions: position %d reads %v, the geometry has %v", t, n, i, p, want[i*stride:(i+1)*stride])
						return
					}
				}
			}
			if n == 0 {
				continue // an empty geometry carries no layout in GeoJSON
			}
			if n%25 == 0 {
				// the value Encode hands out, decoded twice
				var d1, d2 geom.T
				var e1, e2 error
				if c.Guard("panic", func() {
					eg, e0 := geojson.Encode(t)
					if e0 != nil {
						e1 = e0
						return
					}
					d1, e1 = eg.Decode()
					d2, e2 = eg.Decode()
				}) {
					return
				}
				c.Eval(2)
				if e1 != nil || e2 != nil || d1 == nil || d2 == nil || !model.BitsEq(d1.FlatCoords(), want) || !model.BitsEq(d2.FlatCoords(), want) {
					c.Fail("decode-not-repeatable", "%T of %d positions: Encode(g).Decode() twice: errors %v / %v, ordinates %d / %d of %d", t, n, e1, e2, lenFlat(d1), lenFlat(d2), len(want))
					return
				}
			}
			var back geom.T
			if c.Guard("panic", func() { err = geojson.Unmarshal(b, &back) }) {
				return
			}
			c.Eval(1)
			if err != nil || back == nil || back.Layout() != layout || !model.BitsEq(back.FlatCoords(), want) || fmt.Sprintf("%T", back) != fmt.Sprintf("%T", t) {
				c.Fail("not-equal", "%T of %d positions does not come back from Unmarshal(Marshal()): err=%v, %T", t, n, err, back)
				return
			}
		}
	}
	c.Count("lengths_marshalled_and_read_back")
	if idx%1000 == 0 {
		c.Distinct(fmt.Sprintf("every-length/%d", idx))
	}
}

func lenFlat(t geom.T) int {
	if t == nil || isNilGeom(t) {
		return -1
	}
	return len(t.FlatCoords())
}

// ---- decoder totality ----

func c07CheckDecoders(c *fw.Ctx, data []byte, class string) {
	c.SetRawInput(map[string]any{"class": class, "json": clipStr(fmt.Sprintf("%q", data), 900)}, data)
	c.Count("decode_" + class)
	var t geom.T
	var err error
	if c.Guard("panic", func() { err = geojson.Unmarshal(data, &t) }) {
		return
	}
	c.Eval(1)
	if err == nil {
		c.Count("geometry_decoder_accepted")
		if t != nil && !isNilGeom(t) {
			if !wfCheck(c, "geojson.Unmarshal", t) {
				return
			}
			c.Distinct("dec/" + model.FromGeom(t).Sig())
		}
	} else {
		c.Count("geometry_decoder_error")
		c.Guard("panic", func() { _ = err.Error() })
	}
	var f geojson.Feature
	if c.Guard("panic", func() { err = f.UnmarshalJSON(data) }) {
		return
	}
	c.Eval(1)
	if err == nil {
		c.Count("feature_decoder_accepted")
		if f.Geometry != nil && !isNilGeom(f.Geometry) {
			if !wfCheck(c, "Feature.UnmarshalJSON", f.Geometry) {
				return
			}
		}
	} else {
		c.Guard("panic", func() { _ = err.Error() })
	}
	var fc geojson.FeatureCollection
	if c.Guard("panic", func() { err = fc.UnmarshalJSON(data) }) {
		return
	}
	c.Eval(1)
	if err == nil {
		c.Count("collection_decoder_accepted")
		for _, ft := range fc.Features {
			if ft != nil && ft.Geometry != nil && !isNilGeom(ft.Geometry) {
				if !wfCheck(c, "FeatureCollection.UnmarshalJSON", ft.Geometry) {
					return
				}
			}
		}
	} else {
		c.Guard("panic", func() { _ = err.Error() })
	}
}

// structural mutation of a parsed JSON tree
func c07MutateTree(r *fw.Rand, v any, depth int) any {
	if r.Chance(1, 6) || depth > 12 {
		switch r.Intn(10) {
		case 0:
			return nil
		case 1:
			return "str"
		case 2:
			return float64(r.Range(-3, 3))
		case 3:
			return []any{}
		case 4:
			return map[string]any{}
		case 5:
			return []any{v, v}
		case 6:
			return []any{[]any{v}}
		case 7:
			return true
		case 8:
			return json.RawMessage(`1e400`)
		default:
			return []any{1.0}
		}
	}
	switch x := v.(type) {
	case map[string]any:
		out := map[string]any{}
		for k, e := range x {
			if r.Chance(1, 12) {
				continue // drop a member
			}
			if r.Chance(1, 12) {
				k = []string{"type", "coordinates", "geometries", "geometry", "features", "bbox", "id", "properties", "crs"}[r.Intn(9)]
			}
			out[k] = c07MutateTree(r, e, depth+1)
		}
		if r.Chance(1, 10) {
			out["type"] = []any{"Point", "LineString", "Polygon", "MultiPoint", "MultiLineString", "MultiPolygon", "GeometryCollection", "Feature", "FeatureCollection", "Bogus", 5.0, nil}[r.Intn(12)]
		}
		return out
	case []any:
		out := make([]any, 0, len(x)+1)
		for _, e := range x {
			if r.Chance(1, 15) {
				continue
			}
			out = append(out, c07MutateTree(r, e, depth+1))
			if r.Chance(1, 20) {
				out = append(out, nil)
			}
		}
		return out
	}
	return v
}

func c07Decoders(c *fw.Ctx, idx int) {
	r := c.R
	// a valid base document of one of the three kinds
	var base []byte
	switch r.Intn(3) {
	case 0:
		base, _ = geojson.Marshal(c07Model(r).BuildFlat())
	case 1:
		f, _, _ := c07MakeFeature(r)
		base, _ = f.MarshalJSON()
	default:
		fc := &geojson.FeatureCollection{BBox: c07Bounds(r)}
		for i := 0; i < r.Intn(3); i++ {
			f, _, _ := c07MakeFeature(r)
			fc.Features = append(fc.Features, f)
		}
		base, _ = json.Marshal(fc)
	}
	switch r.Intn(6) {
	case 0:
		c07CheckDecoders(c, base, "valid")
	case 1, 2:
		var tree any
		if json.Unmarshal(base, &tree) != nil {
			return
		}
		m := c07MutateTree(r, tree, 0)
		data, err := json.Marshal(m)
		if err != nil {
			return
		}
		c07CheckDecoders(c, data, "structure-mutation")
	case 3:
		b := append([]byte{}, base...)
		k := r.Range(1, 3)
		chars := `{}[],:"0123456789.-eE null true false \u0000` + "\x00\xff"
		for i := 0; i < k && len(b) > 0; i++ {
			p := r.Intn(len(b))
			switch r.Intn(3) {
			case 0:
				b = append(b[:p], b[p+1:]...)
			case 1:
				b[p] = chars[r.Intn(len(chars))]
			default:
				b = append(b[:p], append([]byte{chars[r.Intn(len(chars))]}, b[p:]...)...)
			}
		}
		c07CheckDecoders(c, b, "byte-mutation")
	case 4:
		// deep nesting and huge exponents in coordinates
		var sb strings.Builder
		d := r.Range(1, 300)
		sb.WriteString(`{"type":"` + []string{"Point", "LineString", "Polygon", "MultiPolygon", "GeometryCollection"}[r.Intn(5)] + `","coordinates":`)
		sb.WriteString(strings.Repeat("[", d))
		sb.WriteString([]string{"1,2", "1e999,2", "1", "", "null", `"x"`, "1,2,3,4,5,6,7,8,9"}[r.Intn(7)])
		sb.WriteString(strings.Repeat("]", d))
		sb.WriteString(`,"geometries":[{"type":"Point"},null,{"type":"GeometryCollection","geometries":[null]}]}`)
		c07CheckDecoders(c, []byte(sb.String()), "deep-or-huge")
	default:
		n := r.Intn(80)
		b := make([]byte, n)
		chars := `{}[],:"typecoordinatesPointFeature0123456789.-eE nul`
		for i := range b {
			if r.Chance(1, 4) {
				b[i] = byte(r.Uint64())
			} else {
				b[i] = chars[r.Intn(len(chars))]
			}
		}
		c07CheckDecoders(c, b, "random-bytes")
	}
}

func c07RawReplay(c *fw.Ctx, raw []byte) { c07CheckDecoders(c, raw, "replay") }

var _ = bytes.Equal

func init() {
	fw.Register(&fw.Monitor{
		ID:     "C07",
		Title:  "GeoJSON round-trips geometries, features and collections; decoding is total",
		Rule:   "models with finite ordinates in XY/XYZ/XYM/XYZM/Layout(5,6,8), nested collections with mixed member layouts: geojson.Marshal output must be valid JSON for an independent RFC 8259 reader, denote the same type/nesting/numbers (numbers converted exactly), and Unmarshal / Geometry.Decode must return the model after the format's carve-outs (XYM->XYZ, empties->default layout; non-XY with empty first component and multipoints with empty members need not read back but must give an error or a well-formed geometry); Features (ids absent/ascii/unicode/escapes/numeric-looking, bbox of 4/6 numbers or none, random JSON property maps, null geometry) and FeatureCollections round trip; numeric ids normalise to their decimal string; decoders fed valid documents, structure-aware mutations, byte mutations, deep nesting/huge exponents and random bytes must not panic and must return an error or well-formed geometries. distinct_nontrivial = distinct shape signatures + feature shapes + numeric ids",
		Assume: []string{"reference JSON reader in harness/ref (RFC 8259 grammar, RFC 7946 appendix A vectors)", "properties are compared through encoding/json canonical output"},
		Classes: []fw.Class{
			{Name: "geometry-roundtrip", Quick: 80000, Thorough: 1500000, Run: c07Geometry},
			{Name: "features", Quick: 40000, Thorough: 500000, Run: c07Feature},
			{Name: "numeric-ids", Quick: 3000, Thorough: 100000, Run: c07NumericID},
			{Name: "foreign-documents", Quick: 20000, Thorough: 400000, Run: c07Foreign},
			{Name: "every-length", Quick: 4501, Thorough: 20001, Chunk: 40, Run: c07EveryLength, Exhaustive: "line string, multipoint and polygon ring of every number of positions from 0 to the class count"},
			{Name: "huge", Quick: 4, Thorough: 48, Chunk: 1, Run: c07Huge},
			{Name: "decoders", Quick: 300000, Thorough: 8000000, Run: c07Decoders, RawReplay: c07RawReplay},
		},
		Extra: fuzzExtra("C07", 2000000),
		Require: []string{"held_results_rechecked", "roundtrips_compared", "format_cannot_carry_back", "with_empty_component_before_nonempty", "kind_GeometryCollection", "features", "feature_null_geometry", "feature_id_absent", "feature_collections", "numeric_ids",
			"decode_valid", "decode_structure-mutation", "decode_byte-mutation", "decode_deep-or-huge", "decode_random-bytes", "geometry_decoder_accepted", "geometry_decoder_error", "feature_decoder_accepted", "collection_decoder_accepted"},
	})
}
