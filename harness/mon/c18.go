package mon

import (
	"encoding/json"
	"fmt"
	"math"
	"math/big"
	"strings"

	geom "github.com/twpayne/go-geom"
	"github.com/twpayne/go-geom/encoding/geojson"
	"github.com/twpayne/go-geom/encoding/wkt"

	"verifharness/exact"
	"verifharness/fw"
	"verifharness/gen"
	"verifharness/model"
	"verifharness/ref"
)

// C18 - decimal-digit limits round correctly and keep the output well formed.

// c18Value draws an ordinate aimed at the rounding logic for d digits.
func c18Value(r *fw.Rand, d int) float64 {
	unit := math.Pow(10, -float64(d))
	switch r.Intn(13) {
	case 12: // on or next to the ends of the integer types and digit-count boundaries (2^31, 2^53, 2^63, 2^64, 10^k)
		return gen.Float(r, gen.IntEdge)
	case 0: // straddling a rounding boundary (k + 1/2) units
		k := float64(r.Range(-2000, 2000))
		return gen.NextAfterN((k+0.5)*unit, r.Range(-3, 3))
	case 1: // straddling a representable multiple
		k := float64(r.Range(-2000, 2000))
		return gen.NextAfterN(k*unit, r.Range(-3, 3))
	case 2: // exact binary ties and classics
		return []float64{0.125, 0.375, 2.5, 0.5, 1.5, 9.9995, 0.99999, 99.9999999, 100.0004, -0.0004, 0.0004, 0.05, 0.15, 0.25, 1e-7, 123456.789}[r.Intn(16)]
	case 3: // rounds across a power of ten
		p := math.Pow(10, float64(r.Range(-3, 6)))
		return gen.NextAfterN(p-0.5*unit, r.Range(-2, 2)) * float64(1-2*r.Intn(2))
	case 4: // rounds to zero / to -0
		return (r.Float01() - 0.5) * unit
	case 5:
		return []float64{math.Copysign(0, -1), 0, 5e-324, -5e-324, 1e21, -1e21, 1.7e308, -1.7e308, math.MaxFloat64, 2.2250738585072014e-308, 1e15 + 0.5, 4503599627370497.5}[r.Intn(12)]
	case 6:
		return gen.Float(r, gen.LonLat)
	case 7:
		return gen.Float(r, gen.Moderate)
	case 8:
		return gen.Float(r, gen.Wide)
	case 9:
		return float64(r.Range(-1000, 1000))
	case 10: // many nines
		return float64(r.Range(0, 99)) + 1 - math.Pow(10, -float64(r.Range(1, 16)))
	default:
		return r.FiniteBits()
	}
}

func c18Model(r *fw.Rand, d int, layouts []geom.Layout, valid bool) *model.G {
	g := c18ModelBase(r, d, layouts, valid)
	l := g.Layout
	if g.Kind == model.Collection {
		l = g.CollectionLayout()
	}
	if mi := l.MIndex(); mi >= 0 && r.Chance(1, 3) {
		// a ring is closed in X, Y (and Z); its closing vertex may carry another M
		c18ClosingM(r, g, mi, d)
	}
	if r.Chance(1, 3) {
		// a track that stands still: consecutive coordinates equal in every ordinate
		// but the last one (time in M, or a Z that drifts)
		c18Stationary(r, g)
	}
	return g
}

func c18Stationary(r *fw.Rand, g *model.G) {
	seq := func(s [][]float64, ring bool) {
		hi := len(s)
		if ring {
			hi-- // the closing vertex stays what it is
		}
		for k := 1; k < hi; k++ {
			if n := len(s[k]); n >= 2 && len(s[k-1]) == n && r.Bool() {
				copy(s[k][:n-1], s[k-1][:n-1])
			}
		}
	}
	switch g.Kind {
	case model.LineString, model.MultiPoint:
		seq(g.C1, false)
	case model.MultiLineString:
		for _, s := range g.C2 {
			seq(s, false)
		}
	case model.Polygon:
		for _, s := range g.C2 {
			seq(s, true)
		}
	case model.MultiPolygon:
		for _, p := range g.C3 {
			for _, s := range p {
				seq(s, true)
			}
		}
	case model.Collection:
		for _, m := range g.Members {
			c18Stationary(r, m)
		}
	}
}

func c18ClosingM(r *fw.Rand, g *model.G, mi, d int) {
	ring := func(seq [][]float64) {
		if len(seq) >= 2 && len(seq[len(seq)-1]) > mi {
			seq[len(seq)-1][mi] = c18Value(r, d)
		}
	}
	switch g.Kind {
	case model.Polygon:
		for _, s := range g.C2 {
			ring(s)
		}
	case model.MultiPolygon:
		for _, p := range g.C3 {
			for _, s := range p {
				ring(s)
			}
		}
	case model.Collection:
		for _, m := range g.Members {
			c18ClosingM(r, m, mi, d)
		}
	}
}

type c18stats struct {
	numbers int
}

// c18CheckNumber judges one emitted numeral against the ordinate it was made from.
func c18CheckNumber(c *fw.Ctx, where, tok string, in float64, d int) bool {
	c.Count("numbers_checked")
	c.Count(fmt.Sprintf("numbers_d%02d", d))
	if strings.ContainsAny(tok, "eE") {
		c.Fail("exponent-form", "%s: %q is in exponent form (input %s, %d digits)", where, tok, fw.F(in), d)
		return false
	}
	body := strings.TrimPrefix(tok, "-")
	if body == "" || strings.ContainsAny(body, "+- ") {
		c.Fail("malformed-number", "%s: %q is not a plain decimal numeral", where, tok)
		return false
	}
	frac := ""
	if i := strings.IndexByte(body, '.'); i >= 0 {
		frac = body[i+1:]
		if frac == "" {
			c.Fail("dangling-point", "%s: %q ends in a decimal point (input %s, %d digits)", where, tok, fw.F(in), d)
			return false
		}
		if i == 0 {
			c.Fail("malformed-number", "%s: %q has no integer part", where, tok)
			return false
		}
	}
	if len(frac) > d {
		c.Fail("too-many-digits", "%s: %q has %d fractional digits, at most %d requested (input %s)", where, tok, len(frac), d, fw.F(in))
		return false
	}
	if strings.HasSuffix(frac, "0") {
		c.Fail("trailing-zero", "%s: %q has a trailing zero after the decimal point (input %s, %d digits)", where, tok, fw.F(in), d)
		return false
	}
	q, ok := new(big.Rat).SetString(tok)
	if !ok {
		c.Fail("malformed-number", "%s: %q does not parse as a decimal", where, tok)
		return false
	}
	// |q - in| <= 1/2 * 10^-d, exactly
	half := new(big.Rat).SetFrac(big.NewInt(1), new(big.Int).Mul(big.NewInt(2), new(big.Int).Exp(big.NewInt(10), big.NewInt(int64(d)), nil)))
	diff := exact.Abs(exact.Sub(q, exact.R(in)))
	if diff.Cmp(half) > 0 {
		c.Fail("rounding-error", "%s: %q differs from the exact input %s by %g, more than half a unit in decimal place %d", where, tok, fw.F(in), exact.F64(diff), d)
		return false
	}
	ratio := exact.F64(exact.Quo(diff, half))
	c.Max("error_over_half_unit", ratio)
	if diff.Cmp(half) == 0 {
		c.Count("exact_ties")
	}
	if q.Sign() == 0 && in != 0 {
		c.Count("rounded_to_zero")
		if strings.HasPrefix(tok, "-") {
			c.Count("rounded_to_minus_zero")
		}
	}
	if in != 0 && q.Sign() != 0 {
		// crossed a power of ten?
		li := math.Floor(math.Log10(math.Abs(in)))
		lq := math.Floor(math.Log10(math.Abs(exact.F64(q))))
		if lq > li {
			c.Count("rounded_across_power_of_ten")
		}
	}
	return true
}

func wktNumberTokens(s string) []string {
	var out []string
	i := 0
	for i < len(s) {
		ch := s[i]
		if ch >= '0' && ch <= '9' || ch == '-' || ch == '.' || ch == '+' {
			j := i
			for j < len(s) && (s[j] >= '0' && s[j] <= '9' || s[j] == '-' || s[j] == '.' || s[j] == '+' || s[j] == 'e' || s[j] == 'E') {
				j++
			}
			out = append(out, s[i:j])
			i = j
			continue
		}
		// skip letters (keywords may contain E or e)
		if ch >= 'A' && ch <= 'Z' || ch >= 'a' && ch <= 'z' {
			for i < len(s) && (s[i] >= 'A' && s[i] <= 'Z' || s[i] >= 'a' && s[i] <= 'z') {
				i++
			}
			continue
		}
		i++
	}
	return out
}

func flattenOrdinates(g *model.G) []float64 {
	var out []float64
	for _, c := range g.AllCoords() {
		out = append(out, c...)
	}
	return out
}

func c18ModelBase(r *fw.Rand, d int, layouts []geom.Layout, valid bool) *model.G {
	cf := func(r *fw.Rand, stride int) []float64 {
		c := make([]float64, stride)
		for i := range c {
			c[i] = c18Value(r, d)
		}
		return c
	}
	// valid: only shapes WKT can express (no empty rings inside a polygon, no one-point lines)
	so := gen.ShapeOpts{CoordFn: cf, MaxPts: 4, Valid: valid}
	layout := layouts[r.Intn(len(layouts))]
	if r.Chance(1, 4) {
		g := &model.G{Kind: model.Collection}
		for i := 0; i < r.Range(0, 3); i++ {
			if r.Chance(1, 4) {
				sub := &model.G{Kind: model.Collection, Fixed: true, Layout: layout}
				for j := 0; j < r.Range(0, 2); j++ {
					sub.Members = append(sub.Members, gen.Shape(r, gen.Kinds6[r.Intn(6)], layout, gen.SmallInt, so))
				}
				g.Members = append(g.Members, sub)
			} else {
				g.Members = append(g.Members, gen.Shape(r, gen.Kinds6[r.Intn(6)], layout, gen.SmallInt, so))
			}
		}
		g.Fixed = true
		g.Layout = layout
		return g
	}
	return gen.Shape(r, gen.Kinds6[r.Intn(6)], layout, gen.SmallInt, so)
}

// encoder and option values that live as long as the worker process
var (
	c18Encoders   [16]*wkt.Encoder
	c18DigitsOpts [16]*geojson.EncodeGeometryOption
	c18BBoxOpt    *geojson.EncodeGeometryOption
)

func c18WKT(c *fw.Ctx, idx int) {
	r := c.R
	d := idx % 16
	g := c18Model(r, d, gen.StdLayouts, true)
	c.SetInput(map[string]any{"format": "wkt", "digits": d, "geometry": g.String()})
	t := spareStored(c, g, g.BuildFlat())
	var text string
	var err error
	if r.Chance(1, 150) {
		// first a large geometry made of this case's own ordinates goes through the
		// plain wkt.Marshal (thousands of ordinates: whatever an encoder keeps about
		// numbers it has formatted, it has now seen these ones without a limit)
		ords := flattenOrdinates(g)
		if len(ords) >= 2 {
			big := make([]float64, 0, 2*5000)
			for len(big) < 2*([]int{2047, 2048, 2049, 4096, 5000}[r.Intn(5)]) {
				big = append(big, ords[len(big)%len(ords)])
			}
			c.Guard("panic", func() {
				wkt.Marshal(geom.NewLineStringFlat(geom.XY, big))
				wkt.NewEncoder().Encode(geom.NewLineStringFlat(geom.XY, big))
			})
			c.Count("large_geometry_of_the_same_ordinates_encoded_without_a_limit_first")
		}
	}
	if c.Guard("panic", func() { text, err = wkt.Marshal(t, wkt.EncodeOptionWithMaxDecimalDigits(d)) }) {
		return
	}
	c.Eval(1)
	if err != nil {
		c.Fail("marshal-error", "wkt.Marshal with %d digits failed: %v", d, err)
		return
	}
	// an Encoder value kept for the life of the process gives the same text,
	// also right after an Encode on it that failed part-way
	if c18Encoders[d] == nil {
		c18Encoders[d] = wkt.NewEncoder(wkt.EncodeOptionWithMaxDecimalDigits(d))
	}
	enc := c18Encoders[d]
	if r.Chance(1, 4) {
		c.Guard("panic", func() {
			// fails before anything is written (unsupported layout of the whole) ...
			bad := geom.NewGeometryCollection().MustPush(geom.NewPointFlat(geom.XY, []float64{7.8, 8.9}), geom.NewLineStringFlat(geom.Layout(5), []float64{1, 2, 3, 4, 5, 6, 7, 8, 9, 10}))
			if r.Bool() {
				// ... or after the first member has been written (a later member without layout)
				bad = geom.NewGeometryCollection().MustPush(geom.NewPointFlat(geom.XY, []float64{7.8, 8.9}), geom.NewLineString(geom.NoLayout))
			}
			if _, e := enc.Encode(bad); e != nil {
				c.Count("failed_encode_on_the_kept_encoder")
			}
		})
	}
	var text2 string
	if c.Guard("panic", func() { text2, err = enc.Encode(t) }) {
		return
	}
	c.Eval(1)
	c.Count("kept_encoder_compared")
	if err != nil || text2 != text {
		c.Fail("encoder-differs", "an Encoder with %d digits used before gave err=%v and %s, wkt.Marshal gave %s", d, err, clipStr(text2, 300), clipStr(text, 300))
		return
	}
	// the digits option given more than once (a caller's defaults followed by an
	// override): the output is that of one of the values asked for - as the code
	// stands the last one - never a mixture of both
	if r.Chance(1, 3) {
		d1 := r.Range(-1, 15)
		var first, both string
		var e1, e2 error
		if c.Guard("panic", func() {
			first, e1 = wkt.Marshal(t, wkt.EncodeOptionWithMaxDecimalDigits(d1))
			both, e2 = wkt.Marshal(t, wkt.EncodeOptionWithMaxDecimalDigits(d1), wkt.EncodeOptionWithMaxDecimalDigits(d))
		}) {
			return
		}
		c.Eval(2)
		c.Count("digits_option_given_twice")
		if e1 != nil || e2 != nil || (both != text && both != first) {
			c.Fail("option-sequence", "digits options %d then %d: err=%v/%v, output %s is neither the %d-digit output %s nor the %d-digit output %s", d1, d, e1, e2, clipStr(both, 200), d, clipStr(text, 200), d1, clipStr(first, 200))
			return
		}
		// and the other way round, ending with the default (no limit)
		var rev, plain string
		if c.Guard("panic", func() {
			plain, e1 = wkt.Marshal(t)
			rev, e2 = wkt.Marshal(t, wkt.EncodeOptionWithMaxDecimalDigits(d), wkt.EncodeOptionWithMaxDecimalDigits(-1))
		}) {
			return
		}
		c.Eval(2)
		if e1 != nil || e2 != nil || (rev != text && rev != plain) {
			c.Fail("option-sequence", "digits options %d then -1: err=%v/%v, output %s is neither the %d-digit output %s nor the unlimited output %s", d, e1, e2, clipStr(rev, 200), d, clipStr(text, 200), clipStr(plain, 200))
			return
		}
	}
	// the option is a function on an Encoder and can be applied to one that exists
	// already (made with another limit, or the zero value): from then on it
	// encodes with the new limit
	if r.Chance(1, 4) {
		var viaOpt string
		var e3 error
		how := "NewEncoder(other limit), then the option applied"
		if c.Guard("panic", func() {
			var enc2 *wkt.Encoder
			if r.Bool() {
				enc2 = wkt.NewEncoder(wkt.EncodeOptionWithMaxDecimalDigits(r.Range(-1, 15)))
				if r.Bool() {
					enc2.Encode(t) // used once with its first limit
					how = "NewEncoder(other limit), one Encode, then the option applied"
				}
			} else {
				enc2 = &wkt.Encoder{}
				how = "zero-value Encoder, then the option applied"
			}
			wkt.EncodeOptionWithMaxDecimalDigits(d)(enc2)
			viaOpt, e3 = enc2.Encode(t)
		}) {
			return
		}
		c.Eval(1)
		c.Count("digits_option_applied_to_an_existing_encoder")
		if e3 != nil || viaOpt != text {
			c.Fail("option-sequence", "%s (%d digits): err=%v, output %s; wkt.Marshal with that limit gives %s", how, d, e3, clipStr(viaOpt, 200), clipStr(text, 200))
			return
		}
	}
	c.SetInput(map[string]any{"format": "wkt", "digits": d, "geometry": g.String(), "output": clipStr(text, 600)})
	ords := flattenOrdinates(g)
	toks := wktNumberTokens(text)
	if len(toks) != len(ords) {
		c.Fail("ordinate-count", "output has %d numbers, the geometry has %d ordinates", len(toks), len(ords))
		return
	}
	for i := range toks {
		if !c18CheckNumber(c, fmt.Sprintf("WKT number %d", i), toks[i], ords[i], d) {
			return
		}
	}
	// still WKT with the same type and structure
	rg, rerr := ref.ReadWKT(text)
	if rerr != nil {
		c.Fail("invalid-output", "the independent WKT reader rejects the output: %v", rerr)
		return
	}
	if rg.Shape() != g.Shape() {
		c.Fail("structure-changed", "output structure %s differs from the geometry's %s", rg.Shape(), g.Shape())
		return
	}
	c.Count("wkt_outputs")
	if len(ords) > 0 {
		c.Distinct(fmt.Sprintf("wkt/%d/%s", d, g.Sig()))
	}
	if c.WantSample() && len(text) < 160 && len(ords) > 0 {
		c.Sample(map[string]any{"digits": d, "geometry": g.String(), "wkt": text})
	}
}

var c18JSONLayouts = []geom.Layout{geom.XY, geom.XYZ, geom.XYZM}

func c18GeoJSON(c *fw.Ctx, idx int) {
	r := c.R
	d := idx % 16
	g := c18Model(r, d, c18JSONLayouts, false)
	withBBox := !g.IsEmpty() && r.Chance(2, 3)
	c.SetInput(map[string]any{"format": "geojson", "digits": d, "bbox": withBBox, "geometry": g.String()})
	t := spareStored(c, g, g.BuildFlat())
	// option values are created once and used for every call of the process (A),
	// or created for the call (B)
	if c18DigitsOpts[d] == nil {
		o := geojson.EncodeGeometryWithMaxDecimalDigits(d)
		c18DigitsOpts[d] = &o
	}
	if c18BBoxOpt == nil {
		o := geojson.EncodeGeometryWithBBox()
		c18BBoxOpt = &o
	}
	optsA := []geojson.EncodeGeometryOption{*c18DigitsOpts[d]}
	optsB := []geojson.EncodeGeometryOption{geojson.EncodeGeometryWithMaxDecimalDigits(d)}
	if withBBox {
		optsA = append(optsA, *c18BBoxOpt)
		optsB = append([]geojson.EncodeGeometryOption{geojson.EncodeGeometryWithBBox()}, optsB...)
	}
	var a, b []byte
	var err, errB error
	if c.Guard("panic", func() { a, err = geojson.Marshal(t, optsA...); b, errB = geojson.Marshal(t, optsB...) }) {
		return
	}
	c.Eval(2)
	if err != nil || errB != nil {
		c.Fail("marshal-error", "geojson.Marshal with %d digits (bbox=%v) failed: %v / %v", d, withBBox, err, errB)
		return
	}
	c.SetInput(map[string]any{"format": "geojson", "digits": d, "bbox": withBBox, "geometry": g.String(), "output": clipStr(string(a), 600)})
	heldA := string(a)
	// an encoded Geometry value held while another geometry is encoded with the
	// same option values must still marshal to the same document
	var heldG *geojson.Geometry
	var heldB []byte
	if c.Guard("panic", func() {
		heldG, err = geojson.Encode(t, optsA...)
		other := c18Model(r, d, c18JSONLayouts, false)
		oo := optsA
		if other.IsEmpty() {
			oo = optsA[:1]
		}
		geojson.Marshal(other.BuildFlat(), oo...)
		geojson.Encode(other.BuildFlat(), oo...)
		if err == nil {
			heldB, err = json.Marshal(heldG)
		}
	}) {
		return
	}
	c.Eval(1)
	if string(a) != heldA {
		c.Fail("result-invalidated", "the slice returned by geojson.Marshal changed after a later Marshal call")
		return
	}
	c.Count("held_encoded_geometry_rechecked")
	if err != nil || string(heldB) != heldA {
		c.Fail("result-invalidated", "a Geometry returned by geojson.Encode, marshalled after another Encode with the same option values, gives err=%v and %s; Marshal gave %s", err, clipStr(string(heldB), 300), clipStr(heldA, 300))
		return
	}
	if string(a) != string(b) {
		c.Fail("option-order", "the two option orders give different output: %s vs %s", clipStr(string(a), 200), clipStr(string(b), 200))
		return
	}
	if r.Chance(1, 3) {
		// a third option (the crs member) in every position among the other two: the
		// coordinates, and the bbox when one was asked for, are what they are without it
		crs := geojson.EncodeGeometryWithCRS(&geojson.CRS{Type: "name", Properties: map[string]interface{}{"name": "urn:ogc:def:crs:OGC:1.3:CRS84"}})
		base := append([]geojson.EncodeGeometryOption{}, optsA...)
		if r.Bool() && len(base) == 2 {
			base[0], base[1] = base[1], base[0]
		}
		for pos := 0; pos <= len(base); pos++ {
			o3 := append(append(append([]geojson.EncodeGeometryOption{}, base[:pos]...), crs), base[pos:]...)
			var with []byte
			var e3 error
			if c.Guard("panic", func() { with, e3 = geojson.Marshal(t, o3...) }) {
				return
			}
			c.Eval(1)
			c.Count("crs_option_among_the_others")
			if e3 != nil {
				c.Fail("marshal-error", "geojson.Marshal with digits, bbox and crs options failed: %v", e3)
				return
			}
			var mw, ma map[string]json.RawMessage
			if json.Unmarshal(with, &mw) != nil || json.Unmarshal(a, &ma) != nil {
				c.Fail("invalid-output", "output with a crs option is not a JSON object: %s", clipStr(string(with), 200))
				return
			}
			for _, key := range []string{"type", "coordinates", "bbox", "geometries"} {
				if string(mw[key]) != string(ma[key]) {
					c.Fail("option-order", "with a crs option at position %d of %d the member %q is %s; without it %s", pos, len(o3), key, clipStr(string(mw[key]), 200), clipStr(string(ma[key]), 200))
					return
				}
			}
		}
	}
	if r.Chance(1, 3) {
		// the digits option given twice: the output of one of the two values, not a mixture
		d1 := r.Range(0, 15)
		o1 := geojson.EncodeGeometryWithMaxDecimalDigits(d1)
		optsC := append([]geojson.EncodeGeometryOption{o1}, optsA...)
		optsD := append([]geojson.EncodeGeometryOption{}, optsA[1:]...)
		optsD = append(optsD, o1)
		var both, first []byte
		var e1, e2 error
		if c.Guard("panic", func() { both, e1 = geojson.Marshal(t, optsC...); first, e2 = geojson.Marshal(t, optsD...) }) {
			return
		}
		c.Eval(2)
		c.Count("digits_option_given_twice")
		if e1 != nil && e2 == nil {
			// as the code stands the second wrapper cannot marshal the first one and
			// geojson.Marshal reports an error: no output, so nothing to judge
			c.Count("digits_option_given_twice_rejected_with_an_error")
		} else if e1 != nil || e2 != nil || (string(both) != heldA && string(both) != string(first)) {
			c.Fail("option-sequence", "digits options %d then %d: err=%v/%v, output %s is neither the %d-digit output %s nor the %d-digit output %s", d1, d, e1, e2, clipStr(string(both), 200), d, clipStr(heldA, 200), d1, clipStr(string(first), 200))
			return
		}
	}
	tree, jerr := ref.ReadJSON(a)
	if jerr != nil {
		c.Fail("invalid-output", "the independent JSON reader rejects the output: %v", jerr)
		return
	}
	rg, gerr := ref.GeoJSONToModel(tree)
	if gerr != nil {
		c.Fail("invalid-output", "the output is not a GeoJSON geometry: %v", gerr)
		return
	}
	jv, _, _ := geojsonExpect(g)
	// number of ordinates per position is judged on the positions themselves
	if rg.Shape() != jv.Shape() {
		// an empty-first-component geometry gets its layout from a later position in the reference reader
		if strings.ReplaceAll(rg.Shape(), rg.CollectionLayout().String(), "") != strings.ReplaceAll(jv.Shape(), jv.CollectionLayout().String(), "") {
			c.Fail("structure-changed", "output structure %s differs from the geometry's %s", rg.Shape(), jv.Shape())
			return
		}
	}
	var nums []ref.JNum
	o := tree.(*ref.JObj)
	if v, ok := o.Vals["coordinates"]; ok {
		ref.JSONNumbers(v, &nums)
	}
	if v, ok := o.Vals["geometries"]; ok {
		c18CollectGeometries(v, &nums)
	}
	ords := flattenOrdinates(g)
	if len(nums) != len(ords) {
		c.Fail("ordinate-count", "output has %d numbers, the geometry has %d ordinates", len(nums), len(ords))
		return
	}
	for i := range nums {
		if !c18CheckNumber(c, fmt.Sprintf("GeoJSON number %d", i), string(nums[i]), ords[i], d) {
			return
		}
	}
	c.Count("geojson_outputs")
	if len(ords) > 0 {
		c.Distinct(fmt.Sprintf("geojson/%d/%v/%s", d, withBBox, g.Sig()))
	}
	if withBBox {
		bv, ok := o.Vals["bbox"].([]any)
		if !ok {
			c.Fail("bbox-missing", "a bounding box was requested but the output has none")
			return
		}
		// exact bounds of the unrounded geometry
		sb := newSemBox(8)
		sb.addModel(g)
		layout := g.CollectionLayout()
		var want []float64
		switch layout {
		case geom.XY, geom.XYM:
			want = []float64{sb.min[0], sb.min[1], sb.max[0], sb.max[1]}
		default:
			want = []float64{sb.min[0], sb.min[1], sb.min[2], sb.max[0], sb.max[1], sb.max[2]}
		}
		if len(bv) != len(want) {
			c.Fail("bbox-wrong", "bbox has %d numbers, want %d for layout %s", len(bv), len(want), layout)
			return
		}
		for i, e := range bv {
			n, ok := e.(ref.JNum)
			if !ok {
				c.Fail("bbox-wrong", "bbox element %d is not a number", i)
				return
			}
			if math.IsInf(want[i], 0) {
				continue
			}
			if !c18CheckNumber(c, fmt.Sprintf("bbox number %d", i), string(n), want[i], d) {
				return
			}
		}
		c.Count("bbox_outputs")
	}
	if c.WantSample() && len(a) < 200 && len(ords) > 0 {
		c.Sample(map[string]any{"digits": d, "geometry": g.String(), "geojson": string(a)})
	}
}

func c18CollectGeometries(v any, nums *[]ref.JNum) {
	arr, ok := v.([]any)
	if !ok {
		return
	}
	for _, e := range arr {
		o, ok := e.(*ref.JObj)
		if !ok {
			continue
		}
		if cv, ok := o.Vals["coordinates"]; ok {
			ref.JSONNumbers(cv, nums)
		}
		if gv, ok := o.Vals["geometries"]; ok {
			c18CollectGeometries(gv, nums)
		}
	}
}

// c18EveryLength: a line string and a polygon ring of exactly idx coordinates,
// idx = 0, 1, 2, ..., in XY, XYZ and XYZM, ordinates k + 0.0625 j (so that the
// rounding to 0..3 digits is known by hand), written as WKT with and without a
// digit limit: the text is read by the independent reader, has exactly idx
// coordinates, and every number is the ordinate rounded half-even/half-up to the
// limit (both are accepted at exact ties).
func c18EveryLength(c *fw.Ctx, idx int) {
	n := idx
	for li, layout := range []geom.Layout{geom.XY, geom.XYZ, geom.XYZM} {
		stride := layout.Stride()
		flat := make([]float64, n*stride)
		for i := range flat {
			flat[i] = float64(i%977) + 0.0625*float64(i%16) // multiples of 1/16: exact in binary and in 4 decimals
		}
		d := []int{-1, 0, 1, 2, 3, 4}[(idx+li)%6]
		var ts []geom.T
		ts = append(ts, geom.NewLineStringFlat(layout, flat))
		if n >= 4 {
			ring := append([]float64{}, flat...)
			copy(ring[(n-1)*stride:], ring[:stride])
			ts = append(ts, geom.NewPolygonFlat(layout, ring, []int{len(ring)}))
		}
		for _, t := range ts {
			c.SetInput(map[string]any{"geometry": fmt.Sprintf("%T %s of exactly %d coordinates, ordinate i = (i mod 977) + (i mod 16)/16", t, layout, n), "digits": d})
			var text string
			var err error
			if c.Guard("panic", func() {
				if d < 0 {
					text, err = wkt.Marshal(t)
				} else {
					text, err = wkt.Marshal(t, wkt.EncodeOptionWithMaxDecimalDigits(d))
				}
			}) {
				return
			}
			c.Eval(1)
			if err != nil {
				c.Fail("marshal-error", "wkt.Marshal of a %T of %d coordinates (digits %d) failed: %v", t, n, d, err)
				return
			}
			rg, rerr := ref.ReadWKT(text)
			if rerr != nil {
				c.Fail("invalid-output", "%T of %d coordinates, digits %d: the independent reader rejects the text: %v (text ends %q)", t, n, d, rerr, text[max(0, len(text)-40):])
				return
			}
			var got [][]float64
			if rg.Kind == model.Polygon {
				if len(rg.C2) != 1 {
					c.Fail("structure-changed", "polygon of one ring reads back with %d rings", len(rg.C2))
					return
				}
				got = rg.C2[0]
			} else {
				got = rg.C1
			}
			want := t.FlatCoords()
			if len(got) != n {
				c.Fail("structure-changed", "%T of %d coordinates, digits %d: the text holds %d", t, n, d, len(got))
				return
			}
			for i, co := range got {
				if len(co) != stride {
					c.Fail("structure-changed", "%T of %d coordinates: coordinate %d is written with %d numbers", t, n, i, len(co))
					return
				}
				for k, v := range co {
					w := want[i*stride+k]
					if d >= 0 && d < 4 {
						sc := math.Pow(10, float64(d))
						lo, hi := math.Floor(w*sc)/sc, math.Ceil(w*sc)/sc
						if v != lo && v != hi || math.Abs(v-w) > 0.5/sc+1e-12 {
							c.Fail("rounding-error", "%T of %d coordinates, digits %d: ordinate %v is written as %v", t, n, d, w, v)
							return
						}
					} else if v != w {
						c.Fail("rounding-error", "%T of %d coordinates, digits %d: ordinate %v is written as %v", t, n, d, w, v)
						return
					}
				}
			}
		}
	}
	c.Count("lengths_written_with_and_without_a_digit_limit")
	if idx%1000 == 0 {
		c.Distinct(fmt.Sprintf("every-length/%d", idx))
	}
}

func init() {
	fw.Register(&fw.Monitor{
		ID:     "C18",
		Title:  "decimal-digit limits round correctly and keep output well formed",
		Rule:   "d = 0..15 (every value, case index mod 16) x ordinates aimed at the rounding logic (values straddling (k+1/2)*10^-d and k*10^-d by 0..3 ulps, binary ties, many nines, values rounding across a power of ten / to zero / to -0, 5e-324, 1e21, 1.7e308, random finite bits) x all geometry types and nested collections; WKT in XY/XYZ/XYM/XYZM, GeoJSON in XY/XYZ/XYZM with and without bbox, both option orders. Each emitted numeral: <= d fractional digits, no trailing zero or dangling point, not in exponent form, |exact(numeral) - exact(input)| <= 1/2*10^-d compared as rationals; output re-read by the independent WKT/JSON readers with unchanged type, structure and ordinate count; bbox numerals are such roundings of the exact bounds. distinct_nontrivial = distinct (format, d, bbox, shape signature)",
		Assume: []string{"math/big exact decimal arithmetic; reference readers in harness/ref"},
		Classes: []fw.Class{
			{Name: "wkt", Quick: 96000, Thorough: 16 * 200000, Run: c18WKT},
			{Name: "geojson", Quick: 96000, Thorough: 16 * 200000, Run: c18GeoJSON},
			{Name: "every-length", Quick: 4501, Thorough: 20001, Chunk: 40, Run: c18EveryLength, Exhaustive: "WKT of a line string and a polygon ring of every number of coordinates from 0 to the class count, three layouts, digit limits none and 0..4"},
		},
		Require: []string{"numbers_checked", "numbers_d00", "numbers_d15", "exact_ties", "rounded_to_zero", "rounded_to_minus_zero", "rounded_across_power_of_ten", "wkt_outputs", "geojson_outputs", "bbox_outputs"},
	})
}
