package mon

import (
	"bytes"
	"fmt"
	"os"
	"os/exec"
	"path/filepath"
	"regexp"
	"strconv"
	"strings"

	"verifharness/fw"
	"verifharness/ref"
)

// Coverage-guided fuzzing (Go's built-in fuzzer, an execution-count bound) is an
// additional workload source in the thorough tier: the fuzzer only supplies
// inputs, the verdict is the same monitor that judges the generated inputs.

// FuzzOne runs the raw-input monitor of a property on one byte string and
// returns the violations it recorded.
func FuzzOne(prop string, data []byte) []string {
	c := fw.NewCtx(prop, "thorough", 1)
	c.Class = "fuzz"
	c.R = fw.NewRand(1, prop, "fuzz", len(data))
	switch prop {
	case "C04":
		c04RawReplay(c, data)
	case "C06":
		c06RawReplay(c, data)
	case "C07":
		c07RawReplay(c, data)
	case "C19":
		c19RawReplay(c, data)
	}
	var out []string
	for _, v := range c.Violations {
		out = append(out, v.Kind+": "+v.Detail)
	}
	return out
}

// FuzzSeeds returns generator outputs used as the seed corpus.
func FuzzSeeds(prop string) [][]byte {
	var out [][]byte
	for i := 0; i < 150; i++ {
		r := fw.NewRand(7, prop, "fuzzseed", i)
		switch prop {
		case "C04":
			m := wkbModes[r.Intn(len(wkbModes))]
			b, _, _ := c04Base(r, m)
			out = append(out, append([]byte{byte(modeIndex(m)), byte(r.Intn(len(c04Configs)))}, b...))
		case "C06":
			st := &ref.WKTStyle{R: r, MixedCase: r.Bool(), Whitespace: r.Bool(), BareMultiPt: r.Bool(), DetachSuffix: r.Bool(), ExponentNums: r.Bool()}
			out = append(out, []byte(st.Spell(c05Model(r))))
			g := &c06gen{r: r}
			out = append(out, []byte(g.geomText(0, r.Range(2, 4))))
		case "C07":
			f, _, _ := c07MakeFeature(r)
			if b, err := f.MarshalJSON(); err == nil {
				out = append(out, b)
			}
		case "C19":
			out = append(out, []byte(c19Seeds[i%len(c19Seeds)]))
		}
	}
	return out
}

var fuzzFailRe = regexp.MustCompile(`Failing input written to (\S+)`)
var fuzzExecsRe = regexp.MustCompile(`execs: (\d+)`)
var fuzzInterestingRe = regexp.MustCompile(`new interesting: (\d+)`)

// fuzzExtra returns the Extra hook that runs the fuzzer for one property.
func fuzzExtra(prop string, execs int) func(p *fw.Parent, s *fw.Summary) {
	return func(p *fw.Parent, s *fw.Summary) {
		if p.Tier != "thorough" {
			return
		}
		ss := fw.WrapSummary(s)
		dir := filepath.Join(fw.VerifDir(), "harness", "fuzz")
		corpus := filepath.Join(dir, "testdata", "fuzz", "Fuzz"+prop)
		os.RemoveAll(filepath.Join(dir, "testdata"))
		defer os.RemoveAll(filepath.Join(dir, "testdata"))
		sh := fmt.Sprintf("ulimit -v 12000000; cd %q && exec go test -tags verif -run '^$' -fuzz '^Fuzz%s$' -fuzztime %dx -parallel 16 .", dir, prop, execs)
		cmd := exec.Command("sh", "-c", sh)
		cmd.Env = append(os.Environ(), "GOFLAGS=-mod=mod", "GOPROXY=off", "GOSUMDB=off", "GOTOOLCHAIN=local")
		var out bytes.Buffer
		cmd.Stdout = &out
		cmd.Stderr = &out
		err := cmd.Run()
		text := out.String()
		if ms := fuzzExecsRe.FindAllStringSubmatch(text, -1); len(ms) > 0 {
			n, _ := strconv.ParseInt(ms[len(ms)-1][1], 10, 64)
			ss.AddCounter("fuzz_executions", n)
			ss.AddEvals(n)
		}
		if ms := fuzzInterestingRe.FindAllStringSubmatch(text, -1); len(ms) > 0 {
			n, _ := strconv.ParseInt(ms[len(ms)-1][1], 10, 64)
			ss.AddCounter("fuzz_new_interesting_inputs", n)
		}
		if err == nil {
			return
		}
		if m := fuzzFailRe.FindStringSubmatch(text); m != nil {
			path := m[1]
			if !filepath.IsAbs(path) {
				path = filepath.Join(dir, path)
			}
			raw := readFuzzCorpusFile(path)
			detail := text
			if i := strings.Index(detail, "--- FAIL"); i >= 0 {
				detail = detail[i:]
			}
			v := fw.Violation{Prop: prop, Class: "mutations", Seed: p.Seed, Tier: p.Tier, Kind: "fuzz-found",
				Detail: clipStr(detail, 3000), Input: map[string]any{"found_by": "coverage-guided fuzzing", "bytes": fmt.Sprintf("%q", clipStr(string(raw), 600))}, RawHex: fmt.Sprintf("%x", raw)}
			if prop == "C19" {
				v.Class = "decode"
			}
			if prop == "C07" {
				v.Class = "decoders"
			}
			v.Key = "fuzz-found:" + v.RawHex
			ss.AddViolation(v)
			return
		}
		_ = corpus
		ss.AddInconclusive("fuzzing run failed without a crasher: " + clipStr(text, 800))
	}
}

func readFuzzCorpusFile(path string) []byte {
	data, err := os.ReadFile(path)
	if err != nil {
		return nil
	}
	for _, line := range strings.Split(string(data), "\n") {
		line = strings.TrimSpace(line)
		if strings.HasPrefix(line, "[]byte(") && strings.HasSuffix(line, ")") {
			q := strings.TrimSuffix(strings.TrimPrefix(line, "[]byte("), ")")
			if s, err := strconv.Unquote(q); err == nil {
				return []byte(s)
			}
		}
	}
	return nil
}
