package mon

import (
	"bufio"
	"bytes"
	"database/sql"
	"database/sql/driver"
	"encoding/binary"
	"encoding/hex"
	"errors"
	"fmt"
	"io"
	"math"
	"strings"

	geom "github.com/twpayne/go-geom"
	"github.com/twpayne/go-geom/encoding/ewkb"
	"github.com/twpayne/go-geom/encoding/ewkbhex"
	"github.com/twpayne/go-geom/encoding/wkb"
	"github.com/twpayne/go-geom/encoding/wkbcommon"
	"github.com/twpayne/go-geom/encoding/wkbhex"

	"verifharness/fw"
	"verifharness/gen"
	"verifharness/model"
	"verifharness/ref"
)

// C03 - WKB/EWKB emit the standard byte layout and decode back to the same geometry.

type wkbMode struct {
	name string
	o    ref.WKBOpts
}

func (m wkbMode) order() binary.ByteOrder {
	if m.o.BigEndian {
		return binary.BigEndian
	}
	return binary.LittleEndian
}

func (m wkbMode) opts() []wkbcommon.WKBOption {
	// every other call passes its option in one slice the caller keeps and rewrites
	// from call to call (the same backing array, another option in it)
	c03OptCalls++
	if c03OptCalls%2 == 0 {
		if m.o.NaNEmptyPoint && !m.o.EWKB {
			c03OptSlot[0] = wkbcommon.WKBOptionEmptyPointHandling(wkbcommon.EmptyPointHandlingNaN)
		} else {
			c03OptSlot[0] = wkbcommon.WKBOptionEmptyPointHandling(wkbcommon.EmptyPointHandlingError) // the default, spelled out
		}
		return c03OptSlot[:]
	}
	if m.o.NaNEmptyPoint && !m.o.EWKB {
		return []wkbcommon.WKBOption{wkbcommon.WKBOptionEmptyPointHandling(wkbcommon.EmptyPointHandlingNaN)}
	}
	return nil
}

var (
	c03OptSlot  [1]wkbcommon.WKBOption
	c03OptCalls int
)

func (m wkbMode) marshal(t geom.T) ([]byte, error) {
	if m.o.EWKB {
		return ewkb.Marshal(t, m.order())
	}
	return wkb.Marshal(t, m.order(), m.opts()...)
}

func (m wkbMode) write(w io.Writer, t geom.T) error {
	if m.o.EWKB {
		return ewkb.Write(w, m.order(), t)
	}
	return wkb.Write(w, m.order(), t, m.opts()...)
}

func (m wkbMode) unmarshal(b []byte) (geom.T, error) {
	if m.o.EWKB {
		return ewkb.Unmarshal(b)
	}
	return wkb.Unmarshal(b, m.opts()...)
}

func (m wkbMode) read(r io.Reader) (geom.T, error) {
	if m.o.EWKB {
		return ewkb.Read(r)
	}
	return wkb.Read(r, m.opts()...)
}

var wkbModes = []wkbMode{
	{"wkb-ndr", ref.WKBOpts{}},
	{"wkb-xdr", ref.WKBOpts{BigEndian: true}},
	{"wkb-nan-ndr", ref.WKBOpts{NaNEmptyPoint: true}},
	{"wkb-nan-xdr", ref.WKBOpts{NaNEmptyPoint: true, BigEndian: true}},
	{"ewkb-ndr", ref.WKBOpts{EWKB: true}},
	{"ewkb-xdr", ref.WKBOpts{EWKB: true, BigEndian: true}},
}

func allEmptyNaN(c []float64) bool {
	if len(c) == 0 {
		return false
	}
	for _, v := range c {
		if math.Float64bits(v) != 0x7FF8000000000000 {
			return false
		}
	}
	return true
}

// decodeExpectation applies the format's carve-outs to the model: what a decoder
// must return for the encoding of g.
func decodeExpectation(g *model.G, m wkbMode) *model.G {
	e := g.Clone()
	var fix func(x *model.G)
	nanIsEmpty := m.o.EWKB || m.o.NaNEmptyPoint
	fix = func(x *model.G) {
		if !m.o.EWKB {
			x.SRID = 0
		}
		switch x.Kind {
		case model.Point:
			if nanIsEmpty && allEmptyNaN(x.C0) {
				x.C0 = nil
			}
		case model.MultiPoint:
			for i := range x.C1 {
				if nanIsEmpty && allEmptyNaN(x.C1[i]) {
					x.C1[i] = nil
				}
			}
		case model.LinearRing:
			x.Kind = model.LineString
		case model.Collection:
			for _, mm := range x.Members {
				fix(mm)
			}
			if len(x.Members) == 0 {
				if !x.Fixed {
					x.Fixed = true
					x.Layout = geom.XY
				}
			} else {
				// a non-empty collection reports the join of its members after decoding
				l := x.CollectionLayout()
				x.Fixed = false
				x.Layout = geom.NoLayout
				_ = l
			}
		}
	}
	fix(e)
	return e
}

// splitReader hands out the bytes in pieces.
type splitReader struct {
	b        []byte
	pos      int
	pattern  int
	r        *fw.Rand
	reads    int
	zeroNext bool
}

func (s *splitReader) Read(p []byte) (int, error) {
	s.reads++
	if len(p) == 0 {
		return 0, nil
	}
	if s.pos >= len(s.b) {
		return 0, io.EOF
	}
	n := len(p)
	switch s.pattern {
	case 0: // one byte at a time
		n = 1
	case 1: // random small chunks
		n = 1 + s.r.Intn(7)
	case 2: // as much as asked, final data together with io.EOF
	case 3: // interleaved zero-length reads: legal for an io.Reader
		if s.zeroNext {
			s.zeroNext = false
			return 0, nil
		}
		s.zeroNext = true
		n = 1 + s.r.Intn(5)
	}
	if n > len(p) {
		n = len(p)
	}
	if n > len(s.b)-s.pos {
		n = len(s.b) - s.pos
	}
	copy(p, s.b[s.pos:s.pos+n])
	s.pos += n
	if s.pattern == 2 && s.pos == len(s.b) {
		return n, io.EOF
	}
	return n, nil
}

var errInjected = errors.New("injected writer failure")

// failWriter accepts limit bytes and then fails.
type failWriter struct {
	limit int
	got   []byte
}

func (f *failWriter) Write(p []byte) (int, error) {
	room := f.limit - len(f.got)
	if len(p) <= room {
		f.got = append(f.got, p...)
		return len(p), nil
	}
	if room > 0 {
		f.got = append(f.got, p[:room]...)
	}
	return room, errInjected
}

// fullThenFailWriter takes every slice whole; on its k-th call (counted from 0)
// it reports the writer's error together with the full count - "everything you
// gave me is written, and the device is gone" - and fails outright afterwards.
type fullThenFailWriter struct {
	k, calls int
	failed   bool
}

func (f *fullThenFailWriter) Write(p []byte) (int, error) {
	if f.failed {
		return 0, errInjected
	}
	f.calls++
	if f.calls-1 == f.k {
		f.failed = true
		return len(p), errInjected
	}
	return len(p), nil
}

// transientFailWriter refuses its k-th Write once (nothing taken, the writer's
// error) and takes every later one: a deadline that expired and was extended.
type transientFailWriter struct{ k, calls int }

func (f *transientFailWriter) Write(p []byte) (int, error) {
	f.calls++
	if f.calls-1 == f.k {
		return 0, errInjected
	}
	return len(p), nil
}

// countWriter counts Write calls.
type countWriter struct{ calls int }

func (w *countWriter) Write(p []byte) (int, error) { w.calls++; return len(p), nil }

func firstDiff(a, b []byte) int {
	n := len(a)
	if len(b) < n {
		n = len(b)
	}
	for i := 0; i < n; i++ {
		if a[i] != b[i] {
			return i
		}
	}
	if len(a) != len(b) {
		return n
	}
	return -1
}

func fieldAt(fields []ref.Field, off int) string {
	best := "body"
	for _, f := range fields {
		w := 4
		if f.Kind == "order" {
			w = 1
		}
		if off >= f.Off && off < f.Off+w {
			return fmt.Sprintf("%s field of %s (depth %d)", f.Kind, f.Type, f.Depth)
		}
	}
	return best
}

// c03Model generates one model in the property's domain.
func c03Model(r *fw.Rand) *model.G {
	cl := gen.AnyClass(r)
	var g *model.G
	if r.Chance(1, 3) {
		g = gen.Collection(r, cl, gen.CollOpts{Layouts: gen.StdLayouts, MixLayouts: r.Bool(), MaxDepth: 4, MaxMembers: 4, FixedChance: 40}, 0)
	} else {
		g = gen.Shape(r, gen.Kinds6[r.Intn(6)], gen.StdLayouts[r.Intn(4)], cl, gen.ShapeOpts{Big: true})
	}
	srids := []int{0, 0, 1, 4326, 1<<31 - 1, 1 << 31, 1<<32 - 1, int(r.Uint64() % (1 << 32)), 3857, 3785, 102113, 900913, 4269, 27700, 2154, 32633, 3784, 3786, 102112, 102114}
	g.SRID = srids[r.Intn(len(srids))]
	if g.Kind == model.Collection && r.Chance(1, 4) {
		memberSRIDs(r, g)
	}
	return g
}

// memberSRIDs gives some members of a collection (recursively) an SRID of their
// own: the enclosing collection's, or a different one.  EWKB carries an SRID per
// geometry, so both must survive a round trip; WKB drops them all.
func memberSRIDs(r *fw.Rand, g *model.G) {
	for _, m := range g.Members {
		switch r.Intn(4) {
		case 0:
			m.SRID = g.SRID
		case 1:
			m.SRID = []int{4326, 3857, 1, 1 << 31}[r.Intn(4)]
		}
		if m.Kind == model.Collection {
			memberSRIDs(r, m)
		}
	}
}

func hasEmptyPoint(g *model.G) bool {
	switch g.Kind {
	case model.Point:
		return len(g.C0) == 0
	case model.MultiPoint:
		for _, c := range g.C1 {
			if len(c) == 0 {
				return true
			}
		}
	case model.Collection:
		for _, m := range g.Members {
			if hasEmptyPoint(m) {
				return true
			}
		}
	}
	return false
}

func c03Sig(g *model.G, m wkbMode) string {
	sc := "srid0"
	switch {
	case g.SRID >= 1<<31:
		sc = "srid>=2^31"
	case g.SRID != 0:
		sc = "srid"
	}
	return m.name + "/" + sc + "/" + g.Sig()
}

func c03Codec(c *fw.Ctx, idx int) {
	r := c.R
	g := c03Model(r)
	m := wkbModes[r.Intn(len(wkbModes))]
	c.SetInput(map[string]any{"geometry": g.String(), "mode": m.name})
	c03CodecOn(c, g, m)
}

// c03EveryLength: a line string, a multipoint and a polygon of exactly idx
// coordinates for idx = 0, 1, 2, ..., one of the six formats each (rotating with
// idx, so that every format meets every residue of idx modulo 2, 3, 5, 7 within
// 420 lengths): everything c03Codec checks.  Encoders and decoders that move
// ordinates in blocks have their seams at some length.
func c03EveryLength(c *fw.Ctx, idx int) {
	n := idx
	layout := gen.StdLayouts[(idx/6)%4]
	stride := layout.Stride()
	m := wkbModes[idx%len(wkbModes)]
	co := func(i int) []float64 {
		v := make([]float64, stride)
		for k := range v {
			v[k] = float64((i*stride+k)%9973) + 0.25
		}
		return v
	}
	line := make([][]float64, n)
	for i := range line {
		line[i] = co(i)
	}
	gs := []*model.G{{Kind: model.LineString, Layout: layout, C1: line}, {Kind: model.MultiPoint, Layout: layout, C1: line}}
	if n >= 4 {
		ring := append(append([][]float64{}, line[:n-1]...), append([]float64{}, line[0]...))
		gs = append(gs, &model.G{Kind: model.Polygon, Layout: layout, C2: [][][]float64{{co(1), co(2), co(3), co(1)}, ring}})
	}
	for _, g := range gs {
		if m.o.EWKB {
			g.SRID = 4326
		}
		c.SetInput(map[string]any{"geometry": fmt.Sprintf("%s %s of exactly %d coordinates, ordinate i = (i mod 9973) + 0.25", g.Kind, layout, n), "mode": m.name})
		c03CodecOn(c, g, m)
	}
	c.Count("lengths_encoded_and_decoded")
}

// c03Huge: coordinate arrays of 65,536 .. 1.2 million ordinates (on and next to
// multiples of 65,536), as a linestring, as a ring after a small ring, as a
// member of a multi-geometry; everything c03Codec checks
func c03Huge(c *fw.Ctx, idx int) {
	r := c.R
	m := wkbModes[r.Intn(len(wkbModes))]
	layout := gen.StdLayouts[r.Intn(4)]
	stride := layout.Stride()
	nbig := hugeFloats(r, stride) / stride
	mk := func(n int) [][]float64 {
		seq := make([][]float64, n)
		for i := range seq {
			co := make([]float64, stride)
			for k := range co {
				co[k] = float64((i*7+k*3)%100003) + 0.5
			}
			seq[i] = co
		}
		return seq
	}
	var g *model.G
	how := ""
	switch r.Intn(6) {
	case 5:
		// collections nested tens to thousands deep around one point
		depth := []int{65, 66, 100, 129, 257, 1000, 1025, 2049}[r.Intn(8)]
		g = &model.G{Kind: model.Point, Layout: layout, C0: mk(1)[0]}
		for i := 0; i < depth; i++ {
			g = &model.G{Kind: model.Collection, Members: []*model.G{g}}
		}
		how = fmt.Sprintf("Point inside %d nested GeometryCollections", depth)
		nbig = depth
	case 0:
		g, how = &model.G{Kind: model.LineString, Layout: layout, C1: mk(nbig)}, "LineString"
	case 1:
		g, how = &model.G{Kind: model.Polygon, Layout: layout, C2: [][][]float64{mk(5), mk(nbig), mk(4)}}, "Polygon [small ring, large ring, small ring]"
	case 2:
		g, how = &model.G{Kind: model.MultiLineString, Layout: layout, C2: [][][]float64{mk(2), {}, mk(nbig)}}, "MultiLineString [small, empty, large]"
	case 3:
		g, how = &model.G{Kind: model.MultiPolygon, Layout: layout, C3: [][][][]float64{{mk(4)}, {mk(4), mk(nbig)}}}, "MultiPolygon [[small], [small, large]]"
	default:
		g, how = &model.G{Kind: model.MultiPoint, Layout: layout, C1: mk(nbig / 8)}, "MultiPoint"
	}
	if m.o.EWKB {
		g.SRID = 4326
	}
	c.SetInput(map[string]any{"geometry": how, "layout": layout.String(), "coordinates_of_the_large_part": nbig, "mode": m.name, "ordinate_k_of_coordinate_i": "((7i+3k) mod 100003) + 0.5"})
	c.Count("huge_" + strings.Fields(how)[0])
	c03CodecOn(c, g, m)
	// the database/sql Valuer of the same geometry
	o := ref.WKBOpts{EWKB: m.o.EWKB}
	if want, _, werr := ref.WriteWKB(g, o); werr == nil && g.Kind != model.Collection {
		w := wkbWrapper(g.Kind, g.BuildFlat())
		if o.EWKB {
			w = ewkbWrapper(g.Kind, g.BuildFlat())
		}
		var v driver.Value
		var err error
		if c.Guard("panic", func() { v, err = w.Value() }) {
			return
		}
		c.Eval(1)
		vb, ok := v.([]byte)
		if err != nil || !ok || !bytes.Equal(vb, want) {
			c.Fail("sql-value-differs", "%s wrapper Value() of the large geometry gave err=%v, %T differing from the standard NDR encoding at %d", m.name, err, v, firstDiff(vb, want))
		}
	}
}

// c03Observed: a line string of more than 4 million ordinates is written to a
// writer that looks at the geometry every time it is called: while it is being
// encoded the geometry must read as it always does (another goroutine may be
// reading it), and the bytes must be the standard ones.  The expected stream is
// generated position by position, not stored.
func c03Observed(c *fw.Ctx, idx int) {
	r := c.R
	n := 4<<20 + 2*r.Range(0, 64)
	if idx%4 == 3 {
		n = 2*(1<<20) + 2*r.Range(0, 8)
	}
	flat := make([]float64, n)
	for i := range flat {
		flat[i] = float64(i%100003) + 0.5
	}
	t := geom.NewLineStringFlat(geom.XY, flat)
	m := []wkbMode{{"wkb-xdr", ref.WKBOpts{BigEndian: true}}, {"ewkb-xdr", ref.WKBOpts{EWKB: true, BigEndian: true}}, {"wkb-ndr", ref.WKBOpts{}}, {"ewkb-ndr", ref.WKBOpts{EWKB: true}}}[idx%4]
	if idx%8 >= 4 {
		m = []wkbMode{{"wkb-xdr", ref.WKBOpts{BigEndian: true}}, {"ewkb-xdr", ref.WKBOpts{EWKB: true, BigEndian: true}}}[idx%2]
	}
	c.SetInput(map[string]any{"geometry": "LineString XY", "ordinates": n, "ordinate_i": "(i mod 100003) + 0.5", "mode": m.name})
	ow := &observingWriter{flat: flat, big: m.o.BigEndian, n: n}
	var err error
	if c.Guard("panic", func() { err = m.write(ow, t) }) {
		return
	}
	c.Eval(1)
	c.Count("geometries_observed_while_being_written")
	c.CountN("write_calls_observed", int64(ow.calls))
	c.Distinct(fmt.Sprintf("observed/%s/%d", m.name, n))
	if err != nil {
		c.Fail("write-error", "%s: Write of a line string of %d ordinates failed: %v", m.name, n, err)
		return
	}
	if ow.changedAt >= 0 {
		c.Fail("argument-modified", "%s: during Write call %d the geometry's ordinate %d read %v instead of %v (the geometry was being modified while it was encoded)", m.name, ow.changedCall, ow.changedAt, ow.changedTo, float64(ow.changedAt%100003)+0.5)
		return
	}
	if ow.badAt >= 0 || ow.pos != 9+8*n {
		c.Fail("bytes-differ", "%s: stream differs from the standard encoding at offset %d (wrote %d bytes, want %d)", m.name, ow.badAt, ow.pos, 9+8*n)
		return
	}
	for i, v := range flat {
		if v != float64(i%100003)+0.5 {
			c.Fail("argument-modified", "%s: after Write ordinate %d reads %v", m.name, i, v)
			return
		}
	}
}

type observingWriter struct {
	flat        []float64
	big         bool
	n, pos      int
	calls       int
	badAt       int
	changedAt   int
	changedCall int
	changedTo   float64
	init        bool
}

func (w *observingWriter) expect(pos int) byte {
	ord := func(v uint32, i int) byte {
		if w.big {
			return byte(v >> (8 * uint(3-i)))
		}
		return byte(v >> (8 * uint(i)))
	}
	switch {
	case pos == 0:
		if w.big {
			return 0
		}
		return 1
	case pos < 5:
		return ord(2, pos-1)
	case pos < 9:
		return ord(uint32(w.n/2), pos-5)
	}
	k := (pos - 9) / 8
	bits := math.Float64bits(float64(k%100003) + 0.5)
	i := (pos - 9) % 8
	if w.big {
		return byte(bits >> (8 * uint(7-i)))
	}
	return byte(bits >> (8 * uint(i)))
}

func (w *observingWriter) Write(p []byte) (int, error) {
	if !w.init {
		w.init, w.badAt, w.changedAt = true, -1, -1
	}
	w.calls++
	// look at the geometry: the first and last 4096 ordinates and a stride through the rest
	if w.changedAt < 0 {
		look := func(i int) {
			if w.changedAt < 0 && w.flat[i] != float64(i%100003)+0.5 {
				w.changedAt, w.changedCall, w.changedTo = i, w.calls, w.flat[i]
			}
		}
		for i := 0; i < 4096 && i < w.n; i++ {
			look(i)
			look(w.n - 1 - i)
		}
		for i := 0; i < w.n; i += 4099 {
			look(i)
		}
	}
	for i, b := range p {
		if w.badAt < 0 && b != w.expect(w.pos+i) {
			w.badAt = w.pos + i
		}
	}
	w.pos += len(p)
	return len(p), nil
}

func c03CodecOn(c *fw.Ctx, g *model.G, m wkbMode) {
	r := c.R
	t := spareStored(c, g, g.BuildFlat())
	if g.Kind == model.Collection && r.Chance(1, 3) {
		// the SRID of a collection set (again) through the generic function after its
		// members were pushed: the members keep the SRIDs they have
		geom.SetSRID(t, g.SRID)
		c.Count("collection_srid_set_after_the_members_were_pushed")
	}
	want, fields, rerr := ref.WriteWKB(g, m.o)
	c.Count("mode_" + m.name)
	// encode
	var got []byte
	var err error
	if r.Chance(1, 4) {
		codecNoise(c)
	}
	if c.Guard("panic", func() { got, err = m.marshal(t) }) {
		return
	}
	c.Eval(1)
	if rerr != nil {
		// the reference says this geometry has no encoding in this mode
		if err == nil {
			c.Fail("encoded-unencodable", "%s: Marshal succeeded although the geometry is not encodable (%v)", m.name, rerr)
			return
		}
		if rerr == ref.ErrEmptyPoint {
			c.Count("empty_point_rejected_in_wkb_error_mode")
		}
		c.Guard("panic", func() { _ = err.Error() })
		return
	}
	if err != nil {
		c.Fail("marshal-error", "%s: Marshal failed on an encodable geometry: %v", m.name, err)
		return
	}
	if d := firstDiff(got, want); d >= 0 {
		c.Fail("bytes-differ", "%s: encoder output differs from the reference encoding at offset %d (%s): got %x, reference %x", m.name, d, fieldAt(fields, d), clip(got, d), clip(want, d))
		return
	}
	c.CountN("bytes_compared", int64(len(want)))
	if !g.IsEmpty() || g.Kind == model.Collection {
		c.Distinct(c03Sig(g, m))
	}
	if hasEmptyPoint(g) {
		c.Count("encoded_with_empty_point")
	}
	if c.WantSample() && len(want) < 120 {
		c.Sample(map[string]any{"geometry": g.String(), "mode": m.name, "bytes": hex.EncodeToString(want)})
	}
	// stream write == marshal
	var buf bytes.Buffer
	if c.Guard("panic", func() { err = m.write(&buf, t) }) {
		return
	}
	c.Eval(1)
	if err != nil || !bytes.Equal(buf.Bytes(), want) {
		c.Fail("write-differs", "%s: Write to a stream gave err=%v and bytes differing from Marshal at %d", m.name, err, firstDiff(buf.Bytes(), want))
		return
	}
	// decode the reference bytes
	exp := decodeExpectation(g, m)
	var back geom.T
	if c.Guard("panic", func() { back, err = m.unmarshal(want) }) {
		return
	}
	c.Eval(1)
	if err != nil {
		c.Fail("unmarshal-error", "%s: Unmarshal rejected the standard encoding: %v", m.name, err)
		return
	}
	if !expectGeom(c, m.name+" Unmarshal", back, exp, model.Opts{}) {
		return
	}
	// the encoding sits somewhere in a longer buffer of the caller's (a network or
	// driver buffer: any offset), which is reused as soon as the decoder returns;
	// the geometry must not be made of that memory
	{
		off := r.Intn(17)
		if r.Bool() {
			// offsets that put the ordinates behind a 9- or 13-byte header on an
			// 8-byte boundary
			off = []int{7, 15, 3, 11}[r.Intn(4)]
		}
		bufc := make([]byte, off+len(want)+r.Intn(9))
		copy(bufc[off:], want)
		var b2 geom.T
		how := []string{"Unmarshal", "Read(*bytes.Buffer)", "Read(*bytes.Reader)"}[r.Intn(3)]
		if c.Guard("panic", func() {
			switch how {
			case "Unmarshal":
				b2, err = m.unmarshal(bufc[off : off+len(want)])
			case "Read(*bytes.Buffer)":
				b2, err = m.read(bytes.NewBuffer(bufc[off : off+len(want)]))
			default:
				b2, err = m.read(bytes.NewReader(bufc[off : off+len(want)]))
			}
		}) {
			return
		}
		c.Eval(1)
		c.Count("decoded_from_a_caller_buffer_by_" + how)
		for i := range bufc {
			bufc[i] = 0xEE
		}
		c.Count("decoded_from_a_caller_buffer_that_is_reused_afterwards")
		if err != nil || !expectGeom(c, fmt.Sprintf("%s %s from offset %d of a buffer overwritten afterwards", m.name, how, off), b2, exp, model.Opts{}) {
			if err != nil {
				c.Fail("unmarshal-error", "%s: Unmarshal rejected the standard encoding at offset %d of a longer buffer: %v", m.name, off, err)
			}
			return
		}
	}
	// the independent reader agrees with the independent writer (self-check of the oracle)
	if rg, n, e := ref.ReadWKB(want, m.o); e != nil || n != len(want) || model.Equal(exp, rg, model.Opts{}) != "" {
		c.Fail("oracle-inconsistent", "reference reader and writer disagree: err=%v consumed=%d/%d diff=%s", e, n, len(want), model.Equal(exp, rg, model.Opts{}))
		return
	}
	// reader splits
	for pat := 0; pat < 4; pat++ {
		sr := &splitReader{b: want, pattern: pat, r: r}
		var rt geom.T
		if c.Guard("panic", func() { rt, err = m.read(sr) }) {
			return
		}
		c.Eval(1)
		c.Count(fmt.Sprintf("reader_split_pattern_%d", pat))
		if err != nil {
			c.Fail("split-read-error", "%s: Read through a reader that splits the bytes (pattern %d) failed: %v", m.name, pat, err)
			return
		}
		if !expectGeom(c, fmt.Sprintf("%s Read (split pattern %d)", m.name, pat), rt, exp, model.Opts{}) {
			return
		}
		if r.Chance(1, 6) {
			callerScribbles(c, rt) // a decoded geometry is the caller's own
		}
		if sr.pos != len(want) {
			c.Fail("wrong-consumption", "%s: Read consumed %d bytes of a %d byte encoding (pattern %d)", m.name, sr.pos, len(want), pat)
			return
		}
	}
	// the caller's own buffered readers: a bufio.Reader of any size (its buffer may be
	// far smaller than one coordinate array), a bufio.Reader over a splitting reader
	{
		size := []int{16, 17, 64, 100, 512, 4096, 65536}[r.Intn(7)]
		var src io.Reader = bytes.NewReader(want)
		if r.Bool() {
			src = &splitReader{b: want, pattern: r.Intn(4), r: r}
		}
		br := bufio.NewReaderSize(src, size)
		var rt geom.T
		if c.Guard("panic", func() { rt, err = m.read(br) }) {
			return
		}
		c.Eval(1)
		c.Count("read_through_a_bufio_reader_of_the_caller")
		if err != nil {
			c.Fail("split-read-error", "%s: Read through the caller's bufio.Reader of size %d failed: %v", m.name, size, err)
			return
		}
		if !expectGeom(c, fmt.Sprintf("%s Read (bufio.Reader of size %d)", m.name, size), rt, exp, model.Opts{}) {
			return
		}
	}
	// writer faults
	limits := []int{}
	if len(want) <= 200 {
		for p := 0; p < len(want); p++ {
			limits = append(limits, p)
		}
	} else {
		for k := 0; k < 24; k++ {
			limits = append(limits, r.Intn(len(want)))
		}
		limits = append(limits, 0, 1, 4, 5, len(want)-1)
	}
	for _, p := range limits {
		fwr := &failWriter{limit: p}
		if c.Guard("panic", func() { err = m.write(fwr, t) }) {
			return
		}
		c.Eval(1)
		if err == nil {
			c.Fail("writer-error-lost", "%s: Write returned nil although the writer failed after %d of %d bytes", m.name, p, len(want))
			return
		}
		if !errors.Is(err, errInjected) {
			c.Fail("writer-error-lost", "%s: Write returned %q, not the writer's error (failure after %d bytes)", m.name, err, p)
			return
		}
		if !bytes.Equal(fwr.got, want[:p]) {
			c.Fail("write-differs", "%s: bytes written before the failure at %d are not a prefix of the encoding", m.name, p)
			return
		}
	}
	c.CountN("writer_failure_positions", int64(len(limits)))
	// a writer that reports its error together with a full count, on any of the
	// Write calls the encoder makes - the last one included
	{
		cw := &countWriter{}
		if c.Guard("panic", func() { err = m.write(cw, t) }) {
			return
		}
		ks := []int{cw.calls - 1, 0, cw.calls / 2, cw.calls - 2, r.Intn(cw.calls), r.Intn(cw.calls)}
		if cw.calls <= 12 {
			ks = ks[:0]
			for k := 0; k < cw.calls; k++ {
				ks = append(ks, k)
			}
		}
		for _, k := range ks {
			if k < 0 {
				continue
			}
			fw2 := &fullThenFailWriter{k: k}
			if c.Guard("panic", func() { err = m.write(fw2, t) }) {
				return
			}
			c.Eval(1)
			c.Count("writer_failures_reported_with_a_full_count")
			if err == nil || !errors.Is(err, errInjected) {
				c.Fail("writer-error-lost", "%s: Write returned %v although the writer reported its error (together with a full byte count) on call %d of %d", m.name, err, k+1, cw.calls)
				return
			}
			tw := &transientFailWriter{k: k}
			if c.Guard("panic", func() { err = m.write(tw, t) }) {
				return
			}
			c.Eval(1)
			c.Count("writer_failures_that_do_not_last")
			if err == nil || !errors.Is(err, errInjected) {
				c.Fail("writer-error-lost", "%s: Write returned %v although the writer refused call %d of %d (it took the later ones)", m.name, err, k+1, cw.calls)
				return
			}
		}
	}
	// hex variants
	var hs string
	if c.Guard("panic", func() {
		if m.o.EWKB {
			hs, err = ewkbhex.Encode(t, m.order())
		} else {
			hs, err = wkbhex.Encode(t, m.order(), m.opts()...)
		}
	}) {
		return
	}
	c.Eval(1)
	if err != nil || !strings.EqualFold(hs, hex.EncodeToString(want)) {
		c.Fail("hex-differs", "%s: hex Encode gave err=%v and %q, want the hex of the standard encoding", m.name, err, hs)
		return
	}
	hin := hex.EncodeToString(want)
	if r.Bool() {
		hin = strings.ToUpper(hin)
	}
	var ht geom.T
	if c.Guard("panic", func() {
		if m.o.EWKB {
			ht, err = ewkbhex.Decode(hin)
		} else {
			ht, err = wkbhex.Decode(hin, m.opts()...)
		}
	}) {
		return
	}
	c.Eval(1)
	if err != nil {
		c.Fail("hex-decode-error", "%s: hex Decode rejected the standard encoding: %v", m.name, err)
		return
	}
	expectGeom(c, m.name+" hex Decode", ht, exp, model.Opts{})
	c.Count("hex_roundtrips")
	// the bytes handed out by the first Marshal must still be that encoding after
	// other geometries have been encoded
	for k := 0; k < 2; k++ {
		og := c03Model(r)
		c.Guard("panic", func() { m.marshal(og.BuildFlat()) })
	}
	c.Eval(1)
	c.Count("held_results_rechecked")
	if d := firstDiff(got, want); d >= 0 {
		c.Fail("result-invalidated", "%s: the slice returned by Marshal changed at offset %d after later Marshal calls on other geometries", m.name, d)
	}
}

func clip(b []byte, at int) []byte {
	lo := at - 4
	if lo < 0 {
		lo = 0
	}
	hi := at + 12
	if hi > len(b) {
		hi = len(b)
	}
	return b[lo:hi]
}

// concatenated geometries decode one after another from one reader
func c03Concat(c *fw.Ctx, idx int) {
	r := c.R
	m := wkbModes[r.Intn(len(wkbModes))]
	n := r.Range(2, 5)
	var all []byte
	var exps []*model.G
	var lens []int
	var desc []string
	for len(exps) < n {
		g := c03Model(r)
		b, _, err := ref.WriteWKB(g, m.o)
		if err != nil {
			continue
		}
		all = append(all, b...)
		exps = append(exps, decodeExpectation(g, m))
		lens = append(lens, len(b))
		desc = append(desc, g.String())
	}
	pat := r.Intn(4)
	c.SetInput(map[string]any{"mode": m.name, "geometries": strings.Join(desc, " | "), "split_pattern": pat})
	sr := &splitReader{b: all, pattern: pat, r: r}
	off := 0
	for i := range exps {
		var t geom.T
		var err error
		if c.Guard("panic", func() { t, err = m.read(sr) }) {
			return
		}
		c.Eval(1)
		if err != nil {
			c.Fail("concat-read-error", "%s: reading geometry %d of %d concatenated encodings failed: %v", m.name, i+1, n, err)
			return
		}
		if !expectGeom(c, fmt.Sprintf("%s concatenated Read #%d", m.name, i+1), t, exps[i], model.Opts{}) {
			return
		}
		off += lens[i]
		if sr.pos != off {
			c.Fail("wrong-consumption", "%s: after geometry %d the reader is at byte %d, the encodings end at %d", m.name, i+1, sr.pos, off)
			return
		}
	}
	c.Count("concatenations")
	c.Distinct(fmt.Sprintf("concat/%s/%d/%d", m.name, n, pat))
}

// c03Row is a wrapper that is scanned into row after row.
type c03Row struct {
	w         sqlWrapper
	held      geom.T
	heldModel *model.G
	bytes     []byte
}

var c03Rows = map[string]*c03Row{}

type sqlWrapper interface {
	sql.Scanner
	driver.Valuer
}

func wkbWrapper(kind model.Kind, t geom.T) sqlWrapper {
	switch kind {
	case model.Point:
		p, _ := t.(*geom.Point)
		return &wkb.Point{Point: p}
	case model.LineString:
		p, _ := t.(*geom.LineString)
		return &wkb.LineString{LineString: p}
	case model.Polygon:
		p, _ := t.(*geom.Polygon)
		return &wkb.Polygon{Polygon: p}
	case model.MultiPoint:
		p, _ := t.(*geom.MultiPoint)
		return &wkb.MultiPoint{MultiPoint: p}
	case model.MultiLineString:
		p, _ := t.(*geom.MultiLineString)
		return &wkb.MultiLineString{MultiLineString: p}
	case model.MultiPolygon:
		p, _ := t.(*geom.MultiPolygon)
		return &wkb.MultiPolygon{MultiPolygon: p}
	case model.Collection:
		p, _ := t.(*geom.GeometryCollection)
		return &wkb.GeometryCollection{GeometryCollection: p}
	}
	return nil
}

func ewkbWrapper(kind model.Kind, t geom.T) sqlWrapper {
	switch kind {
	case model.Point:
		p, _ := t.(*geom.Point)
		return &ewkb.Point{Point: p}
	case model.LineString:
		p, _ := t.(*geom.LineString)
		return &ewkb.LineString{LineString: p}
	case model.Polygon:
		p, _ := t.(*geom.Polygon)
		return &ewkb.Polygon{Polygon: p}
	case model.MultiPoint:
		p, _ := t.(*geom.MultiPoint)
		return &ewkb.MultiPoint{MultiPoint: p}
	case model.MultiLineString:
		p, _ := t.(*geom.MultiLineString)
		return &ewkb.MultiLineString{MultiLineString: p}
	case model.MultiPolygon:
		p, _ := t.(*geom.MultiPolygon)
		return &ewkb.MultiPolygon{MultiPolygon: p}
	case model.Collection:
		p, _ := t.(*geom.GeometryCollection)
		return &ewkb.GeometryCollection{GeometryCollection: p}
	}
	return nil
}

func wrappedGeom(w sqlWrapper) geom.T {
	switch x := w.(type) {
	case *wkb.Point:
		return x.Point
	case *wkb.LineString:
		return x.LineString
	case *wkb.Polygon:
		return x.Polygon
	case *wkb.MultiPoint:
		return x.MultiPoint
	case *wkb.MultiLineString:
		return x.MultiLineString
	case *wkb.MultiPolygon:
		return x.MultiPolygon
	case *wkb.GeometryCollection:
		return x.GeometryCollection
	case *wkb.Geom:
		return x.T
	case *ewkb.Point:
		return x.Point
	case *ewkb.LineString:
		return x.LineString
	case *ewkb.Polygon:
		return x.Polygon
	case *ewkb.MultiPoint:
		return x.MultiPoint
	case *ewkb.MultiLineString:
		return x.MultiLineString
	case *ewkb.MultiPolygon:
		return x.MultiPolygon
	case *ewkb.GeometryCollection:
		return x.GeometryCollection
	}
	return nil
}

var sqlKinds = []model.Kind{model.Point, model.LineString, model.Polygon, model.MultiPoint, model.MultiLineString, model.MultiPolygon, model.Collection}

// database/sql wrappers: Value == standard NDR encoding, Scan accepts it, the
// wrong wrapper type and non-[]byte sources are errors (7x7 matrix per format)
func c03SQL(c *fw.Ctx, idx int) {
	r := c.R
	useE := r.Bool()
	srcKind := sqlKinds[r.Intn(len(sqlKinds))]
	var g *model.G
	cl := gen.AnyClass(r)
	if srcKind == model.Collection {
		g = gen.Collection(r, cl, gen.CollOpts{Layouts: gen.StdLayouts, MixLayouts: true, MaxDepth: 2, MaxMembers: 3, FixedChance: 30}, 0)
	} else {
		g = gen.Shape(r, srcKind, gen.StdLayouts[r.Intn(4)], cl, gen.ShapeOpts{})
	}
	if useE {
		g.SRID = []int{0, 4326, 1 << 31}[r.Intn(3)]
	}
	m := wkbMode{"wkb-ndr", ref.WKBOpts{}}
	if useE {
		m = wkbMode{"ewkb-ndr", ref.WKBOpts{EWKB: true}}
	}
	c.SetInput(map[string]any{"geometry": g.String(), "format": m.name})
	t := spareStored(c, g, g.BuildFlat())
	want, _, rerr := ref.WriteWKB(g, m.o)
	mk := wkbWrapper
	if useE {
		mk = ewkbWrapper
	}
	if r.Chance(1, 6) {
		// Value() calls that are refused (a layout the format cannot carry, alone
		// and behind a member that was already written); whatever they return,
		// the judged calls after them must not see what they left behind
		func() {
			defer func() { _ = recover() }()
			bad := geom.NewPointFlat(geom.Layout(5), []float64{1, 2, 3, 4, 5})
			_, _ = mk(model.Point, bad).Value()
			gc := geom.NewGeometryCollection()
			_ = gc.Push(geom.NewPointFlat(geom.XY, []float64{1, 2}), geom.NewLineStringFlat(geom.Layout(6), []float64{1, 2, 3, 4, 5, 6, 6, 5, 4, 3, 2, 1}))
			_, _ = mk(model.Collection, gc).Value()
		}()
		c.Count("sql_refused_value_calls_first")
	}
	// Value
	w := mk(srcKind, t)
	var v driver.Value
	var err error
	if c.Guard("panic", func() { v, err = w.Value() }) {
		return
	}
	c.Eval(1)
	if rerr != nil {
		if err == nil {
			c.Fail("encoded-unencodable", "%s Value() succeeded although the geometry is not encodable (%v)", m.name, rerr)
		}
		return
	}
	vb, ok := v.([]byte)
	if err != nil || !ok || !bytes.Equal(vb, want) {
		c.Fail("sql-value-differs", "%s %s wrapper Value() gave err=%v, %T differing from the standard NDR encoding at %d", m.name, srcKind, err, v, firstDiff(vb, want))
		return
	}
	exp := decodeExpectation(g, m)
	// the caller changes the wrapped geometry (SetCoords: the same number of
	// coordinates with other values, or another shape) between two Value() calls,
	// on a wrapper built around its geometry and on wrappers that were scanned into
	if srcKind != model.Collection && r.Chance(1, 2) {
		g2 := gen.Shape(r, srcKind, g.Layout, cl, gen.ShapeOpts{})
		if r.Bool() {
			g2 = g.Clone()
			c03Shift(g2)
		}
		g2.SRID = g.SRID
		want2, _, rerr2 := ref.WriteWKB(g2, m.o)
		holders := []struct {
			name string
			w    sqlWrapper
		}{{"built around the caller's geometry", mk(srcKind, g.BuildFlat())}, {"scanned into", mk(srcKind, nil)}}
		if c.Guard("panic", func() { err = holders[1].w.Scan(append([]byte{}, want...)) }) {
			return
		}
		if err != nil {
			c.Fail("sql-scan-error", "%s %s wrapper rejected the standard encoding: %v", m.name, srcKind, err)
			return
		}
		for _, h := range holders {
			var v1, v2 driver.Value
			var e1, e2, es error
			if c.Guard("panic", func() {
				v1, e1 = h.w.Value()
				es = setCoordsOn(wrappedGeom(h.w), g2)
				v2, e2 = h.w.Value()
			}) {
				return
			}
			c.Eval(2)
			if es != nil {
				continue
			}
			c.Count("sql_value_after_the_geometry_was_edited")
			if b1, _ := v1.([]byte); e1 != nil || !bytes.Equal(b1, want) {
				c.Fail("sql-value-differs", "%s %s wrapper %s: Value() gave err=%v and bytes differing from the standard encoding at %d", m.name, srcKind, h.name, e1, firstDiff(b1, want))
				return
			}
			if rerr2 != nil {
				if e2 == nil {
					c.Fail("encoded-unencodable", "%s %s wrapper %s: after SetCoords(%s) Value() succeeded although the geometry is not encodable (%v)", m.name, srcKind, h.name, g2, rerr2)
					return
				}
				continue
			}
			if b2, _ := v2.([]byte); e2 != nil || !bytes.Equal(b2, want2) {
				c.Fail("sql-value-stale", "%s %s wrapper %s: after SetCoords(%s) on the geometry it holds, Value() gave err=%v and bytes differing from the encoding of the edited geometry at %d (they %s the encoding from before the edit)", m.name, srcKind, h.name, g2, e2, firstDiff(b2, want2), map[bool]string{true: "are", false: "are not"}[bytes.Equal(b2, want)])
				return
			}
		}
	}
	// Scan into every wrapper type
	for _, dk := range sqlKinds {
		dst := mk(dk, nil)
		src := append([]byte{}, want...)
		if c.Guard("panic", func() { err = dst.Scan(src) }) {
			return
		}
		c.Eval(1)
		if dk == srcKind {
			c.Count("sql_scan_matching")
			if err != nil {
				c.Fail("sql-scan-error", "%s %s wrapper rejected the standard encoding of a %s: %v", m.name, dk, srcKind, err)
				return
			}
			if !expectGeom(c, fmt.Sprintf("%s %s Scan", m.name, dk), wrappedGeom(dst), exp, model.Opts{}) {
				return
			}
		} else {
			c.Count("sql_scan_wrong_type")
			if err == nil {
				c.Fail("sql-wrong-type-accepted", "%s %s wrapper accepted the encoding of a %s without error", m.name, dk, srcKind)
				return
			}
			c.Guard("panic", func() { _ = err.Error() })
		}
		c.Distinct(fmt.Sprintf("sql/%s/%s->%s", m.name, srcKind, dk))
	}
	// the rows.Next() pattern: one wrapper per type and format lives as long as the
	// worker and is scanned into row after row; the geometry the caller took out of
	// it after the previous row is the caller's and stays what it was
	{
		key := m.name + "/" + srcKind.String()
		row := c03Rows[key]
		if row == nil {
			row = &c03Row{w: mk(srcKind, nil)}
			c03Rows[key] = row
		}
		prevHeld, prevModel, prevBytes := row.held, row.heldModel, row.bytes
		if c.Guard("panic", func() { err = row.w.Scan(append([]byte{}, want...)) }) {
			return
		}
		c.Eval(1)
		if err != nil {
			c.Fail("sql-scan-error", "%s %s wrapper used for earlier rows rejected the standard encoding: %v", m.name, srcKind, err)
			delete(c03Rows, key)
			return
		}
		cur := wrappedGeom(row.w)
		if !expectGeom(c, fmt.Sprintf("%s %s Scan into a wrapper used for earlier rows", m.name, srcKind), cur, exp, model.Opts{}) {
			delete(c03Rows, key)
			return
		}
		if prevHeld != nil && !isNilGeom(prevHeld) {
			c.Count("sql_geometry_kept_from_the_previous_row_rechecked")
			if !expectGeom(c, fmt.Sprintf("the geometry taken out of the %s %s wrapper after the previous row, now that the next row has been scanned", m.name, srcKind), prevHeld, prevModel, model.Opts{}) {
				delete(c03Rows, key)
				return
			}
		}
		row.held, row.heldModel, row.bytes = cur, exp, want
		// a wrapper built around the caller's geometry, asked for its value, then
		// scanned into: the caller's geometry is not the wrapper's to overwrite
		if prevBytes != nil {
			if c.Guard("panic", func() { err = w.Scan(append([]byte{}, prevBytes...)) }) {
				return
			}
			c.Eval(1)
			if err == nil && !expectGeom(c, fmt.Sprintf("the caller's geometry after the %s %s wrapper built around it was scanned into", m.name, srcKind), t, g, model.Opts{}) {
				return
			}
		}
	}
	// a non-[]byte source
	dst := mk(srcKind, nil)
	for _, bad := range []any{"a string", int64(7), 3.5, true} {
		if c.Guard("panic", func() { err = dst.Scan(bad) }) {
			return
		}
		c.Eval(1)
		var e1 wkb.ErrExpectedByteSlice
		var e2 ewkb.ErrExpectedByteSlice
		if err == nil || !(errors.As(err, &e1) || errors.As(err, &e2)) {
			c.Fail("sql-non-bytes", "%s wrapper Scan(%T) returned %v, want the expected-byte-slice error", m.name, bad, err)
			return
		}
		c.Guard("panic", func() { _ = err.Error() })
	}
	c.Count("sql_non_bytes_rejected")
	if !useE {
		// the untyped wkb.Geom wrapper accepts every type
		gw := &wkb.Geom{}
		if c.Guard("panic", func() { err = gw.Scan(append([]byte{}, want...)) }) {
			return
		}
		c.Eval(1)
		if err != nil {
			c.Fail("sql-scan-error", "wkb.Geom rejected the standard encoding of a %s: %v", srcKind, err)
			return
		}
		if !expectGeom(c, "wkb.Geom Scan", gw.T, exp, model.Opts{}) {
			return
		}
		// ... gives back the same geometry and the same standard encoding,
		// keeps it when handed an empty value, and rejects a non-[]byte source
		var v2 driver.Value
		var g2 geom.T
		if c.Guard("panic", func() { g2 = gw.Geom(); v2, err = (&wkb.Geom{T: t}).Value() }) {
			return
		}
		c.Eval(2)
		if g2 != gw.T {
			c.Fail("sql-value-differs", "wkb.Geom.Geom() does not return the scanned geometry")
			return
		}
		if vb2, ok := v2.([]byte); err != nil || !ok || !bytes.Equal(vb2, want) {
			c.Fail("sql-value-differs", "wkb.Geom Value() gave err=%v, %T differing from the standard NDR encoding", err, v2)
			return
		}
		if c.Guard("panic", func() { err = gw.Scan([]byte{}) }) {
			return
		}
		if err != nil || gw.T != g2 {
			c.Fail("sql-scan-error", "wkb.Geom Scan of an empty value: err=%v, geometry kept=%v", err, gw.T == g2)
			return
		}
		if c.Guard("panic", func() { err = gw.Scan("a string") }) {
			return
		}
		var e1 wkb.ErrExpectedByteSlice
		if err == nil || !errors.As(err, &e1) {
			c.Fail("sql-non-bytes", "wkb.Geom Scan(string) returned %v, want the expected-byte-slice error", err)
			return
		}
		c.Count("sql_generic_wrapper")
		// wkb.Geom scanned into, its geometry edited by the caller, asked for its value
		if srcKind != model.Collection {
			g2 := g.Clone()
			c03Shift(g2)
			want2, _, rerr2 := ref.WriteWKB(g2, m.o)
			gw2 := &wkb.Geom{}
			var v3 driver.Value
			var es error
			if c.Guard("panic", func() {
				err = gw2.Scan(append([]byte{}, want...))
				if err == nil {
					_, _ = gw2.Value()
					es = setCoordsOn(gw2.T, g2)
					v3, err = gw2.Value()
				}
			}) {
				return
			}
			c.Eval(3)
			if es == nil && rerr2 == nil {
				c.Count("sql_value_after_the_geometry_was_edited")
				if b3, _ := v3.([]byte); err != nil || !bytes.Equal(b3, want2) {
					c.Fail("sql-value-stale", "wkb.Geom scanned into, then SetCoords(%s) on its geometry: Value() gave err=%v and bytes differing from the encoding of the edited geometry at %d", g2, err, firstDiff(b3, want2))
					return
				}
			}
		}
	} else {
		// an SQL NULL: the ewkb wrappers take it as "no geometry"
		dn := mk(srcKind, t)
		var vn driver.Value
		if c.Guard("panic", func() { err = dn.Scan(nil) }) {
			return
		}
		c.Eval(1)
		if err != nil {
			c.Fail("sql-scan-error", "%s %s wrapper Scan(nil) failed: %v", m.name, srcKind, err)
			return
		}
		type valider interface{ Valid() bool }
		if vd, ok := dn.(valider); ok {
			valid := true
			if c.Guard("panic", func() { valid = vd.Valid(); vn, err = dn.Value() }) {
				return
			}
			if valid || vn != nil || err != nil {
				c.Fail("sql-null", "%s %s wrapper after Scan(nil): Valid()=%v Value()=(%v, %v), want false and (nil, nil)", m.name, srcKind, valid, vn, err)
				return
			}
			if c.Guard("panic", func() { valid = mk(srcKind, t).(valider).Valid() }) {
				return
			}
			if !valid {
				c.Fail("sql-null", "%s %s wrapper holding a geometry reports Valid() = false", m.name, srcKind)
				return
			}
			c.Count("sql_null_handled")
		}
	}
}

// c03Shift replaces every ordinate x of g by another finite value in place of
// the same shape (same number of coordinates everywhere).
func c03Shift(g *model.G) {
	f := func(co []float64) {
		for i, x := range co {
			y := x*0.5 + 3
			if y != y || y == x {
				y = float64(i) + 0.5
			}
			co[i] = y
		}
	}
	f(g.C0)
	for _, a := range g.C1 {
		f(a)
	}
	for _, a := range g.C2 {
		for _, b := range a {
			f(b)
		}
	}
	for _, a := range g.C3 {
		for _, b := range a {
			for _, d := range b {
				f(d)
			}
		}
	}
}

// unsupported layouts must be reported as such
func c03Unsupported(c *fw.Ctx, idx int) {
	r := c.R
	kind := gen.Kinds6[r.Intn(6)]
	layout := []geom.Layout{geom.NoLayout, geom.Layout(5), geom.Layout(6), geom.Layout(9)}[r.Intn(4)]
	g := gen.Shape(r, kind, layout, gen.SmallInt, gen.ShapeOpts{NoEmptyPoint: true})
	m := wkbModes[r.Intn(len(wkbModes))]
	c.SetInput(map[string]any{"geometry": g.String(), "mode": m.name})
	t := g.BuildFlat()
	var err error
	if depth := r.Intn(4); depth > 0 && layout != geom.NoLayout {
		// ... as a member (behind supported ones) of a collection nested 1..3 deep
		for d := 0; d < depth; d++ {
			gc := geom.NewGeometryCollection()
			if r.Bool() {
				_ = gc.Push(geom.NewPointFlat(geom.XY, []float64{1, 2}))
			}
			_ = gc.Push(t)
			if r.Bool() {
				_ = gc.Push(geom.NewLineStringFlat(geom.XYZ, []float64{1, 2, 3, 4, 5, 6}))
			}
			t = gc
		}
		c.Count("unsupported_layout_inside_collections")
	}
	if c.Guard("panic", func() { _, err = m.marshal(t) }) {
		return
	}
	c.Eval(1)
	c.Count("unsupported_layout_cases")
	c.Distinct(fmt.Sprintf("unsup/%s/%s/%s", m.name, kind, layout))
	var ul geom.ErrUnsupportedLayout
	if err == nil || !errors.As(err, &ul) {
		c.Fail("unsupported-layout-not-reported", "%s: Marshal of a %s %s returned %v, want an unsupported-layout error", m.name, layout, kind, err)
		return
	}
	if geom.Layout(ul) != layout {
		c.Fail("unsupported-layout-not-reported", "unsupported-layout error names %s, geometry has %s", geom.Layout(ul), layout)
	}
	c.Guard("panic", func() { _ = err.Error() })
}

func init() {
	fw.Register(&fw.Monitor{
		ID:     "C03",
		Title:  "WKB/EWKB emit the standard byte layout and decode back to the same geometry",
		Rule:   "generated models (6 types, collections nested to depth 4 with mixed member layouts, empty members, empty points, fixed/unfixed empty collections) x {XY,XYZ,XYM,XYZM} x {WKB, WKB NaN mode, EWKB} x {NDR,XDR} x SRID {0,1,4326,2^31-1,2^31,2^32-1,random} x hostile floats: Marshal and Write bytes == independent reference writer; Unmarshal of reference bytes == model (carve-outs applied in one place); Read through 4 reader split patterns (1-byte, random chunks, data+EOF, interleaved zero-length reads) with exact byte consumption, also over 2..5 concatenated geometries; a failing writer at every byte position (<=200 bytes) must surface its own error; hex variants; database/sql wrappers (7x7 Scan matrix per format, non-[]byte sources); unsupported layouts. distinct_nontrivial = distinct (mode, srid class, shape signature) / wrapper pairs",
		Assume: []string{"reference WKB/EWKB codec in harness/ref, pinned by hand-checked PostGIS/ISO vectors (go test ./ref)", "byte-exact comparison uses member SRID 0 (the only state constructors and decoders produce)"},
		Classes: []fw.Class{
			{Name: "codec", Quick: 80000, Thorough: 6000000, Run: c03Codec},
			{Name: "concatenated", Quick: 16000, Thorough: 900000, Run: c03Concat},
			{Name: "sql", Quick: 24000, Thorough: 1200000, Run: c03SQL},
			{Name: "unsupported-layout", Quick: 2000, Thorough: 60000, Run: c03Unsupported},
			{Name: "huge", Quick: 30, Thorough: 1800, Chunk: 1, Run: c03Huge},
			{Name: "every-length", Quick: 5041, Thorough: 20161, Chunk: 40, Run: c03EveryLength, Exhaustive: "line string, multipoint and polygon of every number of coordinates from 0 to the class count"},
			{Name: "observed-during-write", Quick: 8, Thorough: 192, Chunk: 1, Run: c03Observed},
		},
		Require: []string{"bytes_compared", "mode_wkb-ndr", "mode_wkb-xdr", "mode_wkb-nan-ndr", "mode_ewkb-ndr", "mode_ewkb-xdr", "empty_point_rejected_in_wkb_error_mode", "encoded_with_empty_point",
			"reader_split_pattern_0", "reader_split_pattern_3", "writer_failure_positions", "hex_roundtrips", "concatenations", "sql_scan_matching", "sql_scan_wrong_type", "sql_non_bytes_rejected", "unsupported_layout_cases", "held_results_rechecked"},
	})
}
