package mon

import (
	"fmt"
	"math"
	"sort"
	"strings"

	geom "github.com/twpayne/go-geom"
	"github.com/twpayne/go-geom/encoding/wkt"

	"verifharness/fw"
	"verifharness/gen"
	"verifharness/model"
	"verifharness/ref"
)

// C05 - WKT output round-trips and reads the same in an independent WKT reader.

func c05Finite(r *fw.Rand) func(*fw.Rand, int) []float64 {
	cl := gen.FiniteClass(r)
	return func(r *fw.Rand, stride int) []float64 {
		c := gen.Coord(r, stride, cl)
		for i := range c {
			if math.IsNaN(c[i]) || math.IsInf(c[i], 0) {
				c[i] = 0
			}
			if r.Chance(1, 60) {
				c[i] = []float64{math.Copysign(0, -1), math.MaxFloat64, 5e-324, 1e21, 1e-7, 0.1, 123456.789, -1e300}[r.Intn(8)]
			}
			if r.Chance(1, 12) {
				// a short decimal (1..9 fractional digits) or its neighbour one or two ulps
				// away: the shortest text of the neighbour is 16-17 digits long and must
				// not be "tidied" into the short one
				d := r.Range(1, 9)
				v := math.Round(float64(r.Range(-99999, 99999))*math.Pow(10, float64(r.Range(0, d)))) / math.Pow(10, float64(d))
				c[i] = gen.NextAfterN(v, r.Range(-2, 2))
			}
		}
		return c
	}
}

// c05Collection builds a collection of one uniform layout (what WKT can express).
func c05Collection(r *fw.Rand, layout geom.Layout, so gen.ShapeOpts, depth int) *model.G {
	g := &model.G{Kind: model.Collection}
	n := r.Intn(4)
	if depth == 0 && r.Chance(1, 3) {
		n = r.Range(1, 5)
	}
	for i := 0; i < n; i++ {
		if depth < 4 && r.Chance(1, 4) {
			g.Members = append(g.Members, c05Collection(r, layout, so, depth+1))
		} else {
			g.Members = append(g.Members, gen.Shape(r, gen.Kinds6[r.Intn(6)], layout, gen.SmallInt, so))
		}
	}
	// every collection carries the layout: empty ones could not express it otherwise
	g.Fixed = true
	g.Layout = layout
	return g
}

func c05Model(r *fw.Rand) *model.G {
	layout := gen.StdLayouts[r.Intn(4)]
	so := gen.ShapeOpts{Valid: true, CoordFn: c05Finite(r), Big: r.Chance(1, 10)}
	var g *model.G
	if r.Chance(1, 3) {
		g = c05Collection(r, layout, so, 0)
	} else {
		g = gen.Shape(r, gen.Kinds6[r.Intn(6)], layout, gen.SmallInt, so)
	}
	if r.Chance(1, 4) {
		c05ZeroSigns(r, g)
	}
	return g
}

// c05ZeroSigns gives a zero ordinate of a ring's closing vertex the other sign than
// the first vertex has (0 and -0 are equal: the ring is closed; they are different
// numbers to write and to read back), and zero ordinates elsewhere a sign at random.
func c05ZeroSigns(r *fw.Rand, g *model.G) {
	ring := func(seq [][]float64) {
		if len(seq) < 2 {
			return
		}
		first, last := seq[0], seq[len(seq)-1]
		for i := range first {
			if i < len(last) && first[i] == 0 && last[i] == 0 && r.Bool() {
				last[i] = -first[i]
				if !math.Signbit(last[i]) && !math.Signbit(first[i]) {
					last[i] = math.Copysign(0, -1)
				}
			}
		}
	}
	switch g.Kind {
	case model.Polygon:
		for _, s := range g.C2 {
			ring(s)
		}
	case model.MultiPolygon:
		for _, p := range g.C3 {
			for _, s := range p {
				ring(s)
			}
		}
	case model.Collection:
		for _, m := range g.Members {
			c05ZeroSigns(r, m)
		}
	}
}

func hasEmptyMember(g *model.G) bool {
	switch g.Kind {
	case model.MultiPoint:
		for _, c := range g.C1 {
			if len(c) == 0 {
				return true
			}
		}
	case model.MultiLineString:
		for _, l := range g.C2 {
			if len(l) == 0 {
				return true
			}
		}
	case model.MultiPolygon:
		for _, p := range g.C3 {
			if len(p) == 0 {
				return true
			}
		}
	case model.Collection:
		for _, m := range g.Members {
			if m.IsEmpty() || hasEmptyMember(m) {
				return true
			}
		}
	}
	return false
}

// wktExpectation: what parsing the text of g must return (a parsed collection
// always reports the layout as fixed; otherwise identical).
func wktExpectation(g *model.G) *model.G { return g }

func c05Run(c *fw.Ctx, idx int) {
	r := c.R
	g := c05Model(r)
	c.SetInput(map[string]any{"geometry": g.String()})
	t := spareStored(c, g, g.BuildFlat())
	if r.Chance(1, 4) {
		// a geometry that carries an SRID (as everything read from PostGIS does):
		// WKT has no place for it, and the text is the same WKT
		geom.SetSRID(t, []int{4326, 1, 3857, 1 << 31}[r.Intn(4)])
		c.Count("geometry_with_an_SRID_set")
	}
	var text string
	var err error
	early := ""
	if c.R.Chance(1, 4) {
		// an earlier call with other options (by this or any caller of the package)
		// must leave no trace in a later plain call - whichever plain entry point
		// comes first afterwards
		codecNoise(c)
		if c.R.Bool() {
			var e0 error
			if c.Guard("panic", func() {
				switch c.R.Intn(3) {
				case 0:
					early, e0 = wkt.NewEncoder().Encode(t)
				case 1:
					// -1 is the documented default of the digits option: no limit
					early, e0 = wkt.Marshal(t, wkt.EncodeOptionWithMaxDecimalDigits(-1))
				default:
					early, e0 = wkt.NewEncoder(wkt.EncodeOptionWithMaxDecimalDigits(-1)).Encode(t)
				}
			}) {
				return
			}
			if e0 != nil {
				early = ""
			}
		}
	}
	if c.Guard("panic", func() { text, err = wkt.Marshal(t) }) {
		return
	}
	if early != "" && err == nil && early != text {
		c.Fail("encoder-differs", "right after calls with other options NewEncoder().Encode / Marshal with a digit limit of -1 (none) gave %s, wkt.Marshal gives %s", clipStr(early, 300), clipStr(text, 300))
		return
	}
	c.Eval(1)
	if err != nil {
		c.Fail("marshal-error", "wkt.Marshal failed on a geometry WKT can express: %v", err)
		return
	}
	c.SetInput(map[string]any{"geometry": g.String(), "wkt": clipStr(text, 600)})
	c.Count("kind_" + g.Kind.String())
	if hasEmptyMember(g) {
		c.Count("with_EMPTY_member")
	}
	if g.HasEmptyBetween() {
		c.Count("with_EMPTY_member_before_nonempty")
	}
	if !g.IsEmpty() {
		c.Distinct(g.Sig())
	}
	if c.WantSample() && len(text) < 200 && !g.IsEmpty() {
		c.Sample(map[string]any{"geometry": g.String(), "wkt": text})
	}
	// (1) the library's own parser
	var back geom.T
	if c.Guard("panic", func() { back, err = wkt.Unmarshal(text) }) {
		return
	}
	c.Eval(1)
	if err != nil {
		c.Fail("own-output-rejected", "wkt.Unmarshal rejected the encoder's own output: %v", err)
		return
	}
	if !expectGeom(c, "wkt.Unmarshal(Marshal(g))", back, g, model.Opts{}) {
		return
	}
	if g.Kind == model.Collection && len(g.Members) >= 2 && r.Chance(1, 2) {
		// the caller pushes a part onto one member of the parsed collection: the
		// other members stay what they are
		if gc, ok := back.(*geom.GeometryCollection); ok {
			for _, i := range r.Perm(len(g.Members)) {
				mm := g.Members[i]
				if mm.Kind == model.Collection || mm.Kind == model.Point || mm.Kind == model.LineString {
					continue
				}
				g2 := g.Clone()
				part := c02Part(r, mm.Kind, mm.Layout)
				for try := 0; try < 8 && part.IsEmpty(); try++ {
					part = c02Part(r, mm.Kind, mm.Layout)
				}
				tr := &tracked{kind: mm.Kind, t: gc.Geom(i), m: g2.Members[i]}
				var perr error
				if c.Guard("panic", func() { perr = tr.push(part.BuildFlat()) }) {
					return
				}
				if perr != nil {
					break
				}
				tr.modelPush(part)
				c.Count("part_pushed_onto_a_member_of_a_parsed_collection")
				if !expectGeom(c, fmt.Sprintf("parsed collection after a part was pushed onto its member %d", i), back, g2, model.Opts{}) {
					return
				}
				break
			}
		}
	}
	if r.Chance(1, 2) {
		// the parsed geometry is the caller's: it is filled further and overwritten;
		// parsing the same or another text later must not hand out any of it again
		callerScribbles(c, back)
	}
	// (2) the independent reader
	rg, rerr := ref.ReadWKT(text)
	c.Eval(1)
	if rerr != nil {
		c.Fail("reference-reader-rejects", "the independent WKT reader rejects the encoder's output: %v", rerr)
		return
	}
	if d := model.Equal(g, rg, model.Opts{}); d != "" {
		c.Fail("reference-reader-differs", "the independent WKT reader understands the encoder's output differently: %s", d)
		return
	}
	// (3) spelling variants
	for k := 0; k < 8; k++ {
		st := &ref.WKTStyle{R: r, MixedCase: r.Bool(), Whitespace: r.Bool(), BareMultiPt: r.Bool(), DetachSuffix: r.Bool(), ExponentNums: r.Bool()}
		sp := st.Spell(g)
		c.SetInput(map[string]any{"geometry": g.String(), "wkt": clipStr(sp, 800)})
		if og, oe := ref.ReadWKT(sp); oe != nil || model.Equal(g, og, model.Opts{}) != "" {
			c.Fail("oracle-inconsistent", "reference speller and reader disagree: %v", oe)
			return
		}
		var pt geom.T
		if c.Guard("panic", func() { pt, err = wkt.Unmarshal(sp) }) {
			return
		}
		c.Eval(1)
		feats := st.Features()
		sort.Strings(feats)
		for _, f := range feats {
			c.Count("spelling_" + f)
		}
		if err != nil {
			c.Fail("spelling-rejected", "a standard spelling (%s) of the geometry was rejected: %v", strings.Join(feats, ","), err)
			return
		}
		if !expectGeom(c, fmt.Sprintf("wkt.Unmarshal(spelling with %s)", strings.Join(feats, ",")), pt, g, model.Opts{}) {
			return
		}
		if r.Chance(1, 3) {
			callerScribbles(c, pt)
		}
	}
	// NewEncoder().Encode is the same function
	var t2 string
	if c.Guard("panic", func() { t2, err = wkt.NewEncoder().Encode(t) }) {
		return
	}
	if err != nil || t2 != text {
		c.Fail("encoder-differs", "NewEncoder().Encode differs from Marshal")
		return
	}
	// ... and so is an Encoder the caller keeps for the life of the process, whatever
	// it was asked to encode before - including geometries it had to refuse
	// part-way through (after it had already produced text for the first members)
	if c05Kept == nil {
		c05Kept = wkt.NewEncoder()
	}
	if r.Chance(1, 3) {
		c.Guard("panic", func() {
			bad := geom.NewGeometryCollection().MustPush(geom.NewPointFlat(geom.XY, []float64{7.8, 8.9}), geom.NewLineStringFlat(geom.Layout(5), []float64{1, 2, 3, 4, 5, 6, 7, 8, 9, 10}))
			switch r.Intn(3) {
			case 0:
				bad = geom.NewGeometryCollection().MustPush(geom.NewPointFlat(geom.XY, []float64{7.8, 8.9}), geom.NewPointFlat(geom.XY, []float64{3, 4}), geom.NewLineString(geom.NoLayout))
			case 1:
				bad = geom.NewGeometryCollection().MustPush(geom.NewMultiPointFlat(geom.XYZ, []float64{1, 2, 3, 4, 5, 6}), geom.NewGeometryCollection().MustPush(geom.NewPointFlat(geom.XYZ, []float64{7, 8, 9}), geom.NewPolygon(geom.NoLayout)))
			}
			if _, e := c05Kept.Encode(bad); e != nil {
				c.Count("failed_encode_on_the_kept_encoder")
			}
		})
	}
	var t3 string
	if c.Guard("panic", func() { t3, err = c05Kept.Encode(t) }) {
		return
	}
	c.Eval(1)
	c.Count("kept_encoder_compared")
	if err != nil || t3 != text {
		c.Fail("encoder-differs", "an Encoder kept and used before gave err=%v and %s; wkt.Marshal gave %s", err, clipStr(t3, 300), clipStr(text, 300))
		return
	}
	// the text the kept encoder returned for the previous geometry is a string the
	// caller still holds: it reads as it did
	if c05KeptText != "" || c05KeptWant != "" {
		c.Count("held_results_rechecked")
		if c05KeptText != c05KeptWant {
			c.Fail("result-invalidated", "the text an Encoder returned earlier changed after a later Encode on it: it was %s, now reads %s", clipStr(c05KeptWant, 200), clipStr(c05KeptText, 200))
			c05KeptText, c05KeptWant = "", ""
			return
		}
	}
	c05KeptText, c05KeptWant = t3, strings.Clone(text)
	// the kept encoder also writes closed lines that the caller builds in one
	// coordinate buffer, refilled in place from case to case (five vertices, the
	// last one equal to the first: always at the same addresses)
	if r.Chance(1, 2) {
		lay := gen.StdLayouts[r.Intn(4)]
		st := lay.Stride()
		buf := c05LineBuf[:5*st]
		for i := 0; i < 4*st; i++ {
			buf[i] = float64(r.Range(-9, 9))
			if r.Chance(1, 3) {
				buf[i] = float64(r.Range(-1, 1)) // few distinct values: vertices repeat between cases
			}
		}
		copy(buf[4*st:], buf[:st])
		ls := geom.NewLineStringFlat(lay, buf)
		var a, b string
		var e1, e2 error
		if c.Guard("panic", func() { a, e1 = c05Kept.Encode(ls); b, e2 = wkt.Marshal(ls) }) {
			return
		}
		c.Eval(2)
		c.Count("kept_encoder_on_lines_in_a_refilled_buffer")
		if e1 != nil || e2 != nil || a != b {
			c.SetInput(map[string]any{"geometry": "LineString " + lay.String() + " " + fw.Fs(buf), "note": "built in a coordinate buffer that held the previous case's line"})
			c.Fail("encoder-differs", "the kept Encoder writes %s (err=%v) for a line built in a refilled buffer; wkt.Marshal writes %s (err=%v)", a, e1, b, e2)
		}
	}
}

var c05LineBuf [20]float64

// the text returned by the kept encoder for the previous case, and a private copy of what it said
var c05KeptText, c05KeptWant string

// c05Kept is one default Encoder used by every case of a worker process.
var c05Kept *wkt.Encoder

func clipStr(s string, n int) string {
	if len(s) > n {
		return s[:n] + "..."
	}
	return s
}

// c05EveryLength: a line string, a multipoint and a polygon ring of exactly idx
// coordinates, idx = 0, 1, 2, ..., four dimensionalities rotating: written, read by
// the library's parser and by the independent reader, both equal to the original.
func c05EveryLength(c *fw.Ctx, idx int) {
	n := idx
	layout := gen.StdLayouts[idx%4]
	stride := layout.Stride()
	co := func(i int) []float64 {
		v := make([]float64, stride)
		for k := range v {
			v[k] = float64((i*stride+k)%9973) + 0.25
		}
		return v
	}
	line := make([][]float64, n)
	for i := range line {
		line[i] = co(i)
	}
	gs := []*model.G{{Kind: model.MultiPoint, Layout: layout, C1: line}}
	if n != 1 {
		gs = append(gs, &model.G{Kind: model.LineString, Layout: layout, C1: line})
	}
	if n >= 4 {
		ring := append(append([][]float64{}, line[:n-1]...), append([]float64{}, line[0]...))
		gs = append(gs, &model.G{Kind: model.Polygon, Layout: layout, C2: [][][]float64{ring}})
	}
	for _, g := range gs {
		c.SetInput(map[string]any{"geometry": fmt.Sprintf("%s %s of exactly %d coordinates, ordinate i = (i mod 9973) + 0.25", g.Kind, layout, n)})
		t := g.BuildFlat()
		var text string
		var err error
		var back geom.T
		if c.Guard("panic", func() {
			text, err = wkt.Marshal(t)
			if err == nil {
				back, err = wkt.Unmarshal(text)
			}
		}) {
			return
		}
		c.Eval(2)
		if err != nil {
			c.Fail("marshal-error", "%s of %d coordinates: Marshal/Unmarshal failed: %v", g.Kind, n, err)
			return
		}
		if !expectGeom(c, fmt.Sprintf("wkt.Unmarshal(Marshal(%s of %d coordinates))", g.Kind, n), back, g, model.Opts{}) {
			return
		}
		rg, rerr := ref.ReadWKT(text)
		if rerr != nil {
			c.Fail("reference-rejects", "%s of %d coordinates: the independent reader rejects the text: %v", g.Kind, n, rerr)
			return
		}
		if d := model.Equal(g, rg, model.Opts{}); d != "" {
			c.Fail("reference-differs", "%s of %d coordinates: the independent reader reads another geometry: %s", g.Kind, n, d)
			return
		}
	}
	c.Count("lengths_written_and_parsed")
	if idx%1000 == 0 {
		c.Distinct(fmt.Sprintf("every-length/%d", idx))
	}
}

// c05Deep: the text of a point inside 255 .. 70,000 nested collections (written
// out directly; the encoder needs minutes for such a value, the parser a fraction of
// a second) parses to exactly that nesting, in every dimensionality.
func c05Deep(c *fw.Ctx, idx int) {
	depths := []int{255, 256, 257, 4095, 4096, 32767, 32768, 65535, 65536, 65537, 70000, 131072}
	d := depths[idx%len(depths)]
	suffix, layout, coords := [][3]string{{"", "XY", "1 2"}, {" Z", "XYZ", "1 2 3"}, {" M", "XYM", "1 2 3"}, {" ZM", "XYZM", "1 2 3 4"}}[(idx/len(depths))%4][0], "", ""
	sel := [][3]string{{"", "XY", "1 2"}, {" Z", "XYZ", "1 2 3"}, {" M", "XYM", "1 2 3"}, {" ZM", "XYZM", "1 2 3 4"}}[(idx/len(depths))%4]
	suffix, layout, coords = sel[0], sel[1], sel[2]
	text := strings.Repeat("GEOMETRYCOLLECTION"+suffix+" (", d) + "POINT" + suffix + " (" + coords + ")" + strings.Repeat(")", d)
	c.SetInput(map[string]any{"text": fmt.Sprintf("POINT%s (%s) inside %d nested GEOMETRYCOLLECTION%s ( ... )", suffix, coords, d, suffix)})
	var t geom.T
	var err error
	if c.Guard("panic", func() { t, err = wkt.Unmarshal(text) }) {
		return
	}
	c.Eval(1)
	c.Count("deeply_nested_texts_parsed")
	c.Distinct(fmt.Sprintf("deep/%d/%s", d, layout))
	if err != nil {
		c.Fail("unmarshal-error", "a point inside %d nested collections was rejected: %v", d, err)
		return
	}
	depth := 0
	x := t
	for {
		gc, ok := x.(*geom.GeometryCollection)
		if !ok {
			break
		}
		if gc.NumGeoms() != 1 {
			c.Fail("not-equal", "collection at depth %d holds %d members, the text has 1", depth, gc.NumGeoms())
			return
		}
		depth++
		x = gc.Geom(0)
	}
	p, ok := x.(*geom.Point)
	if depth != d || !ok || p.Layout().String() != layout || len(p.FlatCoords()) != len(strings.Fields(coords)) || p.FlatCoords()[0] != 1 || p.FlatCoords()[1] != 2 {
		c.Fail("not-equal", "text nests %d collections around POINT%s (%s); parsed: %d collections around %T %v", d, suffix, coords, depth, x, x)
	}
}

func init() {
	fw.Register(&fw.Monitor{
		ID:     "C05",
		Title:  "WKT output round-trips and reads the same in an independent WKT reader",
		Rule:   "models in the property's domain (finite ordinates incl. -0, 5e-324, 1.8e308; one uniform layout in XY/XYZ/XYM/XYZM; linestrings of 0 or >=2 points; closed rings of >=4 points; EMPTY members anywhere; collections nested to depth 4 carrying their layout): wkt.Marshal text must be accepted by wkt.Unmarshal and by the independent reader (numbers converted through exact rational arithmetic) and both must equal the model bit for bit; 8 spellings per model over {mixed case, whitespace/newlines/tabs, bare/parenthesised multipoint members, attached/detached suffix, exponent numbers} must parse to the same model. distinct_nontrivial = distinct non-empty shape signatures",
		Assume: []string{"reference WKT reader and speller in harness/ref, pinned by OGC SFA examples (go test ./ref)"},
		Classes: []fw.Class{
			{Name: "roundtrip", Quick: 40000, Thorough: 1000000, Run: c05Run},
			{Name: "every-length", Quick: 3001, Thorough: 20001, Chunk: 40, Run: c05EveryLength, Exhaustive: "multipoint, line string and polygon ring of every number of coordinates from 0 to the class count"},
			{Name: "deep-texts", Quick: 48, Thorough: 48, Chunk: 2, Run: c05Deep, Exhaustive: "a point inside 255..131,072 nested collections, 12 depths x 4 dimensionalities"},
		},
		Require: []string{"with_EMPTY_member", "with_EMPTY_member_before_nonempty", "kind_GeometryCollection", "kind_MultiPolygon", "spelling_mixed-case", "spelling_newline-or-tab", "spelling_bare-multipoint-member", "spelling_parenthesised-multipoint-member", "spelling_detached-suffix", "spelling_attached-suffix", "spelling_exponent"},
	})
}
