package mon

import (
	"fmt"
	"math"
	"sort"

	geom "github.com/twpayne/go-geom"
	"github.com/twpayne/go-geom/xy"

	"verifharness/fw"
	"verifharness/model"
)

// C13 - the convex hull is the exact convex hull of the input points.

// hullOracle returns the strict extreme points (monotone chain, exact integer
// arithmetic), whether all points coincide, and whether all are collinear.
func hullOracle(pts []ipt) (extreme []ipt, distinct int, collinear bool) {
	s := append([]ipt{}, pts...)
	sort.Slice(s, func(i, j int) bool {
		if s[i].x != s[j].x {
			return s[i].x < s[j].x
		}
		return s[i].y < s[j].y
	})
	u := s[:0:0]
	for i, p := range s {
		if i == 0 || p != s[i-1] {
			u = append(u, p)
		}
	}
	distinct = len(u)
	if distinct <= 2 {
		return u, distinct, true
	}
	collinear = true
	for i := 2; i < len(u); i++ {
		if icross(u[0], u[1], u[i]) != 0 {
			collinear = false
			break
		}
	}
	if collinear {
		return []ipt{u[0], u[len(u)-1]}, distinct, true
	}
	var lower, upper []ipt
	for _, p := range u {
		for len(lower) >= 2 && icross(lower[len(lower)-2], lower[len(lower)-1], p) <= 0 {
			lower = lower[:len(lower)-1]
		}
		lower = append(lower, p)
	}
	for i := len(u) - 1; i >= 0; i-- {
		p := u[i]
		for len(upper) >= 2 && icross(upper[len(upper)-2], upper[len(upper)-1], p) <= 0 {
			upper = upper[:len(upper)-1]
		}
		upper = append(upper, p)
	}
	extreme = append(lower[:len(lower)-1], upper[:len(upper)-1]...)
	return extreme, distinct, false
}

func c13Desc(layout geom.Layout, flat []float64, via string) map[string]any {
	return map[string]any{"layout": layout.String(), "coords": fw.Fs(flat), "via": via}
}

// c13Check runs one hull computation and judges it.
// an input buffer that lives as long as the worker process
var (
	c13Buf   [1024]float64
	c13Calls int
)

func c13Check(c *fw.Ctx, layout geom.Layout, pts []ipt, via int, class string) {
	if c.R.Chance(1, 64) {
		xyRefusedCalls(c)
	}
	stride := layout.Stride()
	flat := make([]float64, 0, len(pts)*stride)
	// one input in three writes some of its zero ordinates as -0: the same point
	// then occurs with both zero signs (equal as numbers, different as bit patterns)
	negZero := c.R.Chance(1, 3)
	nz := func(v int64) float64 {
		if v == 0 && negZero && c.R.Bool() {
			c.Count("ordinates_written_as_negative_zero")
			return math.Copysign(0, -1)
		}
		return float64(v)
	}
	// one input in six (with extra ordinates) has NaN in some of them - "not measured" -:
	// what the hull does with duplicates is its business, the caller's array is not
	nanExtras := stride > 2 && c.R.Chance(1, 6)
	for i, p := range pts {
		flat = append(flat, nz(p.x), nz(p.y))
		for k := 2; k < stride; k++ {
			// unique ids in the extra ordinates make provenance observable
			v := float64(1000*(k-1) + i)
			if nanExtras && c.R.Chance(1, 3) {
				v = math.NaN()
			}
			flat = append(flat, v)
		}
	}
	if nanExtras {
		c.Count("inputs_with_nan_in_extra_ordinates")
	}
	// every other input sits in a buffer the caller keeps and refills for the next
	// input: a hull that is built on the caller's memory instead of a copy changes
	// when the buffer is refilled (the held hull of the previous case is re-read)
	c13Calls++
	if c13Calls%2 == 0 && len(flat) <= len(c13Buf) {
		copy(c13Buf[:], flat)
		flat = c13Buf[:len(flat):len(flat)]
		c.Count("inputs_passed_in_a_reused_buffer")
	}
	vias := []string{"ConvexHullFlat", "ConvexHull(MultiPoint)", "ConvexHull(LineString)", "ConvexHull(MultiLineString)", "ConvexHull(Polygon of several rings)", "ConvexHull(MultiPolygon)", "ConvexHull(Point)", "ConvexHull(LinearRing)", "ConvexHull(Polygon of one ring)"}
	if len(pts) == 1 && c.R.Bool() {
		via = 6
	} else if len(pts) >= 3 && c.R.Chance(1, 8) {
		// the points as one ring that is not closed; with extra ordinates, the last
		// coordinate's final two ordinates are made equal to the first position (a
		// coincidence of numbers, nothing else)
		via = 7 + c.R.Intn(2)
		if stride > 2 {
			n := len(pts)
			if stride == 3 {
				flat[(n-1)*stride+1] = flat[0]
				pts[n-1].y = pts[0].x
			}
			flat[(n-1)*stride+stride-2+0] = flat[0]
			flat[(n-1)*stride+stride-1] = flat[1]
			if stride == 3 {
				flat[(n-1)*stride+1] = flat[0]
			}
		}
	}
	// the same points in any container: split into parts at random places
	if via < 3 && len(pts) >= 2 && c.R.Chance(1, 4) {
		via = 3 + c.R.Intn(3)
	}
	var cuts []int
	if via >= 3 && via <= 5 {
		for i := 1; i < len(pts); i++ {
			if c.R.Chance(1, 3) {
				cuts = append(cuts, i*stride)
			}
		}
		cuts = append(cuts, len(pts)*stride)
	}
	c.SetInput(c13Desc(layout, flat, vias[via]))
	if c.R.Chance(1, 16) {
		// hulls that are refused or panic part-way (NaN positions, an array that ends
		// in a partial coordinate) right before the judged one: whatever they do, the
		// next call starts from nothing
		func() {
			defer func() { _ = recover() }()
			bad := append([]float64{}, flat...)
			if len(bad) >= stride {
				bad[(len(pts)/2)*stride%len(bad)] = math.NaN()
			}
			_ = xy.ConvexHullFlat(layout, bad)
		}()
		func() {
			defer func() { _ = recover() }()
			if len(flat) > 1 {
				_ = xy.ConvexHullFlat(layout, flat[:len(flat)-1])
			}
		}()
		c.Count("refused_hulls_first")
	}
	if stride > 2 && c.R.Chance(1, 4) {
		// the same positions with other extra ordinates, right before: the judged
		// hull carries the extras of ITS input
		func() {
			defer func() { _ = recover() }()
			twin := append([]float64{}, flat...)
			for i := 0; i < len(twin); i += stride {
				for k := 2; k < stride; k++ {
					twin[i+k] += 500000
				}
			}
			_ = xy.ConvexHullFlat(layout, twin)
		}()
		c.Count("hull_of_the_same_positions_with_other_extras_first")
	}
	before := append([]float64{}, flat...)
	var res geom.T
	if c.Guard("panic", func() {
		switch via {
		case 0:
			res = xy.ConvexHullFlat(layout, flat)
		case 1:
			res = xy.ConvexHull(geom.NewMultiPointFlat(layout, flat))
		case 2:
			res = xy.ConvexHull(geom.NewLineStringFlat(layout, flat))
		case 3:
			res = xy.ConvexHull(geom.NewMultiLineStringFlat(layout, flat, cuts))
		case 4:
			res = xy.ConvexHull(geom.NewPolygonFlat(layout, flat, cuts))
		case 6:
			res = xy.ConvexHull(geom.NewPointFlat(layout, flat))
		case 7:
			res = xy.ConvexHull(geom.NewLinearRingFlat(layout, flat))
		case 8:
			res = xy.ConvexHull(geom.NewPolygonFlat(layout, flat, []int{len(flat)}))
		default:
			var endss [][]int
			for i := 0; i < len(cuts); {
				k := 1 + c.R.Intn(2)
				if i+k > len(cuts) {
					k = len(cuts) - i
				}
				endss = append(endss, cuts[i:i+k])
				i += k
			}
			res = xy.ConvexHull(geom.NewMultiPolygonFlat(layout, flat, endss))
		}
	}) {
		return
	}
	c.Eval(1)
	c.Count("via_" + vias[via])
	if len(pts) > 50 {
		c.Count("n_over_50")
	} else {
		c.Count("n_up_to_50")
	}
	if !model.BitsEq(before, flat) {
		c.Fail("input-modified", "the caller's coordinate slice was modified: now %s", fw.Fs(flat))
		return
	}
	defer func() {
		// the hull belongs to the caller now: moving it must not move the input
		if res == nil || isNilGeom(res) {
			return
		}
		if c.Guard("panic", func() { geom.TransformInPlace(res, func(co geom.Coord) { co[0] += 1e6; co[1] -= 1e6 }) }) {
			return
		}
		if c.R.Chance(1, 3) {
			// ... pushing rings onto it, overwriting its ordinates and end offsets likewise
			callerScribbles(c, res)
		}
		if !model.BitsEq(before, flat) {
			c.Fail("input-modified", "transforming the returned hull in place changed the caller's coordinate slice: now %s", fw.Fs(flat))
			return
		}
		// the hull stays referenced until the next case: later calls of the library
		// and the refilling of the input buffer must not change it
		hr := res
		holdAndRecheck(c, "c13-hull", "convex hull geometry", func() string { return fmt.Sprint(hr.Layout(), fw.Fs(hr.FlatCoords()), hr.Ends()) })
	}()
	ext, distinct, collinear := hullOracle(pts)
	if res == nil || isNilGeom(res) {
		c.Fail("nil-hull", "nil result for %d input points", len(pts))
		return
	}
	if err := model.WF(res); err != nil {
		c.Fail("ill-formed", "hull is not well formed: %v", err)
		return
	}
	if res.Layout() != layout {
		c.Fail("wrong-layout", "hull layout %s, input layout %s", res.Layout(), layout)
		return
	}
	rf := res.FlatCoords()
	// provenance: every result coordinate is bitwise one of the input coordinates
	fromInput := func(co []float64) bool {
		for i := 0; i+stride <= len(before); i += stride {
			if model.BitsEq(before[i:i+stride], co) {
				return true
			}
		}
		return false
	}
	for i := 0; i+stride <= len(rf); i += stride {
		if !fromInput(rf[i : i+stride]) {
			c.Fail("vertex-not-input", "hull vertex %s is not one of the input coordinates (result %T %s)", fw.Fs(rf[i:i+stride]), res, fw.Fs(rf))
			return
		}
	}
	toI := func(i int) ipt { return ipt{int64(rf[i]), int64(rf[i+1])} }
	switch {
	case distinct == 1:
		c.Count("result_point")
		p, ok := res.(*geom.Point)
		if !ok || len(rf) != stride {
			c.Fail("wrong-result-type", "all %d points coincide but the hull is %T %s, want a Point", len(pts), res, fw.Fs(rf))
			return
		}
		_ = p
		if toI(0) != ext[0] {
			c.Fail("wrong-hull", "hull point %s, want (%d %d)", fw.Fs(rf), ext[0].x, ext[0].y)
		}
	case collinear:
		c.Count("result_line")
		if _, ok := res.(*geom.LineString); !ok || len(rf) != 2*stride {
			c.Fail("wrong-result-type", "all points are collinear (%d distinct) but the hull is %T %s, want a 2-point LineString", distinct, res, fw.Fs(rf))
			return
		}
		a, b := toI(0), toI(stride)
		if !(a == ext[0] && b == ext[1] || a == ext[1] && b == ext[0]) {
			c.Fail("wrong-hull", "hull line %s, want the extremes (%d %d),(%d %d)", fw.Fs(rf), ext[0].x, ext[0].y, ext[1].x, ext[1].y)
		}
	default:
		c.Count("result_polygon")
		c.Max("hull_vertices", float64(len(ext)))
		pg, ok := res.(*geom.Polygon)
		if !ok {
			c.Fail("wrong-result-type", "points span the plane but the hull is %T %s, want a Polygon", res, fw.Fs(rf))
			return
		}
		if pg.NumLinearRings() != 1 {
			c.Fail("wrong-hull", "hull polygon has %d rings", pg.NumLinearRings())
			return
		}
		n := len(rf) / stride
		if n < 4 {
			c.Fail("wrong-hull", "hull ring has %d coordinates (<4): %s", n, fw.Fs(rf))
			return
		}
		if !model.BitsEq(rf[:stride], rf[len(rf)-stride:]) {
			c.Fail("ring-not-closed", "hull ring is not closed: %s", fw.Fs(rf))
			return
		}
		verts := make([]ipt, n-1)
		seen := map[ipt]bool{}
		for i := 0; i < n-1; i++ {
			verts[i] = toI(i * stride)
			if seen[verts[i]] {
				c.Fail("duplicate-vertex", "hull ring repeats vertex (%d %d): %s", verts[i].x, verts[i].y, fw.Fs(rf))
				return
			}
			seen[verts[i]] = true
		}
		// strict turns of one sign
		sign := int64(0)
		m := len(verts)
		for i := 0; i < m; i++ {
			cr := icross(verts[i], verts[(i+1)%m], verts[(i+2)%m])
			if cr == 0 {
				c.Fail("collinear-vertex", "hull vertex (%d %d) is collinear with its neighbours: %s", verts[(i+1)%m].x, verts[(i+1)%m].y, fw.Fs(rf))
				return
			}
			if sign == 0 {
				sign = cr
			} else if (cr > 0) != (sign > 0) {
				c.Fail("not-convex", "hull ring turns in both directions: %s", fw.Fs(rf))
				return
			}
		}
		// vertex set == exact extreme set
		want := map[ipt]bool{}
		for _, e := range ext {
			want[e] = true
		}
		for _, v := range verts {
			if !want[v] {
				c.Fail("wrong-hull", "hull vertex (%d %d) is not an extreme point of the input; exact hull has %d vertices, result %s", v.x, v.y, len(ext), fw.Fs(rf))
				return
			}
		}
		for _, e := range ext {
			if !seen[e] {
				c.Fail("wrong-hull", "extreme point (%d %d) of the input is missing from the hull (exact hull has %d vertices, result has %d): an input point lies outside the result", e.x, e.y, len(ext), len(verts))
				return
			}
		}
	}
	c.Distinct(fmt.Sprintf("%s/%d/%d/%v", class, len(pts), distinct, collinear))
}

var c13Layouts = []geom.Layout{geom.XY, geom.XYZ, geom.XYM, geom.XYZM}

// (i) every sequence of 1..5 points on a 3x3 grid
func c13Exhaustive(c *fw.Ctx, idx int) {
	n := 1
	base := 0
	sz := 9
	for idx >= base+sz {
		base += sz
		sz *= 9
		n++
	}
	k := idx - base
	pts := make([]ipt, n)
	for i := range pts {
		pts[i] = ipt{int64(k % 3), int64(k / 3 % 3)}
		k /= 9
	}
	c13Check(c, c13Layouts[idx%4], pts, idx%3, "exh")
	if idx%7001 == 0 && c.WantSample() {
		c.Sample(c.Input())
	}
}

// (ii) random multisets
func c13Random(c *fw.Ctx, idx int) {
	r := c.R
	var n int
	switch r.Intn(4) {
	case 0:
		n = r.Range(48, 53)
	case 1:
		n = r.Range(1, 12)
	case 2:
		n = r.Range(51, 200)
	default:
		n = r.Range(1, 200)
	}
	g := []int64{3, 5, 17, 1000, 1 << 20}[r.Intn(5)]
	rp := func() ipt { return ipt{int64(r.Intn(int(g))), int64(r.Intn(int(g)))} }
	pts := make([]ipt, 0, n)
	kind := r.Intn(14)
	names := []string{"coincident", "two-values", "collinear-axis", "collinear-general", "circle", "clustered", "uniform", "few-extremes", "octagon-degenerate", "octagon-degenerate", "lune-chain", "lune-chain", "convex-arc", "octagon-edge-by-one"}
	switch kind {
	case 13:
		// eight extreme points (W, NW, N, NE, ...) in convex position at 2^29, 45..150
		// small interior points, and next to one to three of the octagon's edges a
		// point whose cross product with that edge is exactly +1 (just outside: a
		// hull vertex), -1 (just inside) or 0 (on it): the interior-point reduction
		// has to decide that with 2^28-sized differences
		const S = int64(1) << 29
		j := func() int64 { return int64(r.Range(-1000000, 1000000)) }
		oct := []ipt{
			{-S, j()}, {-S + S/4 + j(), S - S/3 + j()}, {j(), S}, {S - S/4 + j(), S - S/3 + j()},
			{S, j()}, {S - S/4 + j(), -S + S/3 + j()}, {j(), -S}, {-S + S/4 + j(), -S + S/3 + j()},
		}
		for i := 0; i < r.Range(45, 150); i++ {
			pts = append(pts, ipt{int64(r.Range(-9, 9)), int64(r.Range(-9, 9))})
		}
		for e := r.Range(1, 3); e > 0; e-- {
			k := r.Intn(8)
			a, b := oct[k], oct[(k+1)%8]
			dx, dy := b.x-a.x, b.y-a.y
			for tries := 0; tries < 50; tries++ {
				if g, _, _ := egcd(abs64(dx), abs64(dy)); g == 1 || g == -1 {
					break
				}
				b.x++
				dx = b.x - a.x
			}
			oct[(k+1)%8] = b
			g, x, y := egcd(dx, dy) // dx x + dy y = g = +-1
			if g != 1 && g != -1 {
				continue
			}
			// (u, v) with dx v - dy u = 1
			u, v := -y*g, x*g
			// move along the edge to somewhere between its ends
			if dx != 0 {
				q := (u - dx/2) / dx
				u, v = u-q*dx, v-q*dy
			}
			d := int64([]int{1, 1, 1, -1, 0}[r.Intn(5)])
			// the octagon above runs clockwise; "outside" is to the left of a -> b
			pts = append(pts, ipt{a.x + d*u + (1-abs64(d))*dx/2, a.y + d*v + (1-abs64(d))*dy/2})
		}
		pts = append(pts, oct...)
	case 12:
		// every point is a hull vertex and none lies inside the octagon of extreme
		// points: k -> (k, k*k) and the like, 30..200 points
		m := r.Range(30, 200)
		off := int64(r.Range(-100, 100))
		fx, tr := r.Bool(), r.Bool()
		for k := int64(0); k < int64(m); k++ {
			p := ipt{k + off, k * k}
			if fx {
				p.y = -p.y
			}
			if tr {
				p.x, p.y = p.y, p.x
			}
			pts = append(pts, p)
		}
	case 10, 11:
		// a hull of m vertices on a large circle; between two of them, just inside
		// the hull but outside the octagon of extreme points, a long chain of k
		// points on a small arc that turns the same way as the hull: a scan keeps
		// all of them until the next hull vertex arrives and then drops them in
		// one step (a deep stack that collapses at once)
		R := float64(int64(1) << 19)
		m := r.Range(10, 40)
		k := r.Range(20, 90)
		gapAt := r.Intn(m)
		rot := r.Float01() * 2 * math.Pi
		for i := 0; i < m; i++ {
			a := rot + 2*math.Pi*float64(i)/float64(m)
			pts = append(pts, ipt{int64(math.Round(R * math.Cos(a))), int64(math.Round(R * math.Sin(a)))})
		}
		// the chain sits near the middle of the gap between hull vertices gapAt and gapAt+1
		a0 := rot + 2*math.Pi*(float64(gapAt)+0.5)/float64(m)
		half := math.Pi / float64(m)
		depth := R * (1 - math.Cos(half)) // sagitta of the gap: how far the chord is inside the circle
		rr := (0.02 + 0.05*r.Float01()) * R
		cx := (R - depth - rr*1.05 - r.Float01()*0.01*R) * math.Cos(a0)
		cy := (R - depth - rr*1.05 - r.Float01()*0.01*R) * math.Sin(a0)
		span := (0.3 + 1.2*r.Float01()) * math.Pi / 2
		for j := 0; j < k; j++ {
			a := a0 - span/2 + span*float64(j)/float64(k-1)
			pts = append(pts, ipt{int64(math.Round(cx + rr*math.Cos(a))), int64(math.Round(cy + rr*math.Sin(a)))})
		}
		for extra := r.Intn(6); extra > 0; extra-- {
			pts = append(pts, ipt{int64(r.Range(-1000, 1000)), int64(r.Range(-1000, 1000))})
		}
	case 0:
		p := rp()
		for i := 0; i < n; i++ {
			pts = append(pts, p)
		}
	case 1:
		a, b := rp(), rp()
		for i := 0; i < n; i++ {
			if r.Bool() {
				pts = append(pts, a)
			} else {
				pts = append(pts, b)
			}
		}
	case 2:
		k := int64(r.Intn(int(g)))
		horiz := r.Bool()
		for i := 0; i < n; i++ {
			v := int64(r.Intn(int(g)))
			if horiz {
				pts = append(pts, ipt{v, k})
			} else {
				pts = append(pts, ipt{k, v})
			}
		}
	case 3:
		a := rp()
		dx, dy := int64(r.Range(-3, 3)), int64(r.Range(-3, 3))
		for i := 0; i < n; i++ {
			t := int64(r.Range(-20, 20))
			pts = append(pts, ipt{a.x + t*dx, a.y + t*dy})
		}
	case 4:
		rad := float64(g)
		if rad < 1000 {
			rad = 1000
		}
		for i := 0; i < n; i++ {
			a := 2 * math.Pi * float64(i) / float64(n)
			pts = append(pts, ipt{int64(math.Round(rad * math.Cos(a))), int64(math.Round(rad * math.Sin(a)))})
			if r.Chance(1, 10) {
				pts = append(pts, pts[len(pts)-1])
			}
		}
	case 5:
		nc := r.Range(1, 4)
		var cs []ipt
		for i := 0; i < nc; i++ {
			cs = append(cs, rp())
		}
		for i := 0; i < n; i++ {
			cc := cs[r.Intn(nc)]
			pts = append(pts, ipt{cc.x + int64(r.Range(-2, 2)), cc.y + int64(r.Range(-2, 2))})
		}
	case 6:
		for i := 0; i < n; i++ {
			pts = append(pts, rp())
		}
	case 8, 9:
		// point sets whose eight extreme-direction points (min/max of x, y, x+y,
		// x-y) collapse onto two or three input points although the set spans
		// the plane: two opposite corners of the bounding box are input points
		// and every other point lies in the band between the two diagonals
		// through them; mirrored and transposed at random
		w := int64(r.Range(1, 40)) * (g/40 + 1)
		h := w * int64(r.Range(2, 12))
		corners := []ipt{{0, h}, {w, 0}}
		if kind == 9 && r.Bool() {
			corners = append(corners, ipt{w, h - w}) // a third extreme on the band's edge
		}
		pts = append(pts, corners...)
		for len(pts) < n {
			x := int64(r.Intn(int(w) + 1))
			lo, hi := w-x, h-x // w <= x+y <= h
			if hi < lo {
				continue
			}
			y := lo + int64(r.Intn(int(hi-lo)+1))
			pts = append(pts, ipt{x, y})
		}
		fx, fy, tr := r.Bool(), r.Bool(), r.Bool()
		for i := range pts {
			if fx {
				pts[i].x = -pts[i].x
			}
			if fy {
				pts[i].y = -pts[i].y
			}
			if tr {
				pts[i].x, pts[i].y = pts[i].y, pts[i].x
			}
		}
	default:
		// a few far extremes plus a dense interior: exercises the interior-point reduction
		for i := 0; i < n; i++ {
			if i < 5 {
				pts = append(pts, ipt{int64(r.Range(-10, 10)) * g, int64(r.Range(-10, 10)) * g})
			} else {
				pts = append(pts, rp())
			}
		}
	}
	// shuffle
	perm := r.Perm(len(pts))
	sh := make([]ipt, len(pts))
	for i, j := range perm {
		sh[i] = pts[j]
	}
	// one input in four arrives in an order: sorted by (x, y) or by (y, x), up or
	// down, with or without its duplicates, and perhaps with one earlier point
	// repeated at the very end
	if r.Chance(1, 4) {
		byYX, down := r.Bool(), r.Bool()
		sort.Slice(sh, func(i, j int) bool {
			a, b := sh[i], sh[j]
			if byYX {
				a.x, a.y, b.x, b.y = a.y, a.x, b.y, b.x
			}
			if down {
				a, b = b, a
			}
			return a.x < b.x || a.x == b.x && a.y < b.y
		})
		if r.Bool() {
			w := sh[:0]
			for i, p := range sh {
				if i == 0 || p != sh[i-1] {
					w = append(w, p)
				}
			}
			sh = w
			c.Count("input_strictly_sorted")
		} else {
			c.Count("input_sorted")
		}
		if len(sh) > 2 && r.Chance(1, 3) {
			sh = append(sh, sh[r.Range(0, len(sh)-2)])
			c.Count("input_sorted_with_an_earlier_point_repeated_at_the_end")
		}
	}
	c.Count("kind_" + names[kind])
	c13Check(c, c13Layouts[r.Intn(4)], sh, r.Intn(3), names[kind])
	if c.WantSample() && len(sh) <= 12 {
		c.Sample(c.Input())
	}
}

func init() {
	fw.Register(&fw.Monitor{
		ID:     "C13",
		Title:  "convex hull is the exact convex hull of the input points",
		Rule:   "ConvexHullFlat / ConvexHull(MultiPoint|LineString) on integer point multisets compared with a monotone-chain hull in exact integer arithmetic: vertex set == strict extreme points, every vertex bitwise an input coordinate (unique ids in Z/M), closed ring with strict turns of one sign, 2-point line when collinear, point when coincident, caller's slice unchanged; every sequence of 1..5 points on a 3x3 grid; random multisets of 1..200 points (sizes around the 50-point switch over-weighted) on grids 3..2^20 in classes coincident/two-values/collinear/circle/clustered/uniform/few-extremes. distinct_nontrivial = distinct (class, n, #distinct points, collinear) combinations",
		Assume: []string{"int64 arithmetic is exact on grids up to 2^20 x 10"},
		Classes: []fw.Class{
			{Name: "exhaustive-3x3", Quick: 66429, Thorough: 66429, Run: c13Exhaustive, Exhaustive: "every sequence of 1..5 points on a 3x3 grid"},
			{Name: "random", Quick: 150000, Thorough: 12000000, Run: c13Random},
		},
		Require: []string{"result_point", "result_line", "result_polygon", "n_over_50", "n_up_to_50", "kind_circle", "kind_coincident", "kind_collinear-general"},
	})
}
