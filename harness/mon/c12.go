package mon

import (
	"fmt"
	"math"
	"math/big"

	geom "github.com/twpayne/go-geom"
	"github.com/twpayne/go-geom/xy/lineintersection"
	"github.com/twpayne/go-geom/xy/lineintersector"

	"verifharness/exact"
	"verifharness/fw"
	"verifharness/gen"
)

// C12 - segment intersection is classified exactly and located accurately.

type seg struct{ a, b [2]float64 }

type c12truth struct {
	typ      lineintersection.Type
	class    string
	pt       exact.P    // point intersection
	ptIsEnd  bool       // the point is an input endpoint
	ends     [2]exact.P // overlap endpoints
	crossAbs *big.Rat   // |d1 x d2| for proper crossings
	huge     bool       // ordinates beyond 1e100: a reported crossing must still be finite
	float    bool       // some ordinate is not an integer: the location bound allows for the rounding of the inputs' differences
}

func c12Exact(s1, s2 seg) c12truth {
	a, b := exact.Pt(s1.a[0], s1.a[1]), exact.Pt(s1.b[0], s1.b[1])
	cc, d := exact.Pt(s2.a[0], s2.a[1]), exact.Pt(s2.b[0], s2.b[1])
	o1 := exact.Orient(a, b, cc)
	o2 := exact.Orient(a, b, d)
	o3 := exact.Orient(cc, d, a)
	o4 := exact.Orient(cc, d, b)
	if o1 == 0 && o2 == 0 && o3 == 0 && o4 == 0 {
		// collinear: order along the dominant axis
		key := func(p exact.P) *big.Rat {
			if a.X.Cmp(b.X) != 0 {
				return p.X
			}
			return p.Y
		}
		lo1, hi1 := a, b
		if key(lo1).Cmp(key(hi1)) > 0 {
			lo1, hi1 = hi1, lo1
		}
		lo2, hi2 := cc, d
		if key(lo2).Cmp(key(hi2)) > 0 {
			lo2, hi2 = hi2, lo2
		}
		lo, hi := lo1, hi1
		if key(lo2).Cmp(key(lo)) > 0 {
			lo = lo2
		}
		if key(hi2).Cmp(key(hi)) < 0 {
			hi = hi2
		}
		switch key(lo).Cmp(key(hi)) {
		case 1:
			return c12truth{typ: lineintersection.NoIntersection, class: "collinear-disjoint"}
		case 0:
			return c12truth{typ: lineintersection.PointIntersection, class: "collinear-touching", pt: lo, ptIsEnd: true}
		default:
			return c12truth{typ: lineintersection.CollinearIntersection, class: "collinear-overlap", ends: [2]exact.P{lo, hi}}
		}
	}
	if !exact.SegmentsIntersect(a, b, cc, d) {
		d1x, d1y := exact.Sub(b.X, a.X), exact.Sub(b.Y, a.Y)
		d2x, d2y := exact.Sub(d.X, cc.X), exact.Sub(d.Y, cc.Y)
		cl := "disjoint"
		if exact.Sub(exact.Mul(d1x, d2y), exact.Mul(d1y, d2x)).Sign() == 0 {
			cl = "parallel"
		}
		return c12truth{typ: lineintersection.NoIntersection, class: cl}
	}
	// single point
	switch {
	case a.Eq(cc) || a.Eq(d):
		return c12truth{typ: lineintersection.PointIntersection, class: "endpoint-endpoint", pt: a, ptIsEnd: true}
	case b.Eq(cc) || b.Eq(d):
		return c12truth{typ: lineintersection.PointIntersection, class: "endpoint-endpoint", pt: b, ptIsEnd: true}
	case o1 == 0:
		return c12truth{typ: lineintersection.PointIntersection, class: "t-junction", pt: cc, ptIsEnd: true}
	case o2 == 0:
		return c12truth{typ: lineintersection.PointIntersection, class: "t-junction", pt: d, ptIsEnd: true}
	case o3 == 0:
		return c12truth{typ: lineintersection.PointIntersection, class: "t-junction", pt: a, ptIsEnd: true}
	case o4 == 0:
		return c12truth{typ: lineintersection.PointIntersection, class: "t-junction", pt: b, ptIsEnd: true}
	}
	d1x, d1y := exact.Sub(b.X, a.X), exact.Sub(b.Y, a.Y)
	d2x, d2y := exact.Sub(d.X, cc.X), exact.Sub(d.Y, cc.Y)
	den := exact.Sub(exact.Mul(d1x, d2y), exact.Mul(d1y, d2x))
	acx, acy := exact.Sub(cc.X, a.X), exact.Sub(cc.Y, a.Y)
	t := exact.Quo(exact.Sub(exact.Mul(acx, d2y), exact.Mul(acy, d2x)), den)
	p := exact.P{X: exact.Add(a.X, exact.Mul(t, d1x)), Y: exact.Add(a.Y, exact.Mul(t, d1y))}
	return c12truth{typ: lineintersection.PointIntersection, class: "proper-crossing", pt: p, crossAbs: exact.Abs(den)}
}

func c12Desc(s1, s2 seg) map[string]any {
	return map[string]any{
		"line1": fmt.Sprintf("%s-%s", fw.Fs(s1.a[:]), fw.Fs(s1.b[:])),
		"line2": fmt.Sprintf("%s-%s", fw.Fs(s2.a[:]), fw.Fs(s2.b[:])),
	}
}

func inEnvelope(p geom.Coord, s seg) bool {
	return math.Min(s.a[0], s.b[0]) <= p[0] && p[0] <= math.Max(s.a[0], s.b[0]) &&
		math.Min(s.a[1], s.b[1]) <= p[1] && p[1] <= math.Max(s.a[1], s.b[1])
}

// c12CheckOne checks one presentation of a pair against the exact truth.
//
// a, b, cc, d are the caller's coordinate slices for s1.a, s1.b, s2.a, s2.b; they are
// shared by all presentations of the pair (and both strategies), as a caller
// that keeps its segments and asks again would share them.  After the
// non-robust call the robust question is asked once more on the same slices:
// the answer must still be the exact one.
func c12CheckOne(c *fw.Ctx, s1, s2 seg, a, b, cc, d geom.Coord, tr c12truth, locate, nonRobust bool) bool {
	c.SetInput(c12Desc(s1, s2))
	if !c12Robust(c, s1, s2, a, b, cc, d, tr, locate, "") {
		return false
	}
	if nonRobust {
		var nr lineintersection.Result
		if c.Guard("panic", func() {
			nr = lineintersector.LineIntersectsLine(lineintersector.NonRobustLineIntersector{}, a, b, cc, d)
		}) {
			return false
		}
		c.Eval(1)
		if nr.HasIntersection() != (tr.typ != lineintersection.NoIntersection) {
			c.Fail("nonrobust-disagrees", "non-robust strategy HasIntersection() = %v, exact answer %s (%s)", nr.HasIntersection(), tr.typ, tr.class)
			return false
		}
		c.Count("robust_asked_again_after_nonrobust")
		if !c12Robust(c, s1, s2, a, b, cc, d, tr, locate, " (asked again on the same coordinate slices after a non-robust call)") {
			return false
		}
	}
	return true
}

func c12Robust(c *fw.Ctx, s1, s2 seg, a, b, cc, d geom.Coord, tr c12truth, locate bool, when string) bool {
	var res lineintersection.Result
	if c.R.Chance(1, 4) {
		// other questions about the same coordinates first: is an end of one
		// segment on the other segment
		func() {
			defer func() { _ = recover() }()
			ends := []geom.Coord{a, b, cc, d}
			k := c.R.Intn(6)
			if k >= 4 {
				// the other strategy, same coordinates
				_ = lineintersector.LineIntersectsLine(lineintersector.NonRobustLineIntersector{}, a, b, cc, d)
				return
			}
			if k < 2 {
				_ = lineintersector.PointIntersectsLine(lineintersector.RobustLineIntersector{}, ends[k], cc, d)
			} else {
				_ = lineintersector.PointIntersectsLine(lineintersector.RobustLineIntersector{}, ends[k], a, b)
			}
		}()
		c.Count("point_on_segment_asked_about_the_same_coordinates_first")
	}
	// one proper crossing in five: the caller's coordinate buffers are reused for
	// something else between the call and the first look at the reported point (a
	// proper crossing is a new point; it has no reason to depend on them any more)
	reuse := tr.typ == lineintersection.PointIntersection && !tr.ptIsEnd && c.R.Chance(1, 5)
	if reuse {
		a, b, cc, d = append(geom.Coord{}, a...), append(geom.Coord{}, b...), append(geom.Coord{}, cc...), append(geom.Coord{}, d...)
	}
	if c.Guard("panic", func() {
		res = lineintersector.LineIntersectsLine(lineintersector.RobustLineIntersector{}, a, b, cc, d)
	}) {
		return false
	}
	if reuse {
		for _, co := range []geom.Coord{a, b, cc, d} {
			for i := range co {
				co[i] = co[i]*3 + 1000
			}
		}
		c.Count("argument_buffers_reused_before_the_reported_point_is_read")
	}
	c.Eval(1)
	if !c12NoHold && !holdAndRecheck(c, "c12-robust", "LineIntersectsLine result", func() string { return fmt.Sprint(res.Type(), res.Intersection()) }) {
		return false
	}
	if res.Type() != tr.typ {
		c.Fail("wrong-classification", "robust intersector says %s, exact arithmetic says %s (%s)"+when, res.Type(), tr.typ, tr.class)
		return false
	}
	if res.HasIntersection() != (tr.typ != lineintersection.NoIntersection) {
		c.Fail("wrong-classification", "HasIntersection() = %v inconsistent with type %s", res.HasIntersection(), tr.typ)
		return false
	}
	pts := res.Intersection()
	switch tr.typ {
	case lineintersection.NoIntersection:
		if len(pts) != 0 {
			c.Fail("wrong-points", "no intersection but %d points reported", len(pts))
			return false
		}
	case lineintersection.PointIntersection:
		if len(pts) != 1 || len(pts[0]) < 2 {
			c.Fail("wrong-points", "point intersection with %d points", len(pts))
			return false
		}
		p := pts[0]
		if tr.ptIsEnd {
			if !(exact.R(p[0]).Cmp(tr.pt.X) == 0 && exact.R(p[1]).Cmp(tr.pt.Y) == 0) {
				c.Fail("endpoint-not-exact", "segments meet at the endpoint (%v %v) but the reported point is %s", exact.F64(tr.pt.X), exact.F64(tr.pt.Y), fw.Fs(p[:2]))
				return false
			}
		} else if locate || tr.huge {
			if math.IsNaN(p[0]) || math.IsNaN(p[1]) || math.IsInf(p[0], 0) || math.IsInf(p[1], 0) {
				c.Fail("point-inaccurate", "reported crossing point %s is not finite", fw.Fs(p[:2]))
				return false
			}
			if !locate {
				// beyond 1e154 the products the location formula needs overflow; as the
				// code stands it then reports one of the four end points, which need not
				// lie in the other segment's envelope (DESIGN 4b).  Only finiteness is
				// demanded there; the classification above is exact at any magnitude.
				return true
			}
			if !tr.float && (!inEnvelope(p, s1) || !inEnvelope(p, s2)) {
				c.Fail("point-outside-envelope", "reported crossing point %s lies outside a segment's envelope", fw.Fs(p[:2]))
				return false
			}
			// distance to the exact crossing against the forward bound 64*2^-53*S^3/|d1 x d2|
			minx := math.Min(math.Min(s1.a[0], s1.b[0]), math.Min(s2.a[0], s2.b[0]))
			maxx := math.Max(math.Max(s1.a[0], s1.b[0]), math.Max(s2.a[0], s2.b[0]))
			miny := math.Min(math.Min(s1.a[1], s1.b[1]), math.Min(s2.a[1], s2.b[1]))
			maxy := math.Max(math.Max(s1.a[1], s1.b[1]), math.Max(s2.a[1], s2.b[1]))
			S := math.Max(maxx-minx, maxy-miny)
			bound := 64 * math.Ldexp(1, -53) * S * S * S / exact.F64(tr.crossAbs)
			if tr.float {
				// ordinates that are not integers: moving them to the envelope centre
				// already rounds each by up to an ulp of its magnitude M, which the
				// crossing amplifies by S^2/|d1 x d2| like any input perturbation, and
				// the reported point is itself rounded to a double of that magnitude
				M := math.Max(math.Max(math.Abs(minx), math.Abs(maxx)), math.Max(math.Abs(miny), math.Abs(maxy)))
				bound = 64*math.Ldexp(1, -53)*S*S*(S+M)/exact.F64(tr.crossAbs) + 2*math.Ldexp(M, -52)
			}
			dx := exact.Sub(exact.R(p[0]), tr.pt.X)
			dy := exact.Sub(exact.R(p[1]), tr.pt.Y)
			dist := math.Sqrt(exact.F64(exact.Add(exact.Mul(dx, dx), exact.Mul(dy, dy))))
			if dist > bound {
				c.Fail("point-inaccurate", "reported crossing %s is %g away from the exact crossing (%v %v); bound %g", fw.Fs(p[:2]), dist, exact.F64(tr.pt.X), exact.F64(tr.pt.Y), bound)
				return false
			}
			if bound > 0 {
				c.Max("crossing_error_over_bound", dist/bound)
			}
			c.Count("crossings_located")
		}
	case lineintersection.CollinearIntersection:
		if len(pts) != 2 {
			c.Fail("wrong-points", "collinear intersection with %d points", len(pts))
			return false
		}
		eq := func(p geom.Coord, q exact.P) bool {
			return len(p) >= 2 && !math.IsNaN(p[0]) && !math.IsNaN(p[1]) && exact.R(p[0]).Cmp(q.X) == 0 && exact.R(p[1]).Cmp(q.Y) == 0
		}
		if !(eq(pts[0], tr.ends[0]) && eq(pts[1], tr.ends[1]) || eq(pts[0], tr.ends[1]) && eq(pts[1], tr.ends[0])) {
			c.Fail("wrong-overlap", "overlap reported as %s,%s; exact overlap endpoints (%v %v),(%v %v)", fw.Fs(pts[0]), fw.Fs(pts[1]),
				exact.F64(tr.ends[0].X), exact.F64(tr.ends[0].Y), exact.F64(tr.ends[1].X), exact.F64(tr.ends[1].Y))
			return false
		}
	}
	return true
}

var c12CoordBufs [4][3]float64
var c12NoHold bool

// c12CheckPair checks all 8 symmetric presentations.
func c12CheckPair(c *fw.Ctx, s1, s2 seg, locate, nonRobust bool) {
	if c.R.Chance(1, 64) {
		xyRefusedCalls(c)
	}
	c.SetInput(c12Desc(s1, s2))
	tr := c12Exact(s1, s2)
	for _, v := range []float64{s1.a[0], s1.a[1], s1.b[0], s1.b[1], s2.a[0], s2.a[1], s2.b[0], s2.b[1]} {
		if math.Abs(v) > 1e100 {
			tr.huge = true
		}
		if v != math.Trunc(v) || math.Abs(v) > 1<<52 {
			tr.float = true
		}
	}
	c.Count("class_" + tr.class)
	mk := func(p [2]float64) geom.Coord {
		if c.R.Chance(1, 3) {
			return geom.Coord{p[0], p[1], math.NaN()}
		}
		return geom.Coord{p[0], p[1]}
	}
	co := [4]geom.Coord{mk(s1.a), mk(s1.b), mk(s2.a), mk(s2.b)}
	if c.R.Bool() {
		// the caller keeps four coordinate buffers and refills them for every pair:
		// same addresses, other segments
		for i := range co {
			b := c12CoordBufs[i][:len(co[i]):len(co[i])]
			copy(b, co[i])
			co[i] = b
		}
		c.Count("pairs_passed_in_refilled_coordinate_buffers")
		// (an overlap is reported as the caller's own end points: results of such a
		// pair are views of these buffers and are not held across pairs)
		c12NoHold = true
		delete(heldSlots, "c12-robust")
		defer func() { c12NoHold = false; delete(heldSlots, "c12-robust") }()
	}
	// one pair in four writes some zero ordinates as -0 (the same number; the
	// caller's bits must still be there after the calls)
	if c.R.Chance(1, 4) {
		for i := range co {
			for k := 0; k < 2; k++ {
				if co[i][k] == 0 && c.R.Bool() {
					co[i][k] = math.Copysign(0, -1)
					c.Count("ordinates_written_as_negative_zero")
				}
			}
		}
	}
	var orig [4][2]uint64
	for i := range co {
		orig[i] = [2]uint64{math.Float64bits(co[i][0]), math.Float64bits(co[i][1])}
	}
	for k := 0; k < 8; k++ {
		p1, p2 := s1, s2
		i1a, i1b, i2a, i2b := 0, 1, 2, 3
		if k&1 != 0 {
			p1 = seg{p1.b, p1.a}
			i1a, i1b = i1b, i1a
		}
		if k&2 != 0 {
			p2 = seg{p2.b, p2.a}
			i2a, i2b = i2b, i2a
		}
		if k&4 != 0 {
			p1, p2 = p2, p1
			i1a, i1b, i2a, i2b = i2a, i2b, i1a, i1b
		}
		if !c12CheckOne(c, p1, p2, co[i1a], co[i1b], co[i2a], co[i2b], tr, locate, nonRobust) {
			return
		}
	}
	if c12NoHold {
		// the pair is asked once more the way the next pair will be asked first: the
		// same four buffers in the same argument positions, with other contents by then
		if !c12Robust(c, s1, s2, co[0], co[1], co[2], co[3], tr, locate, " (asked again in the first presentation)") {
			return
		}
	}
	for i := range co {
		if math.Float64bits(co[i][0]) != orig[i][0] || math.Float64bits(co[i][1]) != orig[i][1] {
			c.Fail("argument-modified", "the caller's coordinate %d was (%v %v) before the calls and is %s after them (compared bit for bit)", i, math.Float64frombits(orig[i][0]), math.Float64frombits(orig[i][1]), fw.Fs(co[i][:2]))
			return
		}
	}
}

// (i) every ordered pair of non-degenerate segments on a 4x4 grid
func c12Exhaustive(c *fw.Ctx, idx int) {
	i1, i2 := idx%256, idx/256
	pt := func(k int) [2]float64 { return [2]float64{float64(k % 4), float64(k / 4)} }
	s1 := seg{pt(i1 % 16), pt(i1 / 16)}
	s2 := seg{pt(i2 % 16), pt(i2 / 16)}
	if s1.a == s1.b || s2.a == s2.b {
		c.Count("skipped_degenerate")
		return
	}
	c.Distinct(fmt.Sprintf("exh/%d", idx))
	c12CheckPair(c, s1, s2, true, true)
	if idx%4099 == 0 && c.WantSample() {
		c.Sample(c.Input())
	}
}

func rint(r *fw.Rand, g int) float64 { return float64(r.Range(-g, g)) }

// c12Construct builds an integer pair aimed at one configuration class.
func c12Construct(r *fw.Rand, g int) (seg, seg) {
	pt := func() [2]float64 { return [2]float64{rint(r, g), rint(r, g)} }
	for {
		var s1, s2 seg
		switch r.Intn(10) {
		case 0: // random pair
			s1, s2 = seg{pt(), pt()}, seg{pt(), pt()}
		case 1: // crossing at a lattice point
			x := pt()
			d1 := [2]float64{rint(r, g/4+1), rint(r, g/4+1)}
			d2 := [2]float64{rint(r, g/4+1), rint(r, g/4+1)}
			k1, k2, k3, k4 := float64(r.Range(1, 3)), float64(r.Range(1, 3)), float64(r.Range(1, 3)), float64(r.Range(1, 3))
			s1 = seg{[2]float64{x[0] - k1*d1[0], x[1] - k1*d1[1]}, [2]float64{x[0] + k2*d1[0], x[1] + k2*d1[1]}}
			s2 = seg{[2]float64{x[0] - k3*d2[0], x[1] - k3*d2[1]}, [2]float64{x[0] + k4*d2[0], x[1] + k4*d2[1]}}
		case 2: // shared endpoint
			x := pt()
			s1, s2 = seg{x, pt()}, seg{x, pt()}
		case 3: // T-junction: an endpoint in the interior of the other segment
			a := pt()
			d := [2]float64{rint(r, g/4+1), rint(r, g/4+1)}
			k := float64(r.Range(2, 4))
			b := [2]float64{a[0] + k*d[0], a[1] + k*d[1]}
			j := float64(r.Range(1, int(k)-1))
			x := [2]float64{a[0] + j*d[0], a[1] + j*d[1]}
			s1, s2 = seg{a, b}, seg{x, pt()}
		case 4, 5, 6: // collinear: four parameters along one direction
			a := pt()
			d := [2]float64{rint(r, g/8+1), rint(r, g/8+1)}
			ts := [4]float64{}
			for i := range ts {
				ts[i] = float64(r.Range(-4, 4))
			}
			if r.Chance(1, 3) {
				ts[2] = ts[1] // touching
			}
			s1 = seg{[2]float64{a[0] + ts[0]*d[0], a[1] + ts[0]*d[1]}, [2]float64{a[0] + ts[1]*d[0], a[1] + ts[1]*d[1]}}
			s2 = seg{[2]float64{a[0] + ts[2]*d[0], a[1] + ts[2]*d[1]}, [2]float64{a[0] + ts[3]*d[0], a[1] + ts[3]*d[1]}}
		case 7: // parallel, not collinear
			a := pt()
			d := [2]float64{rint(r, g/4+1), rint(r, g/4+1)}
			o := pt()
			k1, k2 := float64(r.Range(1, 3)), float64(r.Range(1, 3))
			s1 = seg{a, [2]float64{a[0] + k1*d[0], a[1] + k1*d[1]}}
			s2 = seg{o, [2]float64{o[0] + k2*d[0], o[1] + k2*d[1]}}
		case 8: // near miss: endpoint one unit off the other segment
			a := pt()
			d := [2]float64{rint(r, g/4+1), rint(r, g/4+1)}
			b := [2]float64{a[0] + 3*d[0], a[1] + 3*d[1]}
			x := [2]float64{a[0] + d[0] + float64(r.Range(-1, 1)), a[1] + d[1] + float64(r.Range(-1, 1))}
			s1, s2 = seg{a, b}, seg{x, pt()}
		default: // long nearly parallel crossing segments
			a := pt()
			d := [2]float64{rint(r, g), rint(r, g)}
			b := [2]float64{a[0] + d[0], a[1] + d[1]}
			cc := [2]float64{a[0] + float64(r.Range(-2, 2)), a[1] + float64(r.Range(-2, 2))}
			dd := [2]float64{b[0] + float64(r.Range(-2, 2)), b[1] + float64(r.Range(-2, 2))}
			s1, s2 = seg{a, b}, seg{cc, dd}
		}
		if s1.a != s1.b && s2.a != s2.b {
			return s1, s2
		}
	}
}

// (ii) constructed and random pairs on integer grids up to 2^20
func c12Grid(c *fw.Ctx, idx int) {
	r := c.R
	g := []int{4, 32, 1 << 10, 1 << 20}[r.Intn(4)]
	s1, s2 := c12Construct(r, g)
	for _, v := range []float64{s1.a[0], s1.a[1], s1.b[0], s1.b[1], s2.a[0], s2.a[1], s2.b[0], s2.b[1]} {
		if math.Abs(v) > 1<<22 {
			c.Count("skipped_out_of_grid")
			return
		}
	}
	c.Distinct(fmt.Sprintf("grid/%v/%v", s1, s2))
	c12CheckPair(c, s1, s2, true, true)
	if c.WantSample() {
		c.Sample(c.Input())
	}
}

// (iii) moderate-magnitude floats within a few ulps of those configurations: classification only
// (iii') float T-junctions: an endpoint of one segment computed on the other
// segment in floating point and then moved by -2..2 ulps in x and y (all 25
// neighbours), so the endpoint is exactly on, barely left of and barely right
// of the other segment: the classification none / point must follow the exact
// sign, which the floating-point filter of the orientation test cannot see
func c12FloatT(c *fw.Ctx, idx int) {
	r := c.R
	fl := func() float64 {
		switch r.Intn(3) {
		case 0:
			return gen.Float(r, gen.LonLat)
		case 1:
			return float64(r.Range(-1000, 1000)) / 7
		}
		return gen.Float(r, gen.Moderate)
	}
	s2 := seg{[2]float64{fl(), fl()}, [2]float64{fl(), fl()}}
	a := [2]float64{fl(), fl()}
	t := r.Float01()
	if r.Chance(1, 5) {
		t = float64(r.Range(0, 8)) / 8
	}
	px := s2.a[0] + t*(s2.b[0]-s2.a[0])
	py := s2.a[1] + t*(s2.b[1]-s2.a[1])
	for _, v := range []float64{s2.a[0], s2.a[1], s2.b[0], s2.b[1], a[0], a[1], px, py} {
		if math.IsNaN(v) || math.IsInf(v, 0) || math.Abs(v) > 1e9 {
			c.Count("skipped_degenerate")
			return
		}
	}
	if s2.a == s2.b {
		c.Count("skipped_degenerate")
		return
	}
	c.Count("float_t_junction_bases")
	for dx := -2; dx <= 2; dx++ {
		for dy := -2; dy <= 2; dy++ {
			p := [2]float64{gen.NextAfterN(px, dx), gen.NextAfterN(py, dy)}
			if p == a {
				continue
			}
			s1 := seg{a, p}
			if r.Bool() {
				s1 = seg{p, a}
			}
			c.Count("float_pairs")
			c12CheckPair(c, s1, s2, false, false)
		}
	}
	c.Distinct(fmt.Sprintf("floatT/%v/%v", s2, a))
}

// (v) the constructed configurations scaled by a power of two between 2^400 and
// 2^1000 (1e120 .. 1e301): scaling by a power of two is exact, so the exact
// answer is the same, while products of two ordinates overflow a double.
// Classification, exact end points and exact overlaps are judged as always; a
// reported crossing must be finite.
func c12Huge(c *fw.Ctx, idx int) {
	r := c.R
	s1, s2 := c12Construct(r, 32)
	k := r.Range(400, 1000)
	if r.Chance(1, 3) {
		k = []int{511, 512, 513, 520, 1000, 1010, 1015}[r.Intn(7)]
	}
	if r.Chance(1, 3) {
		// ... or scaled down by 2^-100 .. 2^-330 (1e-30 .. 1e-99, the smallest
		// magnitudes C10 names for the orientation predicate; below about 1e-154
		// products of two ordinate differences underflow and, as the code stands,
		// the classification is no longer exact - DESIGN 4b)
		k = -r.Range(100, 330)
		c.Count("tiny_magnitude_pairs")
	}
	sc := func(p [2]float64) [2]float64 { return [2]float64{math.Ldexp(p[0], k), math.Ldexp(p[1], k)} }
	f1, f2 := seg{sc(s1.a), sc(s1.b)}, seg{sc(s2.a), sc(s2.b)}
	if f1.a == f1.b || f2.a == f2.b {
		c.Count("skipped_degenerate")
		return
	}
	for _, v := range []float64{f1.a[0], f1.a[1], f1.b[0], f1.b[1], f2.a[0], f2.a[1], f2.b[0], f2.b[1]} {
		if math.IsInf(v, 0) {
			c.Count("skipped_degenerate")
			return
		}
	}
	c.Count("huge_magnitude_pairs")
	c.Distinct(fmt.Sprintf("huge/%d/%v/%v", k, s1, s2))
	c12CheckPair(c, f1, f2, false, false)
}

func c12Float(c *fw.Ctx, idx int) {
	r := c.R
	s1, s2 := c12Construct(r, 32)
	scale := gen.Float(r, gen.Moderate)
	if math.Abs(scale) > 1e4 || math.Abs(scale) < 1e-3 {
		scale = 0.1 + r.Float01()
	}
	ox, oy := gen.Float(r, gen.LonLat), gen.Float(r, gen.LonLat)/2
	tf := func(p [2]float64) [2]float64 {
		return [2]float64{gen.NextAfterN(ox+scale*p[0], r.Range(-2, 2)), gen.NextAfterN(oy+scale*p[1], r.Range(-2, 2))}
	}
	f1, f2 := seg{tf(s1.a), tf(s1.b)}, seg{tf(s2.a), tf(s2.b)}
	if r.Chance(1, 3) {
		// keep exactly shared endpoints shared
		if s1.a == s2.a {
			f2.a = f1.a
		}
		if s1.b == s2.b {
			f2.b = f1.b
		}
		if s1.a == s2.b {
			f2.b = f1.a
		}
		if s1.b == s2.a {
			f2.a = f1.b
		}
	}
	if f1.a == f1.b || f2.a == f2.b {
		c.Count("skipped_degenerate")
		return
	}
	c.Count("float_pairs")
	c.Distinct(fmt.Sprintf("float/%v/%v", f1, f2))
	// the location bound is relative to the extent of the two segments, not to
	// their distance from the origin: it applies to short segments far away as well
	c12CheckPair(c, f1, f2, true, false)
	if c.WantSample() {
		c.Sample(c.Input())
	}
}

func init() {
	fw.Register(&fw.Monitor{
		ID:     "C12",
		Title:  "segment intersection is classified exactly and located accurately",
		Rule:   "RobustLineIntersector results compared with an exact rational classification (none / point / collinear overlap), in all 8 symmetric presentations of each pair: every ordered pair of non-degenerate segments on a 4x4 grid; constructed pairs on integer grids up to 2^20 (lattice crossings, shared endpoints, T-junctions, collinear overlapping/touching/disjoint, parallel, near misses, long nearly parallel crossings); endpoint meetings must be reported exactly, proper crossings within 64*2^-53*S^3/|d1 x d2| of the exact rational crossing and inside both envelopes, overlaps with exactly the true endpoints; NonRobustLineIntersector must agree on HasIntersection for integer inputs; float pairs a few ulps off those configurations are checked for classification only. distinct_nontrivial = distinct segment pairs",
		Assume: []string{"math/big rational arithmetic is exact"},
		Classes: []fw.Class{
			{Name: "exhaustive-4x4", Quick: 65536, Thorough: 65536, Run: c12Exhaustive, Exhaustive: "every ordered pair of non-degenerate segments with endpoints on a 4x4 grid (57,600 pairs) x 8 presentations"},
			{Name: "grid", Quick: 100000, Thorough: 3000000, Run: c12Grid},
			{Name: "float", Quick: 80000, Thorough: 2000000, Run: c12Float},
			{Name: "float-t-junction", Quick: 12000, Thorough: 600000, Run: c12FloatT},
			{Name: "huge-magnitude", Quick: 20000, Thorough: 500000, Run: c12Huge},
		},
		Require: []string{"class_proper-crossing", "class_t-junction", "class_endpoint-endpoint", "class_collinear-overlap", "class_collinear-touching", "class_collinear-disjoint", "class_parallel", "class_disjoint", "crossings_located", "float_pairs"},
	})
}
