package mon

import (
	"fmt"
	"math"
	"strings"

	geom "github.com/twpayne/go-geom"

	"verifharness/fw"
	"verifharness/gen"
	"verifharness/model"
)

// C08 - bounds are the tight per-dimension box for every geometry and layout mix.

// semBox is the model box by semantic dimension: 0=X 1=Y 2=Z 3=M, then positional extras.
type semBox struct {
	min, max []float64
}

func newSemBox(n int) *semBox {
	b := &semBox{min: make([]float64, n), max: make([]float64, n)}
	for i := range b.min {
		b.min[i], b.max[i] = math.Inf(1), math.Inf(-1)
	}
	return b
}

func semName(d int) string {
	if d < 4 {
		return []string{"X", "Y", "Z", "M"}[d]
	}
	return fmt.Sprintf("no. %d", d+1)
}

// semIndex maps ordinate position i of layout l to a semantic dimension.
func semIndex(l geom.Layout, i int) int {
	switch {
	case i < 2:
		return i
	case l == geom.XYM && i == 2:
		return 3
	default:
		return i
	}
}

func (b *semBox) add(l geom.Layout, co []float64) {
	for i, v := range co {
		d := semIndex(l, i)
		if v < b.min[d] {
			b.min[d] = v
		}
		if v > b.max[d] {
			b.max[d] = v
		}
	}
}

func (b *semBox) addModel(g *model.G) {
	if g.Kind == model.Collection {
		for _, m := range g.Members {
			b.addModel(m)
		}
		return
	}
	for _, co := range g.AllCoords() {
		b.add(g.Layout, co)
	}
}

func joinLayout(a, b geom.Layout) geom.Layout {
	switch {
	case a == geom.XYZ && b == geom.XYM, a == geom.XYM && b == geom.XYZ:
		return geom.XYZM
	case b > a:
		return b
	}
	return a
}

// c08Compare compares a go-geom Bounds with the model box.
func c08Compare(c *fw.Ctx, how string, b *geom.Bounds, wantLayout geom.Layout, sb *semBox, anyCoord bool) bool {
	c.Eval(1)
	if b == nil {
		c.Fail("nil-bounds", "%s: nil bounds", how)
		return false
	}
	if b.Layout() != wantLayout {
		c.Fail("wrong-bounds-layout", "%s: bounds layout %s, want %s", how, b.Layout(), wantLayout)
		return false
	}
	if b.IsEmpty() == anyCoord {
		// a geometry with coordinates has non-empty bounds only if every dimension of the
		// layout received an ordinate; with mixed layouts a dimension may legitimately stay empty
		allDims := true
		for i := 0; i < wantLayout.Stride(); i++ {
			if sb.min[semIndex(wantLayout, i)] > sb.max[semIndex(wantLayout, i)] {
				allDims = false
			}
		}
		if !anyCoord || allDims {
			c.Fail("wrong-emptiness", "%s: IsEmpty() = %v for a geometry with coordinates=%v", how, b.IsEmpty(), anyCoord)
			return false
		}
	}
	for i := 0; i < wantLayout.Stride(); i++ {
		d := semIndex(wantLayout, i)
		if b.Min(i) != sb.min[d] || b.Max(i) != sb.max[d] {
			c.Fail("wrong-bounds", "%s: dimension %d (semantic %s) is [%v, %v], exact min/max over the coordinates is [%v, %v]", how, i, semName(d), b.Min(i), b.Max(i), sb.min[d], sb.max[d])
			return false
		}
	}
	return true
}

var c08FloatClasses = []gen.FloatClass{gen.SmallInt, gen.Grid, gen.FiniteBits, gen.LonLat, gen.Moderate, gen.Wide}

func c08NoNaN(r *fw.Rand, stride int) []float64 {
	cl := c08FloatClasses[r.Intn(len(c08FloatClasses))]
	co := gen.Coord(r, stride, cl)
	if r.Chance(1, 50) {
		co[r.Intn(stride)] = math.Inf(1 - 2*r.Intn(2))
	}
	if r.Chance(1, 50) {
		co[r.Intn(stride)] = math.Copysign(0, -1)
	}
	return co
}

// (a) Bounds() of single geometries and of nested collections
func c08Geoms(c *fw.Ctx, idx int) {
	r := c.R
	if r.Chance(1, 32) {
		c08RefusedCalls(c)
	}
	var g *model.G
	if r.Chance(1, 3) {
		g = gen.Collection(r, gen.SmallInt, gen.CollOpts{
			Shape:   gen.ShapeOpts{CoordFn: c08NoNaN, Valid: r.Bool()},
			Layouts: gen.StdLayouts, MixLayouts: r.Bool(), MaxDepth: 4, MaxMembers: 4, FixedChance: 30, WithRings: true,
		}, 0)
	} else {
		kind := gen.Kinds7[r.Intn(len(gen.Kinds7))]
		layout := gen.PickLayout(r, c01Layouts)
		g = gen.Shape(r, kind, layout, gen.SmallInt, gen.ShapeOpts{CoordFn: c08NoNaN, Big: true, Huge: true, Valid: r.Chance(1, 3)})
	}
	c.SetInput(map[string]any{"geometry": g.String()})
	t := g.BuildFlat()
	layout := g.CollectionLayout()
	sb := newSemBox(104)
	sb.addModel(g)
	depth := 0
	var dep func(m *model.G, d int)
	dep = func(m *model.G, d int) {
		if m.Kind == model.Collection {
			if d+1 > depth {
				depth = d + 1
			}
			for _, x := range m.Members {
				dep(x, d+1)
			}
		}
	}
	dep(g, 0)
	if depth >= 2 {
		c.Count("nested_collections")
	}
	if g.Kind == model.Collection {
		c.Count("collections")
		lays := map[geom.Layout]bool{}
		var walk func(m *model.G)
		walk = func(m *model.G) {
			if m.Kind == model.Collection {
				for _, x := range m.Members {
					walk(x)
				}
			} else {
				lays[m.Layout] = true
			}
		}
		walk(g)
		if len(lays) > 1 {
			c.Count("collections_mixing_layouts")
		}
	}
	if g.IsEmpty() {
		c.Count("coordinate_free")
	}
	c.Distinct(fmt.Sprintf("%s/%d", g.Sig(), depth))
	var b *geom.Bounds
	if c.Guard("panic", func() { b = t.Bounds() }) {
		return
	}
	c08Compare(c, "Bounds()", b, layout, sb, !g.IsEmpty())
	if c.WantSample() && !g.IsEmpty() {
		c.Sample(g.String())
	}
	// Bounds.Polygon() is the XY box
	if b != nil && layout.Stride() >= 2 {
		var p *geom.Polygon
		if c.Guard("panic", func() { p = b.Polygon() }) {
			return
		}
		c.Eval(1)
		if b.IsEmpty() {
			if !p.Empty() {
				c.Fail("wrong-polygon", "Polygon() of empty bounds is not empty")
			}
		} else {
			f := p.FlatCoords()
			want := []float64{sb.min[0], sb.min[1], sb.min[0], sb.max[1], sb.max[0], sb.max[1], sb.max[0], sb.min[1], sb.min[0], sb.min[1]}
			ok := len(f) == len(want) && p.Layout() == geom.XY
			for i := 0; ok && i < len(f); i++ {
				if f[i] != want[i] {
					ok = false
				}
			}
			if !ok {
				c.Fail("wrong-polygon", "Bounds.Polygon() = %s, want the box %s", fw.Fs(f), fw.Fs(want))
			}
		}
	}
}

func permutations(n int) [][]int {
	var out [][]int
	p := make([]int, n)
	for i := range p {
		p[i] = i
	}
	var rec func(k int)
	rec = func(k int) {
		if k == n {
			out = append(out, append([]int{}, p...))
			return
		}
		for i := k; i < n; i++ {
			p[k], p[i] = p[i], p[k]
			rec(k + 1)
			p[k], p[i] = p[i], p[k]
		}
	}
	rec(0)
	return out
}

// (b) Extend histories: every order of the same multiset must give the same box
// c08RefusedCalls: Bounds()/Extend on collections that hold a nil member behind
// valid ones (they panic part-way as the code stands; the caller recovers).  Nothing
// is judged here: the judged calls that follow must not see what these left behind.
func c08RefusedCalls(c *fw.Ctx) {
	for k := 0; k < 2; k++ {
		func() {
			defer func() { _ = recover() }()
			inner := geom.NewGeometryCollection()
			_ = inner.Push(geom.NewPointFlat(geom.XY, []float64{-500, 900}), nil, geom.NewPointFlat(geom.XYZ, []float64{1000, -1000, 77}))
			gc := geom.NewGeometryCollection()
			_ = gc.Push(geom.NewLineStringFlat(geom.XYM, []float64{-7, -7, 5, 8, 8, 6}), inner, geom.NewPointFlat(geom.XY, []float64{4e6, 4e6}))
			if k == 0 {
				_ = gc.Bounds()
			} else {
				_ = geom.NewBounds(geom.XY).Extend(gc)
			}
		}()
	}
	c.Count("refused_bounds_calls_first")
}

func c08Extend(c *fw.Ctx, idx int) {
	r := c.R
	if r.Chance(1, 16) {
		c08RefusedCalls(c)
	}
	n := r.Range(1, 6)
	start := []geom.Layout{geom.NoLayout, geom.XY, geom.XY, geom.XYZ, geom.XYM}[r.Intn(5)]
	gs := make([]*model.G, n)
	var desc []string
	want := start
	sb := newSemBox(104)
	anyc := false
	// one history in six goes beyond four dimensions (then without XYM: what M means
	// in a five-dimensional box is nobody's business)
	wide := r.Chance(1, 6)
	if wide && start == geom.XYM {
		start = geom.XY
		want = start
	}
	for i := range gs {
		l := gen.StdLayouts[r.Intn(4)]
		if wide {
			l = []geom.Layout{geom.XY, geom.XYZ, geom.XYZM, geom.Layout(5), geom.Layout(6), geom.Layout(9)}[r.Intn(6)]
		}
		kind := gen.Kinds7[r.Intn(len(gen.Kinds7))]
		gs[i] = gen.Shape(r, kind, l, gen.SmallInt, gen.ShapeOpts{CoordFn: c08NoNaN, Valid: r.Bool()}) // Valid: rings closed bit for bit
		desc = append(desc, gs[i].String())
		want = joinLayout(want, l)
		sb.addModel(gs[i])
		if !gs[i].IsEmpty() {
			anyc = true
		}
	}
	mix := map[geom.Layout]bool{}
	for _, g := range gs {
		mix[g.Layout] = true
	}
	var orders [][]int
	if n <= 5 {
		orders = permutations(n)
		c.Count("permutation_sets_fully_enumerated")
	} else {
		for k := 0; k < 60; k++ {
			orders = append(orders, r.Perm(n))
		}
	}
	if mix[geom.XYZ] && mix[geom.XYM] {
		c.Count("extend_mixing_xyz_and_xym")
	}
	if wide {
		c.Count("extend_histories_beyond_four_dimensions")
	}
	var lm []string
	for _, g := range gs {
		lm = append(lm, g.Layout.String())
	}
	c.Distinct(fmt.Sprintf("extend/%s/%s", start, strings.Join(lm, ",")))
	ts := make([]geom.T, n)
	for i, g := range gs {
		ts[i] = g.BuildFlat()
	}
	for _, ord := range orders {
		c.SetInput(map[string]any{"start_layout": start.String(), "geometries": strings.Join(desc, " | "), "order": fmt.Sprint(ord)})
		b := geom.NewBounds(start)
		if c.Guard("panic", func() {
			for _, i := range ord {
				b = b.Extend(ts[i])
			}
		}) {
			return
		}
		if !c08Compare(c, fmt.Sprintf("Extend in order %v", ord), b, want, sb, anyc) {
			return
		}
	}
	// the same, starting from the box a geometry returned for itself instead of
	// from NewBounds: that box is an ordinary Bounds value and may be extended
	want2 := geom.NoLayout
	for _, g := range gs {
		want2 = joinLayout(want2, g.Layout)
	}
	for k, ord := range orders {
		if k >= 24 {
			break
		}
		c.SetInput(map[string]any{"start": "the Bounds() of the first geometry in the order", "geometries": strings.Join(desc, " | "), "order": fmt.Sprint(ord)})
		var b *geom.Bounds
		if c.Guard("panic", func() {
			b = ts[ord[0]].Bounds()
			for _, i := range ord[1:] {
				b = b.Extend(ts[i])
			}
		}) {
			return
		}
		c.Count("extend_from_a_geometry's_own_bounds")
		if !c08Compare(c, fmt.Sprintf("Bounds() of geometry %d extended in order %v", ord[0], ord[1:]), b, want2, sb, anyc) {
			return
		}
	}
	// ... or from a box the caller made with SetCoords / Set / Clone out of those
	// numbers: however a box came to hold its corners, Extend treats it the same
	for k, ord := range orders {
		if k >= 12 {
			break
		}
		how := []string{"SetCoords", "Set", "SetCoords+Clone", "Set twice"}[r.Intn(4)]
		c.SetInput(map[string]any{"start": "a box given the first geometry's corners by " + how, "geometries": strings.Join(desc, " | "), "order": fmt.Sprint(ord)})
		var b *geom.Bounds
		skip := false
		cornersChanged := false
		if c.Guard("panic", func() {
			bb := ts[ord[0]].Bounds()
			st := bb.Layout().Stride()
			if st == 0 {
				skip = true
				return
			}
			lo, hi := make([]float64, st), make([]float64, st)
			for i := 0; i < st; i++ {
				lo[i], hi[i] = bb.Min(i), bb.Max(i)
				if lo[i] > hi[i] {
					skip = true // SetCoords orders the corners; an empty dimension cannot be written with it
					return
				}
			}
			switch how {
			case "SetCoords":
				b = geom.NewBounds(bb.Layout()).SetCoords(lo, hi)
			case "Set":
				b = geom.NewBounds(bb.Layout()).Set(append(append([]float64{}, lo...), hi...)...)
			case "SetCoords+Clone":
				b = geom.NewBounds(bb.Layout()).SetCoords(hi, lo).Clone()
			default:
				b = geom.NewBounds(bb.Layout()).Set(append(append([]float64{}, hi...), hi...)...).Set(append(append([]float64{}, lo...), hi...)...)
			}
			lo0, hi0 := append([]float64{}, lo...), append([]float64{}, hi...)
			for _, i := range ord[1:] {
				b = b.Extend(ts[i])
			}
			// the corner slices the box was made from are the caller's: extending
			// the box afterwards does not write to them
			if !model.BitsEq(lo, lo0) || !model.BitsEq(hi, hi0) {
				cornersChanged = true
			}
		}) {
			return
		}
		if skip {
			continue
		}
		if cornersChanged {
			c.Fail("argument-modified", "the corner coordinates handed to %s were overwritten when the box was extended later", how)
			return
		}
		c.Count("extend_from_a_box_made_by_" + how)
		if !c08Compare(c, fmt.Sprintf("box of geometry %d made by %s, extended in order %v", ord[0], how, ord[1:]), b, want2, sb, anyc) {
			return
		}
	}
	// a two-dimensional box given a third dimension by Set (its documentation allows
	// more values than the layout has dimensions), then extended by an XYZ and by an
	// XYM geometry, in that order: the third dimension is Z from the moment an XYZ
	// geometry arrives, and M gets a dimension of its own
	if r.Chance(1, 4) {
		lo := []float64{float64(r.Range(-9, 0)), float64(r.Range(-9, 0)), float64(r.Range(-9, 0))}
		hi := []float64{float64(r.Range(0, 9)), float64(r.Range(0, 9)), float64(r.Range(0, 9))}
		gz := gen.Shape(r, gen.Kinds7[r.Intn(len(gen.Kinds7))], geom.XYZ, gen.SmallInt, gen.ShapeOpts{CoordFn: c08NoNaN})
		gm := gen.Shape(r, gen.Kinds7[r.Intn(len(gen.Kinds7))], geom.XYM, gen.SmallInt, gen.ShapeOpts{CoordFn: c08NoNaN})
		rest := gen.Shape(r, gen.Kinds7[r.Intn(len(gen.Kinds7))], gen.StdLayouts[r.Intn(4)], gen.SmallInt, gen.ShapeOpts{CoordFn: c08NoNaN})
		sb3 := newSemBox(104)
		sb3.add(geom.XYZ, lo)
		sb3.add(geom.XYZ, hi)
		sb3.addModel(gz)
		sb3.addModel(gm)
		sb3.addModel(rest)
		c.SetInput(map[string]any{"start": fmt.Sprintf("NewBounds(XY).Set(%v, %v)", lo, hi), "then_Extend": gz.String() + " | " + gm.String() + " | " + rest.String()})
		var b *geom.Bounds
		if c.Guard("panic", func() {
			b = geom.NewBounds(geom.XY).Set(append(append([]float64{}, lo...), hi...)...)
			b = b.Extend(gz.BuildFlat()).Extend(gm.BuildFlat()).Extend(rest.BuildFlat())
		}) {
			return
		}
		c.Count("extend_from_a_box_given_more_dimensions_than_its_layout_by_Set")
		if !c08Compare(c, "XY box given three dimensions by Set, extended by an XYZ, an XYM and one more geometry", b, geom.XYZM, sb3, true) {
			return
		}
	}
	// none of this may have touched the geometries themselves
	for i, g := range gs {
		if !expectGeom(c, fmt.Sprintf("geometry %d after its bounds were taken and extended", i), ts[i], g, model.Opts{}) {
			return
		}
	}
	c.CountN("extend_orders", int64(len(orders)))
	if c.WantSample() && n <= 3 {
		c.Sample(c.Input())
	}
}

// c08EveryLength: bounds of a line of exactly idx coordinates whose extreme Z
// and M sit at one chosen coordinate (the last, the one before, the first, the
// middle, the last before a multiple of four, a random one) and whose X and Y
// extremes are its two ends: a fold over the coordinates made in blocks or
// several at a time shows at the length that puts a seam on an extreme.
func c08EveryLength(c *fw.Ctx, idx int) {
	n := idx + 1
	r := c.R
	for _, layout := range []geom.Layout{geom.XY, geom.XYZ, geom.XYM, geom.XYZM} {
		stride := layout.Stride()
		for _, j := range []int{n - 1, n - 2, 0, n / 2, (n - 1) - (n-1)%4, r.Intn(n)} {
			if j < 0 {
				continue
			}
			flat := make([]float64, n*stride)
			for i := 0; i < n; i++ {
				flat[i*stride], flat[i*stride+1] = float64(i), float64(-i)
				for k := 2; k < stride; k++ {
					if i == j {
						flat[i*stride+k] = float64(1000000 * (2*k - 5)) // -1e6 in dimension 2, +1e6 in dimension 3
					}
				}
			}
			c.SetInput(map[string]any{"line": "x = i, y = -i, other ordinates 0 except at one coordinate", "coordinates": n, "layout": layout.String(), "extreme_at": j})
			var b1, b2, b3 *geom.Bounds
			if c.Guard("panic", func() {
				ls := geom.NewLineStringFlat(layout, flat)
				b1 = ls.Bounds()
				b2 = geom.NewBounds(layout).Extend(ls)
				b3 = geom.NewGeometryCollection().MustPush(geom.NewMultiPointFlat(layout, flat)).Bounds()
			}) {
				return
			}
			c.Eval(3)
			if layout == geom.XYM {
				// the same XYM line into a box that already has a Z (an XYZM box)
				var b4 *geom.Bounds
				if c.Guard("panic", func() {
					b4 = geom.NewBounds(geom.XYZ).Extend(geom.NewPointFlat(geom.XYZ, []float64{0, 0, 42})).Extend(geom.NewLineStringFlat(layout, flat))
				}) {
					return
				}
				c.Eval(1)
				mlo, mhi := -1000000.0, 0.0
				if n == 1 {
					mhi = mlo
				}
				if !(b4.Layout() == geom.XYZM && b4.Min(3) == mlo && b4.Max(3) == mhi && b4.Max(0) == float64(n-1) && b4.Min(1) == float64(-(n-1)) && b4.Min(0) == 0 && b4.Max(1) == 0 && b4.Min(2) == 42 && b4.Max(2) == 42) {
					c.Fail("wrong-bounds", "XYM line of %d coordinates (extreme M at coordinate %d) extended into an XYZ box holding (0 0 42): layout %s, X [%v, %v], Y [%v, %v], Z [%v, %v], M [%v, %v]; exact XYZM, X [0, %d], Y [%d, 0], Z [42, 42], M [%v, %v]", n, j, b4.Layout(), b4.Min(0), b4.Max(0), b4.Min(1), b4.Max(1), b4.Min(2), b4.Max(2), b4.Min(3), b4.Max(3), n-1, -(n - 1), mlo, mhi)
					return
				}
			}
			for bi, b := range []*geom.Bounds{b1, b2, b3} {
				how := []string{"LineString.Bounds()", "NewBounds().Extend(LineString)", "Bounds() of a collection holding the coordinates as a MultiPoint"}[bi]
				if b.Layout() != layout {
					c.Fail("wrong-bounds-layout", "%s: layout %s, want %s", how, b.Layout(), layout)
					return
				}
				for d := 0; d < stride; d++ {
					lo, hi := 0.0, 0.0
					switch {
					case d == 0:
						hi = float64(n - 1)
					case d == 1:
						lo = float64(-(n - 1))
					case 2*d-5 < 0:
						lo = float64(1000000 * (2*d - 5))
						if n == 1 {
							hi = lo // the only coordinate carries the extreme: no zero beside it
						}
					default:
						hi = float64(1000000 * (2*d - 5))
						if n == 1 {
							lo = hi
						}
					}
					if b.Min(d) != lo || b.Max(d) != hi {
						c.Fail("wrong-bounds", "%s of %d coordinates (extreme at coordinate %d): dimension %d is [%v, %v], exact [%v, %v]", how, n, j, d, b.Min(d), b.Max(d), lo, hi)
						return
					}
				}
			}
		}
	}
	c.Count("line_lengths_bounded")
	if idx%1000 == 0 {
		c.Distinct(fmt.Sprintf("every-length/%d", idx))
	}
}

// (c) overlap tests against closed-interval arithmetic on a 0..4 grid
func c08Overlap(c *fw.Ctx, idx int) {
	r := c.R
	layout := []geom.Layout{geom.XY, geom.XYZ, geom.XYM, geom.XYZM}[r.Intn(4)]
	stride := layout.Stride()
	mk := func() (*geom.Bounds, []float64, []float64, bool) {
		if r.Chance(1, 12) {
			b := geom.NewBounds(layout)
			mn, mx := make([]float64, stride), make([]float64, stride)
			for i := range mn {
				mn[i], mx[i] = math.Inf(1), math.Inf(-1)
			}
			return b, mn, mx, true
		}
		mn, mx := make([]float64, stride), make([]float64, stride)
		for i := range mn {
			a, b := float64(r.Intn(5)), float64(r.Intn(5))
			if a > b {
				a, b = b, a
			}
			if r.Chance(1, 4) {
				b = a
			}
			mn[i], mx[i] = a, b
		}
		if stride > 2 && r.Chance(1, 4) {
			// only X and Y are populated, the further dimensions stay empty (what a
			// Z-capable box extended with XY geometries looks like)
			b := geom.NewBounds(layout).Set(mn[0], mn[1], mx[0], mx[1])
			for i := 2; i < stride; i++ {
				mn[i], mx[i] = math.Inf(1), math.Inf(-1)
			}
			return b, mn, mx, false
		}
		b := geom.NewBounds(layout).Set(append(append([]float64{}, mn...), mx...)...)
		return b, mn, mx, false
	}
	b1, mn1, mx1, e1 := mk()
	b2, mn2, mx2, e2 := mk()
	// test in a layout no larger than the boxes'
	tl := layout
	if r.Chance(1, 3) {
		tl = geom.XY
	}
	c.SetInput(map[string]any{"layout": layout.String(), "test_layout": tl.String(), "box1": fw.Fs(mn1) + fw.Fs(mx1), "box2": fw.Fs(mn2) + fw.Fs(mx2)})
	want := true
	for i := 0; i < tl.Stride(); i++ {
		// closed intervals [mn,mx] overlap iff neither lies strictly beyond the other
		if mn1[i] > mx1[i] || mn2[i] > mx2[i] || mn1[i] > mx2[i] || mx1[i] < mn2[i] {
			want = false
		}
	}
	var got, gotSym bool
	if c.Guard("panic", func() { got = b1.Overlaps(tl, b2); gotSym = b2.Overlaps(tl, b1) }) {
		return
	}
	c.Eval(2)
	c.Count(fmt.Sprintf("overlap_%v", want))
	if e1 || e2 {
		c.Count("overlap_with_empty_box")
	}
	if !e1 && !e2 && (math.IsInf(mn1[stride-1], 1) || math.IsInf(mn2[stride-1], 1)) {
		c.Count("overlap_with_partly_empty_box")
	}
	touching := false
	for i := 0; i < tl.Stride(); i++ {
		if mx1[i] == mn2[i] || mx2[i] == mn1[i] {
			touching = true
		}
	}
	if want && touching {
		c.Count("overlap_touching")
	}
	c.Distinct(fmt.Sprintf("ov/%s/%v%v%v%v", tl, mn1, mx1, mn2, mx2))
	if got != want || gotSym != want {
		c.Fail("wrong-overlap", "Overlaps = %v / %v (swapped), closed-interval arithmetic says %v", got, gotSym, want)
		return
	}
	// a box and itself: the same arithmetic on one operand (true unless a tested
	// dimension is empty)
	wantSelf := true
	for i := 0; i < tl.Stride(); i++ {
		if mn1[i] > mx1[i] {
			wantSelf = false
		}
	}
	var gotSelf bool
	if c.Guard("panic", func() { gotSelf = b1.Overlaps(tl, b1) }) {
		return
	}
	c.Eval(1)
	c.Count("overlap_of_a_box_with_itself")
	if gotSelf != wantSelf {
		c.Fail("wrong-overlap", "Overlaps(%s, the box itself) = %v, closed-interval arithmetic says %v", tl, gotSelf, wantSelf)
		return
	}
	// box / point
	p := make([]float64, stride)
	for i := range p {
		p[i] = float64(r.Intn(5))
		if r.Chance(1, 3) {
			p[i] = mn1[i]
		}
	}
	c.SetInput(map[string]any{"layout": layout.String(), "test_layout": tl.String(), "box1": fw.Fs(mn1) + fw.Fs(mx1), "point": fw.Fs(p)})
	wantP := true
	for i := 0; i < tl.Stride(); i++ {
		if !(mn1[i] <= p[i] && p[i] <= mx1[i]) {
			wantP = false
		}
	}
	var gotP bool
	if c.Guard("panic", func() { gotP = b1.OverlapsPoint(tl, geom.Coord(p)) }) {
		return
	}
	c.Eval(1)
	c.Count(fmt.Sprintf("overlaps_point_%v", wantP))
	if gotP != wantP {
		c.Fail("wrong-overlap", "OverlapsPoint = %v, closed-interval arithmetic says %v", gotP, wantP)
	}
}

// (d) collections that change after they were put together: layouts declared with
// SetLayout at some point, members pushed into nested collections afterwards.
// Whatever a collection declares, its bounds are those of the coordinates it holds now.
func c08CollHistory(c *fw.Ctx, idx int) {
	r := c.R
	if idx%4000 == 7 {
		// one line string inside hundreds to tens of thousands of nested collections
		depth := []int{100, 1000, 4097, 10001, 10002, 12000, 20000, 65537}[r.Intn(8)]
		layout := gen.StdLayouts[r.Intn(4)]
		leaf := gen.Shape(r, model.LineString, layout, gen.SmallInt, gen.ShapeOpts{CoordFn: c08NoNaN, MaxPts: 4})
		for leaf.IsEmpty() {
			leaf = gen.Shape(r, model.LineString, layout, gen.SmallInt, gen.ShapeOpts{CoordFn: c08NoNaN, MaxPts: 4})
		}
		c.SetInput(map[string]any{"geometry": leaf.String(), "inside_nested_collections": depth})
		var inner geom.T = leaf.BuildFlat()
		for i := 0; i < depth; i++ {
			inner = geom.NewGeometryCollection().MustPush(inner)
		}
		sb := newSemBox(104)
		sb.addModel(leaf)
		var b, b2 *geom.Bounds
		if c.Guard("panic", func() {
			b = inner.Bounds()
			b2 = geom.NewBounds(geom.NoLayout).Extend(inner)
		}) {
			return
		}
		c.Count("bounds_of_deeply_nested_collections")
		if !c08Compare(c, fmt.Sprintf("Bounds() of a line string inside %d nested collections", depth), b, layout, sb, true) {
			return
		}
		c08Compare(c, fmt.Sprintf("Extend by a line string inside %d nested collections", depth), b2, layout, sb, true)
		return
	}
	g := gen.Collection(r, gen.SmallInt, gen.CollOpts{
		Shape:   gen.ShapeOpts{CoordFn: c08NoNaN, MaxPts: 4},
		Layouts: gen.StdLayouts, MixLayouts: r.Bool(), MaxDepth: 3, MaxMembers: 3, WithRings: true,
	}, 0)
	root, ok := g.BuildFlat().(*geom.GeometryCollection)
	if !ok {
		return
	}
	var hist []string
	steps := r.Range(1, 6)
	for s := 0; s <= steps; s++ {
		if s > 0 {
			// pick a collection node (model and geometry side by side)
			mn, gn := g, root
			path := "root"
			for d := 0; d < 4; d++ {
				var subs []int
				for i, m := range mn.Members {
					if m.Kind == model.Collection {
						subs = append(subs, i)
					}
				}
				if len(subs) == 0 || r.Chance(1, 3) {
					break
				}
				i := subs[r.Intn(len(subs))]
				mn, gn = mn.Members[i], gn.Geom(i).(*geom.GeometryCollection)
				path += fmt.Sprintf(".%d", i)
			}
			op := r.Intn(4)
			if op == 3 {
				// a member that is not a collection is exchanged (Swap) for a geometry of
				// its type in another layout: the collection holds the same object, which
				// now has other coordinates and another layout
				var leaves []int
				for i, m := range mn.Members {
					if m.Kind != model.Collection {
						leaves = append(leaves, i)
					}
				}
				if len(leaves) == 0 {
					op = 1
				} else {
					i := leaves[r.Intn(len(leaves))]
					old := mn.Members[i]
					np := gen.Shape(r, old.Kind, gen.StdLayouts[r.Intn(4)], gen.SmallInt, gen.ShapeOpts{CoordFn: c08NoNaN, MaxPts: 3})
					if c.Guard("panic", func() { swapGeoms(gn.Geom(i), np.BuildFlat()) }) {
						return
					}
					mn.Members[i] = np
					hist = append(hist, fmt.Sprintf("%s member %d Swap(%s)", path, i, np))
					c.Count("collection_members_swapped_for_another_layout")
				}
			}
			switch op {
			case 3:
			case 0:
				l := gn.Layout()
				if r.Chance(1, 4) {
					l = gen.StdLayouts[r.Intn(4)]
				}
				var err error
				if c.Guard("panic", func() { err = gn.SetLayout(l) }) {
					return
				}
				hist = append(hist, fmt.Sprintf("%s.SetLayout(%s) err=%v", path, l, err))
				if err == nil && l != geom.NoLayout {
					mn.Fixed, mn.Layout = true, l
					c.Count("collection_layouts_declared_after_the_fact")
				}
			default:
				p := gen.Shape(r, gen.Kinds7[r.Intn(len(gen.Kinds7))], gen.StdLayouts[r.Intn(4)], gen.SmallInt, gen.ShapeOpts{CoordFn: c08NoNaN, MaxPts: 3})
				var pm *model.G = p
				var pt geom.T = p.BuildFlat()
				if r.Chance(1, 5) {
					pm = &model.G{Kind: model.Collection, Members: []*model.G{p}}
					pt = pm.BuildFlat()
				}
				var err error
				if c.Guard("panic", func() { err = gn.Push(pt) }) {
					return
				}
				hist = append(hist, fmt.Sprintf("%s.Push(%s) err=%v", path, pm, err))
				if err == nil {
					mn.Members = append(mn.Members, pm)
					c.Count("members_pushed_into_nested_collections")
				}
			}
		}
		c.SetInput(map[string]any{"collection": g.String(), "history": strings.Join(hist, "; ")})
		sb := newSemBox(104)
		sb.addModel(g)
		want := g.CollectionLayout()
		stale := false
		var walk func(m *model.G)
		walk = func(m *model.G) {
			if m.Kind == model.Collection {
				for _, x := range m.Members {
					if m.Fixed && x.CollectionLayout() != m.Layout {
						stale = true
					}
					walk(x)
				}
				return
			}
			want = joinLayout(want, m.Layout)
		}
		walk(g)
		if stale {
			c.Count("bounds_of_collections_whose_declared_layout_is_out_of_date")
		}
		var b, b2 *geom.Bounds
		if c.Guard("panic", func() {
			b = root.Bounds()
			b2 = geom.NewBounds(geom.NoLayout).Extend(root)
		}) {
			return
		}
		if !c08Compare(c, "Bounds() after "+fmt.Sprint(len(hist))+" steps", b, want, sb, !g.IsEmpty()) {
			return
		}
		want2 := geom.NoLayout
		var leaves func(m *model.G)
		leaves = func(m *model.G) {
			if m.Kind == model.Collection {
				for _, x := range m.Members {
					leaves(x)
				}
				return
			}
			want2 = joinLayout(want2, m.Layout)
		}
		leaves(g)
		if !c08Compare(c, "NewBounds(NoLayout).Extend(collection) after "+fmt.Sprint(len(hist))+" steps", b2, want2, sb, !g.IsEmpty()) {
			return
		}
	}
	c.Distinct("collhist/" + g.Sig())
}

// swapGeoms exchanges the values of two geometries of the same type.
func swapGeoms(a, b geom.T) {
	switch x := a.(type) {
	case *geom.Point:
		x.Swap(b.(*geom.Point))
	case *geom.LineString:
		x.Swap(b.(*geom.LineString))
	case *geom.LinearRing:
		x.Swap(b.(*geom.LinearRing))
	case *geom.Polygon:
		x.Swap(b.(*geom.Polygon))
	case *geom.MultiPoint:
		x.Swap(b.(*geom.MultiPoint))
	case *geom.MultiLineString:
		x.Swap(b.(*geom.MultiLineString))
	case *geom.MultiPolygon:
		x.Swap(b.(*geom.MultiPolygon))
	}
}

func init() {
	fw.Register(&fw.Monitor{
		ID:     "C08",
		Title:  "bounds are the tight per-dimension box for every geometry and layout mix",
		Rule:   "Bounds() of generated geometries (7 types x NoLayout..Layout(8), no NaN, +-Inf and -0 included) and of collections nested to depth 4 with mixed member layouts compared with the model's min/max by semantic dimension (X, Y, Z via ZIndex, M via MIndex) using ==; coordinate-free geometries must be empty; Extend histories of 1..6 geometries over XY/XYZ/XYM/XYZM from a NoLayout/XY/XYZ/XYM start in every permutation (n<=5) must all give the model's layout and intervals; Overlaps/OverlapsPoint on a 0..4 grid incl. touching, degenerate and empty boxes vs closed-interval arithmetic; Bounds.Polygon(). distinct_nontrivial = distinct (shape signature, depth) / layout sequences / box pairs",
		Assume: []string{"min and max are exact operations, so no tolerance is used"},
		Classes: []fw.Class{
			{Name: "geometries", Quick: 150000, Thorough: 12000000, Run: c08Geoms},
			{Name: "extend-orders", Quick: 15000, Thorough: 1200000, Run: c08Extend},
			{Name: "overlaps", Quick: 100000, Thorough: 12000000, Run: c08Overlap},
			{Name: "collection-histories", Quick: 40000, Thorough: 4000000, Run: c08CollHistory},
			{Name: "every-length", Quick: 6000, Thorough: 30000, Chunk: 40, Run: c08EveryLength, Exhaustive: "lines of every number of coordinates from 1 to the class count, four layouts, six positions of the extreme coordinate"},
		},
		Require: []string{"collections", "nested_collections", "collections_mixing_layouts", "coordinate_free", "permutation_sets_fully_enumerated", "extend_mixing_xyz_and_xym", "overlap_true", "overlap_false", "overlap_touching", "overlap_with_empty_box", "overlap_with_partly_empty_box", "overlaps_point_true", "overlaps_point_false"},
	})
}
