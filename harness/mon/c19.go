package mon

import (
	"bytes"
	"errors"
	"fmt"
	"io"
	"math"
	"strings"
	"time"

	geom "github.com/twpayne/go-geom"
	"github.com/twpayne/go-geom/encoding/igc"

	"verifharness/fw"
	"verifharness/model"
)

// C19 - IGC decoding is total; encode-then-decode keeps a track to format resolution.

// c19Read runs igc.Read under the monitors every decode must satisfy.
func c19Read(c *fw.Ctx, data []byte, how string) (*igc.T, bool) {
	// the stream is delivered the way readers deliver streams: all at once, in
	// pieces of any size, with the last piece and io.EOF in one call, with empty
	// reads in between; one input in three is read twice, delivered differently,
	// and both reads must tell the same
	mode := c.R.Intn(5)
	cr := &c19Reader{b: data, mode: mode, r: fw.NewRand(uint64(len(data)), "C19", "reader", mode)}
	var t *igc.T
	var err error
	if c.Guard("panic", func() { t, err = igc.Read(cr) }) {
		return nil, false
	}
	c.Eval(1)
	c.Count("reader_" + c19ReaderModes[mode])
	if cr.reads > 4*len(data)+16 {
		c.Fail("too-many-reads", "%s: reading %d bytes issued %d Read calls", how, len(data), cr.reads)
		return nil, false
	}
	if t != nil && t.LineString != nil && c.R.Chance(1, 3) {
		mode2 := (mode + 1 + c.R.Intn(4)) % 5
		cr2 := &c19Reader{b: data, mode: mode2, r: fw.NewRand(uint64(len(data)), "C19", "reader", mode2)}
		var t2 *igc.T
		var err2 error
		if c.Guard("panic", func() { t2, err2 = igc.Read(cr2) }) {
			return nil, false
		}
		c.Eval(1)
		c.Count("read_twice_through_different_readers")
		a, b := c19Snap(t, err), c19Snap(t2, err2)
		if a != b {
			c.Fail("reader-dependent", "%s: the same bytes read through a reader delivering %s and one delivering %s give different results: %s vs %s", how, c19ReaderModes[mode], c19ReaderModes[mode2], clipStr(a, 300), clipStr(b, 300))
			return nil, false
		}
	}
	if t != nil && t.LineString != nil {
		// a result stays what it is while later streams are read
		ht, he := t, err
		if !holdRecheckScribble(c, "c19-track", "igc.Read result", func() string { return c19Snap(ht, he) }, func() {
			hs := ht.Headers[:cap(ht.Headers)]
			for i := range hs {
				hs[i] = igc.Header{Source: "X", Key: "JUNK", KeyExtra: "junk", Value: "overwritten by the caller"}
			}
			fc := ht.LineString.FlatCoords()
			fc = fc[:cap(fc)]
			for i := range fc {
				fc[i] = -4.25e200
			}
		}) {
			return nil, false
		}
	}
	if t == nil {
		c.Fail("nil-result", "%s: igc.Read returned a nil *T (err=%v)", how, err)
		return nil, false
	}
	if t.LineString == nil {
		c.Fail("nil-result", "%s: igc.Read returned a T without a LineString", how)
		return nil, false
	}
	if t.LineString.Layout() != geom.Layout(5) || t.LineString.Stride() != 5 {
		c.Fail("wrong-layout", "%s: track layout %s stride %d, want five dimensions", how, t.LineString.Layout(), t.LineString.Stride())
		return nil, false
	}
	if len(t.LineString.FlatCoords())%5 != 0 {
		c.Fail("partial-fix", "%s: track has %d ordinates, not a whole number of fixes", how, len(t.LineString.FlatCoords()))
		return nil, false
	}
	if err != nil {
		var es igc.Errors
		if !errors.As(err, &es) {
			c.Fail("wrong-error-type", "%s: error %T is not igc.Errors", how, err)
			return nil, false
		}
		if len(es) == 0 {
			c.Fail("wrong-error-type", "%s: non-nil igc.Errors of length 0", how)
			return nil, false
		}
		var msg string
		if c.Guard("error-message-panic", func() { msg = err.Error() }) {
			return nil, false
		}
		_ = msg
		c.CountN("record_errors", int64(len(es)))
		for _, e := range es {
			m := e.Error()
			if i := strings.LastIndex(m, ": "); i >= 0 {
				m = m[i+2:]
			}
			if j := strings.IndexAny(m, ":0123456789\"'"); j > 0 {
				m = m[:j]
			}
			c.Distinct("err/" + strings.TrimSpace(m))
		}
	}
	return t, true
}

var c19ReaderModes = []string{"everything in one call", "pieces of 1..7 bytes", "pieces of 1..600 bytes", "the last piece together with io.EOF", "pieces with empty reads in between"}

// c19Reader delivers b in the manner of its mode, counting Read calls.
type c19Reader struct {
	b     []byte
	pos   int
	reads int
	mode  int
	r     *fw.Rand
	gap   bool
}

func (r *c19Reader) Read(p []byte) (int, error) {
	r.reads++
	if len(p) == 0 {
		return 0, nil
	}
	if r.pos >= len(r.b) {
		return 0, io.EOF
	}
	max := len(p)
	switch r.mode {
	case 1:
		max = r.r.Range(1, 7)
	case 2, 3:
		max = r.r.Range(1, 600)
	case 4:
		if r.gap = !r.gap; r.gap {
			return 0, nil
		}
		max = r.r.Range(1, 100)
	}
	if max > len(p) {
		max = len(p)
	}
	n := copy(p[:max], r.b[r.pos:])
	r.pos += n
	if r.mode == 3 && r.pos >= len(r.b) {
		return n, io.EOF
	}
	return n, nil
}

// c19Snap renders everything a Read returned.
func c19Snap(t *igc.T, err error) string {
	if t == nil || t.LineString == nil {
		return fmt.Sprintf("nil track, err=%v", err)
	}
	es := ""
	if err != nil {
		func() {
			defer func() { recover() }()
			es = err.Error()
		}()
	}
	return fmt.Sprintf("%q %s %s", t.Headers, fw.Fs(t.LineString.FlatCoords()), es)
}

type fix struct {
	lon, lat float64
	alt      float64
	t        int64
}

func c19Desc(fixes []fix, layout geom.Layout) map[string]any {
	var sb strings.Builder
	for i, f := range fixes {
		if i >= 6 {
			fmt.Fprintf(&sb, "... (%d fixes)", len(fixes))
			break
		}
		fmt.Fprintf(&sb, "(%s %s %s @%s) ", fw.F(f.lon), fw.F(f.lat), fw.F(f.alt), time.Unix(f.t, 0).UTC().Format("2006-01-02T15:04:05"))
	}
	return map[string]any{"layout": layout.String(), "fixes": sb.String()}
}

// parseBIndependent reads the fixed columns of a B record (FAI IGC spec 4.1):
// B HHMMSS DDMMmmm N/S DDDMMmmm E/W A/V PPPPP GGGGG
func parseBIndependent(line string) (hh, mm, ss int, lat, lon float64, palt, galt int, err error) {
	if len(line) < 35 || line[0] != 'B' {
		return 0, 0, 0, 0, 0, 0, 0, fmt.Errorf("B record %q too short", line)
	}
	num := func(s string) (int, error) {
		v := 0
		for _, ch := range s {
			if ch < '0' || ch > '9' {
				return 0, fmt.Errorf("non-digit in %q", s)
			}
			v = v*10 + int(ch-'0')
		}
		return v, nil
	}
	var e error
	get := func(s string) int {
		v, e2 := num(s)
		if e2 != nil && e == nil {
			e = e2
		}
		return v
	}
	hh, mm, ss = get(line[1:3]), get(line[3:5]), get(line[5:7])
	latD, latM := get(line[7:9]), get(line[9:14])
	lonD, lonM := get(line[15:18]), get(line[18:23])
	palt, galt = get(line[25:30]), get(line[30:35])
	if e != nil {
		return 0, 0, 0, 0, 0, 0, 0, e
	}
	lat = float64(latD) + float64(latM)/60000
	lon = float64(lonD) + float64(lonM)/60000
	switch line[14] {
	case 'N':
	case 'S':
		lat = -lat
	default:
		return 0, 0, 0, 0, 0, 0, 0, fmt.Errorf("bad latitude hemisphere %q", line[14])
	}
	switch line[23] {
	case 'E':
	case 'W':
		lon = -lon
	default:
		return 0, 0, 0, 0, 0, 0, 0, fmt.Errorf("bad longitude hemisphere %q", line[23])
	}
	if line[24] != 'A' && line[24] != 'V' {
		return 0, 0, 0, 0, 0, 0, 0, fmt.Errorf("bad fix validity %q", line[24])
	}
	if latM >= 60000 || lonM >= 60000 || latD > 90 || lonD > 180 {
		return 0, 0, 0, 0, 0, 0, 0, fmt.Errorf("degrees or minutes out of range")
	}
	return
}

const c19Res = 1.0 / 60000

func c19Clamp(alt float64) float64 {
	v := int(alt)
	if v < 0 {
		v = 0
	}
	if v > 10000 {
		v = 10000
	}
	return float64(v)
}

// c19RoundTrip encodes a track and reads it back.
// c19Zones are the process time zones the round trips run under: the format is
// defined in UTC, so the zone of the machine must not matter.
var c19Zones = []*time.Location{
	time.UTC,
	time.FixedZone("+0530", 5*3600+1800),
	time.FixedZone("-0900", -9*3600),
	time.FixedZone("+1400", 14*3600),
	time.FixedZone("-1130", -11*3600-1800),
}

func c19RoundTrip(c *fw.Ctx, fixes []fix, layout geom.Layout) {
	c.SetInput(c19Desc(fixes, layout))
	zone := c19Zones[c.R.Intn(len(c19Zones))]
	time.Local = zone
	c.Count("process_zone_" + zone.String())
	if len(fixes) > 0 && c.R.Chance(1, 8) {
		// another file read first, by this or any other caller in the process: dated the
		// 31st (30th, 28th) of the month before the track's first fix, its time of day
		// going backwards twice (two midnights without a date record)
		func() {
			defer func() { _ = recover() }()
			ft := time.Unix(fixes[0].t, 0).UTC()
			pm := time.Date(ft.Year(), ft.Month(), 0, 0, 0, 0, 0, time.UTC) // last day of the month before
			day := []int{31, pm.Day(), 30}[c.R.Intn(3)]
			txt := fmt.Sprintf("AXVF777 other\nHFDTE%02d%02d%02d\nB2300004730000N00830000EA0050000500\nB1000004730000N00830000EA0050000500\nB0900004730000N00830000EA0050000500\nB0800004730000N00830000EA0050000500\n", day, int(pm.Month()), pm.Year()%100)
			_, _ = igc.Read(strings.NewReader(txt))
		}()
		c.Count("another_file_with_undated_midnights_read_first")
	}
	stride := layout.Stride()
	flat := make([]float64, 0, len(fixes)*stride)
	for _, f := range fixes {
		co := make([]float64, stride)
		co[0], co[1], co[2], co[3] = f.lon, f.lat, f.alt, float64(f.t)
		flat = append(flat, co...)
	}
	ls := geom.NewLineStringFlat(layout, flat)
	var buf bytes.Buffer
	var err error
	if c.Guard("panic", func() { err = igc.NewEncoder(&buf, igc.A("XVF001 verif")).Encode(ls) }) {
		return
	}
	c.Eval(1)
	if err != nil {
		c.Fail("encode-error", "Encode failed: %v", err)
		return
	}
	text := buf.String()
	// independent column-by-column reading of the encoder's B records
	var bl []string
	for _, line := range strings.Split(text, "\n") {
		if strings.HasPrefix(line, "B") {
			bl = append(bl, line)
		}
	}
	if len(bl) != len(fixes) {
		c.Fail("encoder-fix-count", "encoder wrote %d B records for %d fixes", len(bl), len(fixes))
		return
	}
	for i, line := range bl {
		hh, mm, ss, lat, lon, palt, galt, e := parseBIndependent(line)
		if e != nil {
			c.Fail("encoder-bad-record", "encoder wrote a malformed B record %q: %v", line, e)
			return
		}
		ft := time.Unix(fixes[i].t, 0).UTC()
		if hh != ft.Hour() || mm != ft.Minute() || ss != ft.Second() {
			c.Fail("encoder-bad-record", "B record %q carries time %02d%02d%02d, fix time %s", line, hh, mm, ss, ft.Format("15:04:05"))
			return
		}
		if math.Abs(lat-fixes[i].lat) >= c19Res*(1+1e-9) || math.Abs(lon-fixes[i].lon) >= c19Res*(1+1e-9) {
			c.Fail("encoder-bad-record", "B record %q reads as (%v %v), fix is (%v %v)", line, lon, lat, fixes[i].lon, fixes[i].lat)
			return
		}
		if w := int(c19Clamp(fixes[i].alt)); palt != w || galt != w {
			c.Fail("encoder-bad-record", "B record %q carries altitudes %d/%d, want %d", line, palt, galt, w)
			return
		}
	}
	c.Count("tracks_encoded")
	c.CountN("fixes_encoded", int64(len(fixes)))
	t, ok := c19Read(c, []byte(text), "round trip")
	if !ok {
		return
	}
	got := append([]float64{}, t.LineString.FlatCoords()...) // a copy: the track itself is let go (and overwritten) at the next read
	if len(got)/5 != len(fixes) {
		_, rerr := igc.Read(strings.NewReader(text))
		c.Fail("fix-count", "track of %d fixes read back with %d fixes (decoder errors: %v)", len(fixes), len(got)/5, rerr)
		return
	}
	for i, f := range fixes {
		g := got[i*5 : i*5+5]
		if math.Abs(g[0]-f.lon) >= c19Res*(1+1e-9) || math.Abs(g[1]-f.lat) >= c19Res*(1+1e-9) {
			c.Fail("position-error", "fix %d (%v %v) read back as (%v %v): off by more than 1/60000 degree", i, f.lon, f.lat, g[0], g[1])
			return
		}
		if math.Abs(g[3]-float64(f.t)) > 1e-3 {
			c.Fail("timestamp-error", "fix %d at %s (unix %d) read back as %s (unix %v)", i, time.Unix(f.t, 0).UTC().Format(time.RFC3339), f.t, time.Unix(int64(g[3]), 0).UTC().Format(time.RFC3339), g[3])
			return
		}
		if w := c19Clamp(f.alt); g[2] != w || g[4] != w {
			c.Fail("altitude-error", "fix %d altitude %v read back as %v/%v, want %v", i, f.alt, g[2], g[4], w)
			return
		}
	}
	c.Count("tracks_read_back")
	// one Encoder for two tracks in a row: first a track it has to refuse (a layout
	// without a time ordinate: as the code stands it panics; the caller recovers),
	// then this one
	if c.R.Chance(1, 4) {
		var kb bytes.Buffer
		enc := igc.NewEncoder(&kb, igc.A("XVF001 verif"))
		func() {
			defer func() {
				if recover() != nil {
					c.Count("refused_encodes_that_panicked")
				}
			}()
			bad := geom.NewLineStringFlat([]geom.Layout{geom.XYM, geom.XY, geom.XYZ}[c.R.Intn(3)], []float64{1, 2, 3, 4, 5, 6})
			enc.Encode(bad)
		}()
		kb.Reset()
		var e2 error
		if c.Guard("panic", func() { e2 = enc.Encode(ls) }) {
			return
		}
		c.Eval(1)
		c.Count("encoder_used_after_a_refused_track")
		if e2 != nil || kb.String() != text {
			c.Fail("history-dependent", "an Encoder that had refused another track before wrote %q (err=%v); a fresh one writes %q", clipStr(kb.String(), 200), e2, clipStr(text, 200))
			return
		}
	}
	// an A record of several kilobytes (the manufacturer text is the caller's): whatever
	// it contains, it is one record, and the fixes after it read back as they are
	if c.R.Chance(1, 12) {
		n := []int{4000, 4090, 4094, 4095, 4096, 4097, 8190, 8191, 8192, 9000, 16384, 50000}[c.R.Intn(12)] + c.R.Intn(3)
		tail := []string{"B1200004530000N00730000EA0100001000", "I013636TDS", "HFDTE010203", "B12", "\u00e9"}[c.R.Intn(5)]
		atext := strings.Repeat("X", n-len(tail)-c.R.Intn(3)) + tail + strings.Repeat("Y", c.R.Intn(40))
		if c.R.Bool() {
			// the record-like text starts exactly where a 4096-byte (8192-, 16384-byte) piece of the line would
			start := []int{4095, 4096, 4094, 8191, 8192, 12287, 16383, 4095, 8191}[c.R.Intn(9)]
			atext = strings.Repeat("X", start) + tail + strings.Repeat("Y", c.R.Intn(40))
		}
		var lb bytes.Buffer
		var e3 error
		if c.Guard("panic", func() { e3 = igc.NewEncoder(&lb, igc.A(atext)).Encode(ls) }) {
			return
		}
		if e3 == nil {
			t3, ok := c19Read(c, lb.Bytes(), "round trip with a long A record")
			if !ok {
				return
			}
			c.Count("tracks_with_an_A_record_of_kilobytes")
			if !model.BitsEq(t3.LineString.FlatCoords(), got) {
				c.Fail("fix-count", "behind an A record of %d bytes the track reads back with %d fixes (%d written), or other values", len(atext)+1, t3.LineString.NumCoords(), len(fixes))
				return
			}
		}
	}
	// the same through one bytes.Buffer the worker keeps for all its tracks, the way a
	// pipe is used: the encoder writes into it, Read takes the stream out of it again
	if c.R.Chance(1, 3) {
		var t2 *igc.T
		var e2 error
		if c.Guard("panic", func() {
			e2 = igc.NewEncoder(&c19Pipe, igc.A("XVF001 verif")).Encode(ls)
			if e2 == nil {
				t2, e2 = igc.Read(&c19Pipe)
			}
		}) {
			return
		}
		c.Eval(1)
		c.Count("tracks_sent_through_the_kept_buffer")
		if t2 == nil || t2.LineString == nil || !model.BitsEq(t2.LineString.FlatCoords(), got) {
			n2 := -1
			if t2 != nil && t2.LineString != nil {
				n2 = t2.LineString.NumCoords()
			}
			c.Fail("history-dependent", "the track written into and read from a buffer used for earlier tracks reads back with %d fixes (err=%v); read from its own bytes it has %d", n2, e2, len(got)/5)
			return
		}
	}
}

// c19Pipe carries every track of a worker process from an encoder to igc.Read.
var c19Pipe bytes.Buffer

func c19Pos(r *fw.Rand) (lon, lat float64) {
	switch r.Intn(9) {
	case 8: // a hair below (or above) a whole degree or a whole minute
		eps := []float64{1e-11, 1e-12, 3e-12, 1e-13, 1e-9, 5e-10}[r.Intn(6)] * float64(1-2*r.Intn(2))
		lo, la := float64(r.Range(-179, 179)), float64(r.Range(-89, 89))
		if r.Bool() {
			lo, la = lo+float64(r.Range(0, 59))/60, la+float64(r.Range(0, 59))/60
		}
		if r.Chance(1, 3) {
			return math.Nextafter(lo, lo+eps), math.Nextafter(la, la+eps)
		}
		return lo + eps, la + eps
	case 0:
		return []float64{180, -180, 0, math.Copysign(0, -1)}[r.Intn(4)], []float64{90, -90, 0, math.Copysign(0, -1)}[r.Intn(4)]
	case 1: // just inside the limits
		return math.Copysign(180-r.Float01()*1e-4, float64(1-2*r.Intn(2))), math.Copysign(90-r.Float01()*1e-4, float64(1-2*r.Intn(2)))
	case 2: // exact milli-minute multiples and their neighbours
		return float64(r.Range(-10800000, 10800000))/60000 + float64(r.Range(-1, 1))*1e-9, float64(r.Range(-5400000, 5400000))/60000 + float64(r.Range(-1, 1))*1e-9
	default:
		return r.Float01()*360 - 180, r.Float01()*180 - 90
	}
}

func clampRange(v, lo, hi float64) float64 { return math.Max(lo, math.Min(hi, v)) }

var c19Epoch0 = time.Date(1970, 1, 1, 0, 0, 0, 0, time.UTC).Unix()
var c19EpochEnd = time.Date(2069, 12, 31, 23, 59, 59, 0, time.UTC).Unix()

// every day from 1970-01-01 to 2069-12-31 with a fix just before and after midnight
func c19Days(c *fw.Ctx, idx int) {
	r := c.R
	day := time.Date(1970, 1, 1, 0, 0, 0, 0, time.UTC).AddDate(0, 0, idx)
	t0 := day.Unix()
	var fixes []fix
	times := []int64{t0, t0 + int64(r.Intn(86400)), t0 + 86399}
	if t0+86400 <= c19EpochEnd {
		times = append(times, t0+86400, t0+86400+int64(r.Intn(3600)))
	}
	for i := 1; i < len(times); i++ {
		if times[i] < times[i-1] {
			times[i] = times[i-1]
		}
	}
	for _, tt := range times {
		lon, lat := c19Pos(r)
		fixes = append(fixes, fix{lon: clampRange(lon, -180, 180), lat: clampRange(lat, -90, 90), alt: float64(r.Range(0, 10000)), t: tt})
	}
	c.Count("dates_covered")
	if day.Year() < 2000 {
		c.Count("dates_before_2000")
	}
	if day.Month() == 2 && day.Day() == 29 {
		c.Count("leap_days")
	}
	c.Distinct(fmt.Sprintf("day/%s", day.Format("2006-01-02")))
	c19RoundTrip(c, fixes, geom.Layout(5))
	if idx%5003 == 0 && c.WantSample() {
		c.Sample(c.Input())
	}
}

// c19EveryLength: tracks of exactly idx fixes, idx = 0, 1, 2, ..., a fix every 1,
// 7, 61 or 3,601 seconds from a start in the evening, through the whole round trip
// c19RoundTrip judges: encoders and readers that work in blocks or grow buffers
// have their seams at some number of records.
func c19EveryLength(c *fw.Ctx, idx int) {
	n := idx
	step := []int64{1, 7, 61, 3601}[idx%4]
	t0 := time.Date(1970+idx%100, time.Month(1+idx%12), 1+idx%28, 21, 30, 0, 0, time.UTC).Unix()
	fixes := make([]fix, n)
	for i := range fixes {
		tt := t0 + int64(i)*step
		if tt > c19EpochEnd {
			tt = c19EpochEnd
		}
		fixes[i] = fix{lon: float64(i%360) - 180 + 0.25, lat: float64(i%180) - 90 + 0.5, alt: float64(i % 10001), t: tt}
	}
	c.Count("track_lengths_round_tripped")
	if idx%500 == 0 {
		c.Distinct(fmt.Sprintf("every-length/%d", idx))
	}
	c19RoundTrip(c, fixes, geom.Layout(5))
}

// random multi-day tracks
func c19Tracks(c *fw.Ctx, idx int) {
	r := c.R
	n := r.Range(1, 200)
	if r.Chance(1, 2) {
		n = r.Range(1, 8)
	}
	start := c19Epoch0 + int64(r.Uint64()%uint64(c19EpochEnd-c19Epoch0))
	switch r.Intn(6) {
	case 0: // around a year boundary
		y := r.Range(1970, 2069)
		start = time.Date(y, 12, 31, 23, 59, 0, 0, time.UTC).Unix() - int64(r.Intn(120))
	case 1: // the 1999/2000 boundary
		start = time.Date(1999, 12, 31, 23, 58, 0, 0, time.UTC).Unix() - int64(r.Intn(60))
	case 2: // a leap day
		y := []int{1972, 1996, 2000, 2024, 2068}[r.Intn(5)]
		start = time.Date(y, 2, 28, 23, 50, 0, 0, time.UTC).Unix()
	case 3: // month end
		start = time.Date(r.Range(1970, 2069), time.Month(r.Range(1, 12)), 1, 0, 0, 0, 0, time.UTC).Unix() - int64(r.Intn(300))
	}
	if start < c19Epoch0 {
		start = c19Epoch0
	}
	steps := []int64{0, 1, 1, 5, 60, 3600, 43200, 86400, 90000, 200000}
	if r.Chance(1, 4) {
		// steps of about a day (the time of day goes slightly backwards or stays
		// the same while the date advances) and of several days
		steps = []int64{86399, 86400, 86401, 86340, 86341, 86399 - 58, 86400 - 3600, 86400 + 59, 2*86400 - 1, 2 * 86400, 3*86400 - 30, 1}
	}
	if r.Chance(1, 4) {
		// whole days, weeks and months between fixes, starting shortly before a year or
		// month ends one time in two: the date changes by any amount from record to record
		steps = steps[:0]
		for k := 0; k < 12; k++ {
			steps = append(steps, int64(r.Range(1, 40))*86400+int64(r.Range(-2, 2)))
		}
		steps = append(steps, 7*86400, 7*86400, 31*86400, 365*86400, 366*86400, 1)
		if r.Bool() {
			y := r.Range(1970, 2068)
			start = time.Date(y, 12, 31, 12, 0, 0, 0, time.UTC).Unix() - int64(r.Intn(13))*86400 - int64(r.Intn(40000))
			if r.Chance(1, 3) {
				start = time.Date(y, time.Month(r.Range(1, 12)), 28, 12, 0, 0, 0, time.UTC).Unix() - int64(r.Intn(10))*86400
			}
		}
		c.Count("tracks_with_steps_of_whole_days_and_weeks")
	}
	if r.Chance(1, 5) {
		// a long flight: 30..120 fixes 20..59 minutes apart, starting in the evening
		// of one of the last days of a month - several midnights, a month end (and a
		// year end one time in twelve) without ever a gap of an hour
		y, mo := r.Range(1970, 2069), time.Month(r.Range(1, 12))
		lastDay := time.Date(y, mo+1, 0, 0, 0, 0, 0, time.UTC).Day()
		start = time.Date(y, mo, lastDay-r.Intn(2), 20+r.Intn(4), r.Intn(60), r.Intn(60), 0, time.UTC).Unix()
		n = r.Range(30, 120)
		st := int64(r.Range(20*60, 59*60+59))
		steps = []int64{st, st, st, st + int64(r.Range(-30, 30))}
		c.Count("tracks_crossing_several_midnights_without_an_hour's_gap")
	}
	tt := start
	var fixes []fix
	crossings := map[string]bool{}
	for i := 0; i < n; i++ {
		prev := time.Unix(tt, 0).UTC()
		tt += steps[r.Intn(len(steps))]
		if tt > c19EpochEnd {
			tt = c19EpochEnd
		}
		cur := time.Unix(tt, 0).UTC()
		if i > 0 {
			if cur.Year() != prev.Year() {
				crossings["year"] = true
				if prev.Year() == 1999 {
					crossings["century"] = true
				}
			} else if cur.Month() != prev.Month() {
				crossings["month"] = true
			} else if cur.Day() != prev.Day() {
				crossings["day"] = true
			}
			if cur.Unix() == prev.Unix() {
				crossings["same-second"] = true
			}
		}
		lon, lat := c19Pos(r)
		alt := float64(r.Range(0, 10000))
		if r.Chance(1, 10) {
			alt += r.Float01() // fractional altitudes are truncated
			if alt > 10000 {
				alt = 10000
			}
		}
		if r.Chance(1, 12) {
			// outside the format's range: must come back clamped to its ends
			alt = []float64{-1, -0.5, -500, 10000.5, 10001, 12345, 99999, 100000, 1e9, -1e9}[r.Intn(10)]
			c.Count("altitudes_outside_format_range")
		}
		fixes = append(fixes, fix{lon: clampRange(lon, -180, 180), lat: clampRange(lat, -90, 90), alt: alt, t: tt})
	}
	for k := range crossings {
		c.Count("crossed_" + k)
	}
	layout := geom.Layout(5)
	if r.Chance(1, 3) {
		layout = geom.XYZM
	}
	c.Distinct(fmt.Sprintf("track/%d/%s/%d", n, layout, len(crossings)))
	c19RoundTrip(c, fixes, layout)
	if c.WantSample() && n <= 4 {
		c.Sample(c.Input())
	}
	// a failing writer must surface its error
	if r.Chance(1, 4) {
		stride := layout.Stride()
		flat := make([]float64, 0, len(fixes)*stride)
		for _, f := range fixes {
			co := make([]float64, stride)
			co[0], co[1], co[2], co[3] = f.lon, f.lat, f.alt, float64(f.t)
			flat = append(flat, co...)
		}
		ls := geom.NewLineStringFlat(layout, flat)
		var full bytes.Buffer
		igc.NewEncoder(&full, igc.A("XVF001")).Encode(ls)
		p := r.Intn(full.Len())
		fwr := &failWriter{limit: p}
		var err error
		if c.Guard("panic", func() { err = igc.NewEncoder(fwr, igc.A("XVF001")).Encode(ls) }) {
			return
		}
		c.Eval(1)
		c.Count("writer_failures_injected")
		if err == nil || !errors.Is(err, errInjected) {
			c.Fail("writer-error-lost", "Encode returned %v although the writer failed after %d of %d bytes", err, p, full.Len())
			return
		}
		// the device comes back and the caller tries again with the same Encoder: what
		// the second attempt writes is a complete file of its own
		rw := &retryWriter{failAfter: p}
		enc := igc.NewEncoder(rw, igc.A("XVF001"))
		var e1, e2 error
		if c.Guard("panic", func() {
			e1 = enc.Encode(ls)
			rw.failAfter = -1
			rw.buf.Reset()
			e2 = enc.Encode(ls)
		}) {
			return
		}
		c.Eval(2)
		c.Count("encode_retried_on_the_same_encoder_after_a_writer_error")
		if e1 == nil || e2 != nil || !bytes.Equal(rw.buf.Bytes(), full.Bytes()) {
			c.Fail("history-dependent", "Encode on an Encoder whose previous Encode failed (writer error after %d bytes): first err=%v, retry err=%v, the retry wrote %q; a fresh Encoder writes %q", p, e1, e2, clipStr(rw.buf.String(), 200), clipStr(full.String(), 200))
		}
	}
}

// retryWriter fails (with the bytes so far accepted) once failAfter bytes have been
// taken, until failAfter is set to -1.
type retryWriter struct {
	buf       bytes.Buffer
	failAfter int
}

func (w *retryWriter) Write(p []byte) (int, error) {
	if w.failAfter >= 0 {
		room := w.failAfter - w.buf.Len()
		if len(p) > room {
			if room > 0 {
				w.buf.Write(p[:room])
			} else {
				room = 0
			}
			return room, errInjected
		}
	}
	return w.buf.Write(p)
}

var c19Seeds = []string{
	"AXTR20C38FF2C110\r\nHFDTE151115\r\nHFPLTPILOT:Jane Doe\r\nHFGTYGLIDERTYPE:Gradient Aspen\r\nHFDTM100GPSDATUM:WGS84\r\nB1316284654230N00839078EA0147801630\r\nB1316294654231N00839079EA0147901631\r\nGABCDEF\r\n",
	"ACPP274CPILOT - s/n:11002274\r\nHFDTE020613\r\nI033638FXA3940SIU4141TDS\r\nB1053525151892N00203986WA0017900275000108\r\nB1053535151893N00203987WA0017900276000109\r\n",
	"AXCC64BCompCheck-3.2\r\nHFDTE100810\r\nI033637LAD3839LOD4040TDS\r\nB1146174031985N00726775WA010040114912340\r\nLXCC comment\r\nB1146184031986S00726776EA010040114912341\r\n",
	"AXGD Flymaster LiveSD  SN03142  SW1.07b\r\nHFDTEDATE:220418,01\r\nB1316284654230N00839078EA0147801630\r\n",
	"\ufeffAFLY05094\nHFDTE311299\nHFFXA100\nB2359590000000N00000000EA0000000000\nB0000010000001S18000000WA1000010000\n",
	"\x13AXXX\nHFDTE010170\nC150701213841160701000102\nF160240040609123624221821\nB1602405407121N00249342WA002800042120509950\nE160245PEV\n",
}

func c19Decode(c *fw.Ctx, idx int) {
	r := c.R
	s := []byte(c19Seeds[r.Intn(len(c19Seeds))])
	class := ""
	switch r.Intn(12) {
	case 9, 10, 11:
		// sequences of records: the decoder carries state from record to record
		// (the date of the last H DTE record, the extension table and the record
		// length of the last I record), so several I records of different tables,
		// B records fitting the previous or the current table or neither, dates
		// before and after fixes, and unknown record types are mixed
		class = "record-sequence"
		var sb strings.Builder
		if r.Chance(9, 10) {
			sb.WriteString("AXXX001\n")
		}
		eol := []string{"\n", "\r\n"}[r.Intn(2)]
		curLen := 35
		n := r.Range(3, 14)
		for i := 0; i < n; i++ {
			switch r.Intn(10) {
			case 0, 1:
				fmt.Fprintf(&sb, "HFDTE%02d%02d%02d", r.Range(0, 32), r.Range(0, 13), r.Intn(100))
			case 2, 3, 4:
				// a well-formed I record: k extensions laid out back to back from column 36
				k := r.Intn(4)
				fmt.Fprintf(&sb, "I%02d", k)
				pos := 36
				for j := 0; j < k; j++ {
					w := r.Range(1, 4)
					code := []string{"LAD", "LOD", "TDS", "FXA", "SIU", "ENL"}[r.Intn(6)]
					if code == "LAD" || code == "LOD" || code == "TDS" {
						w = r.Range(1, 3)
					}
					fmt.Fprintf(&sb, "%02d%02d%s", pos, pos+w-1, code)
					pos += w
				}
				curLen = pos - 1
				if r.Chance(1, 6) {
					sb.WriteString("9")
				}
			case 5, 6, 7, 8:
				b := "B1316284654230N00839078EA0147801630" + "9876543210123456789098765432101234567890"
				l := curLen
				switch r.Intn(6) {
				case 0:
					l = 35
				case 1:
					l = r.Intn(len(b) + 1)
				case 2:
					l = curLen - 1
				case 3:
					l = curLen + 1
				}
				if l < 0 {
					l = 0
				}
				if l > len(b) {
					l = len(b)
				}
				sb.WriteString(b[:l])
			default:
				sb.WriteString([]string{"", "LXXXcomment", "C1234", "F1316280102", "G0123ABC", "K131628", "E131628PEV"}[r.Intn(7)])
			}
			sb.WriteString(eol)
		}
		s = []byte(sb.String())
	case 0:
		class = "seed"
	case 1, 2:
		class = "byte-mutation"
		k := r.Range(1, 5)
		chars := "ABHIL0123456789NSEW:\r\n -\x00\xff,"
		for i := 0; i < k && len(s) > 0; i++ {
			p := r.Intn(len(s))
			switch r.Intn(3) {
			case 0:
				s = append(s[:p], s[p+1:]...)
			case 1:
				s[p] = chars[r.Intn(len(chars))]
			default:
				s = append(s[:p], append([]byte{chars[r.Intn(len(chars))]}, s[p:]...)...)
			}
		}
	case 3:
		class = "line-ops"
		lines := strings.SplitAfter(string(s), "\n")
		switch r.Intn(3) {
		case 0:
			i := r.Intn(len(lines))
			lines = append(lines[:i], lines[i+1:]...)
		case 1:
			i := r.Intn(len(lines))
			lines = append(lines[:i+1], append([]string{lines[i]}, lines[i+1:]...)...)
		default:
			i, j := r.Intn(len(lines)), r.Intn(len(lines))
			lines[i], lines[j] = lines[j], lines[i]
		}
		s = []byte(strings.Join(lines, ""))
	case 4:
		class = "truncated-b-record"
		b := "B1316284654230N00839078EA014780163012345678"
		n := r.Intn(len(b) + 1)
		i := []string{"", "I013638TDS\n", "I023638LAD3940LOD\n", "I033638FXA3940SIU4141TDS\n"}[r.Intn(4)]
		s = []byte("AXXX\nHFDTE010203\n" + i + b[:n] + "\n" + b + "\n")
	case 5:
		class = "over-long-line"
		n := []int{100, 5000, 70000, 200000}[r.Intn(4)]
		s = []byte("AXXX\nHFDTE010203\nB" + strings.Repeat("1", n) + "\nB1316284654230N00839078EA0147801630\n")
	case 6:
		class = "noise-before-a"
		noise := []string{"\ufeff", "\x13", "  ", "xx", "\x00\x01", "B1316284654230N00839078EA0147801630\n", "\ufeff\x13", "hello A world\n"}[r.Intn(8)]
		s = append([]byte(noise), s...)
	case 7:
		class = "i-record-forged"
		n := r.Range(0, 4)
		var sb strings.Builder
		fmt.Fprintf(&sb, "I%02d", r.Range(0, 5))
		for i := 0; i < n; i++ {
			fmt.Fprintf(&sb, "%02d%02d%s", r.Intn(100), r.Intn(100), []string{"LAD", "LOD", "TDS", "FXA", "XYZ"}[r.Intn(5)])
		}
		b := "B1316284654230N00839078EA0147801630" + strings.Repeat("7", r.Intn(30))
		s = []byte("AXXX\nHFDTE010203\n" + sb.String() + "\n" + b + "\n" + b[:r.Intn(len(b)+1)] + "\n")
	default:
		class = "random-bytes"
		n := r.Intn(200)
		s = s[:0]
		chars := "ABHI0123456789NSEW\n\r:"
		for i := 0; i < n; i++ {
			if r.Chance(1, 5) {
				s = append(s, byte(r.Uint64()))
			} else {
				s = append(s, chars[r.Intn(len(chars))])
			}
		}
	}
	c.SetRawInput(map[string]any{"class": class, "igc": clipStr(fmt.Sprintf("%q", s), 700)}, s)
	c.Count("decode_" + class)
	if t, ok := c19Read(c, s, class); ok {
		c.CountN("fixes_decoded", int64(len(t.LineString.FlatCoords())/5))
		c.Distinct(fmt.Sprintf("dec/%s/%d/%d", class, len(t.LineString.FlatCoords())/5, len(t.Headers)))
	}
}

// every I-record table with one extension over start/stop in 00..99 and the three recognised codes
func c19ITables(c *fw.Ctx, idx int) {
	code := []string{"LAD", "LOD", "TDS"}[idx%3]
	start := idx / 3 % 100
	stop := idx / 300 % 100
	b := "B1316284654230N00839078EA0147801630" + "0123456789012345678901234567890123456789012345678901234567890123456789"
	for _, second := range []string{"", fmt.Sprintf("%02d%02d%s", stop+1, (stop+3)%100, []string{"LOD", "TDS", "LAD"}[idx%3])} {
		n := 1
		if second != "" {
			n = 2
		}
		for _, blen := range []int{35, stop, stop + 1, len(b)} {
			if blen < 0 || blen > len(b) {
				continue
			}
			s := fmt.Sprintf("AXXX\nHFDTE010203\nI%02d%02d%02d%s%s\n%s\n", n, start, stop, code, second, b[:blen])
			c.SetRawInput(map[string]any{"class": "i-table", "igc": fmt.Sprintf("%q", s)}, []byte(s))
			c19Read(c, []byte(s), "I-record table")
		}
	}
	c.Count("i_tables")
	c.Distinct(fmt.Sprintf("itab/%s/%d/%d", code, start, stop))
}

// H DTE records over all two-digit fields
func c19Dates(c *fw.Ctx, idx int) {
	dd, mm, yy := idx%100, idx/100%100, idx/10000%100
	s := fmt.Sprintf("AXXX\nHFDTE%02d%02d%02d\nB1316284654230N00839078EA0147801630\nB0000014654230N00839078EA0147801630\n", dd, mm, yy)
	c.SetRawInput(map[string]any{"class": "h-dte", "igc": fmt.Sprintf("%q", s)}, []byte(s))
	t, ok := c19Read(c, []byte(s), "H DTE record")
	c.Count("h_dte_records")
	if !ok {
		return
	}
	c.Distinct(fmt.Sprintf("dte/%02d%02d", mm, yy))
	// a valid calendar date must decode to that date within the two-digit window 1970..2069
	year := 2000 + yy
	if yy >= 70 {
		year = 1900 + yy
	}
	if mm >= 1 && mm <= 12 && dd >= 1 {
		d := time.Date(year, time.Month(mm), dd, 13, 16, 28, 0, time.UTC)
		if d.Day() == dd && d.Month() == time.Month(mm) {
			f := t.LineString.FlatCoords()
			if len(f) < 10 {
				c.Fail("fix-count", "valid date %02d%02d%02d: %d fixes decoded, want 2", dd, mm, yy, len(f)/5)
				return
			}
			if math.Abs(f[3]-float64(d.Unix())) > 1e-3 {
				c.Fail("timestamp-error", "H DTE %02d%02d%02d: first fix decoded at %s, want %s", dd, mm, yy, time.Unix(int64(f[3]), 0).UTC().Format(time.RFC3339), d.Format(time.RFC3339))
				return
			}
			c.Count("valid_dates_checked")
		}
	}
}

func c19RawReplay(c *fw.Ctx, raw []byte) { c19Read(c, raw, "replay") }

func init() {
	ndays := int((c19EpochEnd-c19Epoch0)/86400) + 1
	fw.Register(&fw.Monitor{
		ID:     "C19",
		Title:  "IGC decoding is total; encode-then-decode keeps a track to format resolution",
		Rule:   "round trip: every day from 1970-01-01 to 2069-12-31 with fixes at 00:00:00, a random time, 23:59:59 and after the following midnight, plus random multi-day tracks of 1..200 fixes (steps 0 s..2.3 days) around year, 1999/2000, leap-day and month boundaries; positions incl. exactly +-180/+-90, 0, -0, just inside the limits and exact milli-minute multiples +-1e-9; altitude 0..10000 incl. fractional; checks: encoder's B records read column by column by an independent reader, decoded fix count, |lon|,|lat| error < 1/60000 degree, timestamp within 1 ms of the whole second, altitude == clamp(int(alt),0,10000), failing writer surfaces its error. decode side: hand-written seeds mutated (bytes, line deletion/duplication/swap), B records truncated at every length with and without extension tables, over-long lines, noise before the A record, forged I tables (every single-extension table over 00..99 x LAD/LOD/TDS), H DTE over all two-digit fields: no panic, Read calls <= 4*len+16, non-nil 5-dimensional track of whole fixes, error nil or igc.Errors. distinct_nontrivial = distinct dates / track shapes / decode outcomes",
		Assume: []string{"the property's arithmetic is its own reference; B-record columns per FAI IGC specification"},
		Classes: []fw.Class{
			{Name: "every-day", Quick: ndays, Thorough: ndays, Run: c19Days, Exhaustive: "every calendar day from 1970-01-01 to 2069-12-31"},
			{Name: "tracks", Quick: 25000, Thorough: 600000, Run: c19Tracks},
			{Name: "every-length", Quick: 3001, Thorough: 12001, Chunk: 25, Run: c19EveryLength, Exhaustive: "tracks of every number of fixes from 0 to the class count"},
			{Name: "decode", Quick: 400000, Thorough: 10000000, Run: c19Decode, RawReplay: c19RawReplay},
			{Name: "i-tables", Quick: 30000, Thorough: 30000, Run: c19ITables, Exhaustive: "every I record with one extension, start/stop in 00..99, codes LAD/LOD/TDS (plus a second extension), B records of four lengths"},
			{Name: "h-dte", Quick: 100000, Thorough: 1000000, Run: c19Dates, Exhaustive: "H DTE records over two-digit day, month, year fields (quick: years 00..09; thorough: all)"},
		},
		Extra: fuzzExtra("C19", 3000000),
		Require: []string{"dates_covered", "dates_before_2000", "leap_days", "tracks_read_back", "crossed_day", "crossed_month", "crossed_year", "crossed_century", "writer_failures_injected",
			"decode_seed", "decode_byte-mutation", "decode_truncated-b-record", "decode_i-record-forged", "decode_over-long-line", "decode_noise-before-a", "i_tables", "h_dte_records", "valid_dates_checked", "fixes_decoded"},
	})
}
