package mon

import (
	"fmt"
	"math"
	"math/big"
	"strings"

	geom "github.com/twpayne/go-geom"

	"verifharness/exact"
	"verifharness/fw"
	"verifharness/gen"
	"verifharness/model"
)

// C09 - Length and Area are the exact measures up to rounding, additive, total.

type measurer interface {
	Area() float64
	Length() float64
}

// c09Exact computes, for one vertex sequence, the exact signed shoelace area
// (counter-clockwise positive), the exact sum of |trapezoid terms| as the code
// forms them, the 400-bit length and the number of segments.
type c09acc struct {
	area2    *big.Rat   // exact sum of (y_i - y_{i-1})(x_i + x_{i-1})
	absArea2 *big.Rat   // exact sum of |terms|
	length   *big.Float // 400-bit sum of segment lengths
	nseg     int
	nadd     int // number of floating-point accumulations the code performs
}

func newAcc() *c09acc {
	return &c09acc{area2: exact.Zero(), absArea2: exact.Zero(), length: new(big.Float).SetPrec(exact.Prec)}
}

func (a *c09acc) addSeq(seq [][]float64) {
	a.nadd++
	for i := 1; i < len(seq); i++ {
		x0, y0 := exact.R(seq[i-1][0]), exact.R(seq[i-1][1])
		x1, y1 := exact.R(seq[i][0]), exact.R(seq[i][1])
		term := exact.Mul(exact.Sub(y1, y0), exact.Add(x1, x0))
		a.area2.Add(a.area2, term)
		a.absArea2.Add(a.absArea2, exact.Abs(term))
		dx, dy := exact.Sub(x1, x0), exact.Sub(y1, y0)
		a.length.Add(a.length, exact.Sqrt(exact.Add(exact.Mul(dx, dx), exact.Mul(dy, dy))))
		a.nseg++
		a.nadd++
	}
}

func c09Closed(seq [][]float64) bool {
	if len(seq) < 2 {
		return true
	}
	f, l := seq[0], seq[len(seq)-1]
	return math.Float64bits(f[0]) == math.Float64bits(l[0]) && math.Float64bits(f[1]) == math.Float64bits(l[1]) ||
		(f[0] == l[0] && f[1] == l[1])
}

// c09Coord: X,Y are zero, small grid integers or of magnitude 2^-200..2^200; extra
// ordinates are arbitrary (NaN and Inf included).
func c09CoordFn(xyClass int) func(r *fw.Rand, stride int) []float64 {
	return func(r *fw.Rand, stride int) []float64 {
		c := make([]float64, stride)
		for i := 0; i < 2 && i < stride; i++ {
			switch xyClass {
			case 0:
				c[i] = float64(r.Range(-4, 4))
			case 1:
				c[i] = gen.Float(r, gen.Grid)
			case 2:
				c[i] = gen.Float(r, gen.Wide)
			case 3:
				c[i] = gen.Float(r, gen.Moderate)
			default:
				c[i] = gen.Float(r, gen.LonLat)
			}
		}
		for i := 2; i < stride; i++ {
			c[i] = gen.Float(r, gen.AnyClass(r))
		}
		return c
	}
}

var c09Kinds = []model.Kind{model.LinearRing, model.Polygon, model.MultiPolygon, model.MultiPolygon, model.LineString, model.MultiLineString, model.Point, model.MultiPoint}
var c09Layouts = []geom.Layout{geom.XY, geom.XYZ, geom.XYM, geom.XYZM, geom.Layout(5), geom.Layout(7)}

func closeRings(r *fw.Rand, g *model.G) {
	cl := func(seq [][]float64) [][]float64 {
		if len(seq) >= 1 {
			last := append([]float64{}, seq[0]...)
			// the extra ordinates of the closing vertex may differ
			for i := 2; i < len(last); i++ {
				if r.Bool() {
					last[i] = float64(r.Range(-5, 5))
				}
			}
			return append(seq, last)
		}
		return seq
	}
	switch g.Kind {
	case model.LinearRing:
		g.C1 = cl(g.C1)
	case model.Polygon:
		for i := range g.C2 {
			g.C2[i] = cl(g.C2[i])
		}
	case model.MultiPolygon:
		for i := range g.C3 {
			for j := range g.C3[i] {
				g.C3[i][j] = cl(g.C3[i][j])
			}
		}
	}
}

func c09Run(c *fw.Ctx, idx int) {
	r := c.R
	kind := c09Kinds[r.Intn(len(c09Kinds))]
	layout := gen.PickLayout(r, c09Layouts)
	xyClass := r.Intn(5)
	g := gen.Shape(r, kind, layout, gen.SmallInt, gen.ShapeOpts{CoordFn: c09CoordFn(xyClass), Big: true, MaxPts: 8})
	closed := r.Chance(7, 10)
	if closed {
		closeRings(r, g)
	}
	c.SetInput(map[string]any{"geometry": g.String()})
	t := g.BuildFlat()
	if c.R.Chance(1, 4) {
		// measures are planar whatever reference system the geometry claims
		geom.SetSRID(t, []int{4326, 4269, 3857, 27700, 1}[c.R.Intn(5)])
		c.Count("geometry_with_an_SRID_set")
	}
	m, ok := t.(measurer)
	if !ok {
		return
	}
	c.Count("kind_" + kind.String())
	if g.HasEmptyBetween() {
		c.Count("empty_component_before_nonempty")
	}
	if kind == model.MultiPolygon {
		for _, p := range g.C3 {
			if len(p) == 0 {
				c.Count("multipolygon_with_empty_polygon")
				break
			}
		}
	}
	if !g.IsEmpty() {
		c.Distinct(g.Sig())
	}
	if c.WantSample() && !g.IsEmpty() {
		c.Sample(g.String())
	}

	if r.Chance(1, 40) {
		c09RefusedCalls(c, layout)
	}
	if !c09Judge(c, t, m, g, kind, "") {
		return
	}
	// a clone measures the same (judged on its own)
	if r.Chance(1, 4) {
		var cl geom.T
		if c.Guard("panic", func() { cl = cloneGeom(t) }) {
			return
		}
		if cm, ok := cl.(measurer); ok && cl != nil {
			c.Count("clones_measured")
			if !c09Judge(c, cl, cm, g, kind, " of a clone") {
				return
			}
		}
	}
	// measure -> change in place -> measure again: the second answer must be the
	// measure of the geometry as it is now, not of what it was
	if g.IsEmpty() || !c.R.Chance(1, 3) {
		return
	}
	r = c.R
	what := ""
	mapAll := func(f func(co []float64)) {
		for _, co := range g.AllCoords() {
			f(co)
		}
	}
	if c.Guard("panic", func() {
		switch r.Intn(7) {
		case 6:
			// the caller regroups the rings of a MultiPolygon through the table Endss()
			// hands out: the last ring of one polygon becomes the first ring of the
			// next (the sequence of end offsets stays what it was, so the geometry is
			// as well formed as before)
			mp, ok := t.(*geom.MultiPolygon)
			if !ok {
				return
			}
			es := mp.Endss()
			for i := 0; i+1 < len(es) && i+1 < len(g.C3); i++ {
				if len(es[i]) >= 2 && len(g.C3[i]) == len(es[i]) {
					k := len(es[i]) - 1
					moved := es[i][k]
					es[i] = es[i][:k:k]
					es[i+1] = append([]int{moved}, es[i+1]...)
					ring := g.C3[i][k]
					g.C3[i] = g.C3[i][:k:k]
					g.C3[i+1] = append([][][]float64{ring}, g.C3[i+1]...)
					what = "rings regrouped through Endss()"
					break
				}
			}
		case 4:
			// exchange the geometry with another one of its type (most of the time with
			// the same number of parts, of other sizes) and measure what it holds now
			g2 := gen.Shape(r, kind, g.Layout, gen.SmallInt, gen.ShapeOpts{CoordFn: c09CoordFn(r.Intn(5)), MaxPts: 8})
			for try := 0; try < 12 && g2.Shape() == g.Shape(); try++ {
				g2 = gen.Shape(r, kind, g.Layout, gen.SmallInt, gen.ShapeOpts{CoordFn: c09CoordFn(r.Intn(5)), MaxPts: 8})
			}
			if kind == model.MultiPolygon && len(g.C3) > 0 && r.Chance(3, 4) {
				// the same number of polygons, each of another size
				g2 = &model.G{Kind: kind, Layout: g.Layout}
				for range g.C3 {
					p := gen.Shape(r, model.Polygon, g.Layout, gen.SmallInt, gen.ShapeOpts{CoordFn: c09CoordFn(r.Intn(5)), MaxPts: 8})
					g2.C3 = append(g2.C3, p.C2)
				}
			}
			closeRings(r, g2)
			t2 := g2.BuildFlat()
			if m2, ok := t2.(measurer); ok {
				m2.Area()
				m2.Length()
			}
			swapped := true
			switch x := t.(type) {
			case *geom.LineString:
				x.Swap(t2.(*geom.LineString))
			case *geom.LinearRing:
				x.Swap(t2.(*geom.LinearRing))
			case *geom.Polygon:
				x.Swap(t2.(*geom.Polygon))
			case *geom.MultiLineString:
				x.Swap(t2.(*geom.MultiLineString))
			case *geom.MultiPolygon:
				x.Swap(t2.(*geom.MultiPolygon))
			case *geom.MultiPoint:
				x.Swap(t2.(*geom.MultiPoint))
			case *geom.Point:
				x.Swap(t2.(*geom.Point))
			default:
				swapped = false
			}
			if swapped {
				*g = *g2
				what = "Swap with another geometry"
			}
		case 5:
			// a SetCoords that is refused (one coordinate of the wrong length), then the
			// geometry is built up again by pushing parts; what it holds after the
			// refusal is read back from it, not assumed
			bad := gen.Shape(r, kind, g.Layout, gen.SmallInt, gen.ShapeOpts{CoordFn: c09CoordFn(r.Intn(5)), MaxPts: 8})
			if !c09InjectBad(bad) {
				return
			}
			if err := setCoordsOn(t, bad); err == nil {
				return // nothing to inject into (no coordinate): the call was an ordinary SetCoords
			}
			now := model.FromGeom(t)
			if now == nil || model.WF(t) != nil {
				return
			}
			k := r.Range(1, 5)
			for i := 0; i < k; i++ {
				switch x := t.(type) {
				case *geom.MultiPolygon:
					p := gen.Shape(r, model.Polygon, g.Layout, gen.SmallInt, gen.ShapeOpts{CoordFn: c09CoordFn(r.Intn(5)), MaxPts: 8})
					closeRings(r, p)
					if x.Push(p.BuildFlat().(*geom.Polygon)) == nil {
						now.C3 = append(now.C3, p.C2)
					}
				case *geom.MultiLineString:
					p := gen.Shape(r, model.LineString, g.Layout, gen.SmallInt, gen.ShapeOpts{CoordFn: c09CoordFn(r.Intn(5)), MaxPts: 8})
					if x.Push(p.BuildFlat().(*geom.LineString)) == nil {
						now.C2 = append(now.C2, p.C1)
					}
				case *geom.Polygon:
					p := gen.Shape(r, model.LinearRing, g.Layout, gen.SmallInt, gen.ShapeOpts{CoordFn: c09CoordFn(r.Intn(5)), MaxPts: 8})
					closeRings(r, p)
					if x.Push(p.BuildFlat().(*geom.LinearRing)) == nil {
						now.C2 = append(now.C2, p.C1)
					}
				}
			}
			*g = *now
			what = "a refused SetCoords, then parts pushed"
		case 0:
			type reverser interface{ Reverse() }
			if rv, ok := t.(reverser); ok {
				rv.Reverse()
				switch kind {
				case model.LineString, model.LinearRing:
					g.C1 = reverse1m(g.C1)
				case model.Polygon, model.MultiLineString:
					for i := range g.C2 {
						g.C2[i] = reverse1m(g.C2[i])
					}
				case model.MultiPolygon:
					for i := range g.C3 {
						for j := range g.C3[i] {
							g.C3[i][j] = reverse1m(g.C3[i][j])
						}
					}
				}
				what = "Reverse"
			}
		case 1:
			// mirror in the y axis: exact, flips the sign of every area
			geom.TransformInPlace(t, func(co geom.Coord) { co[0] = -co[0] })
			mapAll(func(co []float64) { co[0] = -co[0] })
			what = "TransformInPlace(x -> -x)"
		case 2:
			// swap x and y of every coordinate by writing through FlatCoords()
			fc, st := t.FlatCoords(), t.Stride()
			for i := 0; i+1 < len(fc); i += st {
				fc[i], fc[i+1] = fc[i+1], fc[i]
			}
			mapAll(func(co []float64) { co[0], co[1] = co[1], co[0] })
			what = "write through FlatCoords() (x <-> y)"
		default:
			// replace the coordinates by another shape of the same type
			g2 := gen.Shape(r, kind, g.Layout, gen.SmallInt, gen.ShapeOpts{CoordFn: c09CoordFn(r.Intn(5)), MaxPts: 8})
			closeRings(r, g2)
			if err := setCoordsOn(t, g2); err == nil {
				*g = *g2
				what = "SetCoords(another shape)"
			}
		}
	}) {
		return
	}
	if what == "" {
		return
	}
	c.SetInput(map[string]any{"geometry_after": g.String(), "measured_before_and_after": what})
	c.Count("remeasured_after_" + strings.Fields(what)[0])
	c09Judge(c, t, m, g, kind, " after "+what)
}

// c09Huge: a part of more than 65,536 coordinates (on and next to multiples of
// that size) in first, middle or last position among small parts
func c09Huge(c *fw.Ctx, idx int) {
	r := c.R
	layout := []geom.Layout{geom.XY, geom.XYZ, geom.XYZM}[r.Intn(3)]
	stride := layout.Stride()
	nbig := hugeFloats(r, 1)/4 + 3
	if r.Bool() {
		nbig = 65536 + r.Range(-2, 3)
	}
	mk := func(n int) [][]float64 {
		seq := make([][]float64, 0, n+1)
		x, y := float64(r.Range(-50, 50)), float64(r.Range(-50, 50))
		for i := 0; i < n; i++ {
			x += float64(r.Range(-3, 3))
			y += float64(r.Range(-3, 3))
			co := make([]float64, stride)
			co[0], co[1] = x, y
			for k := 2; k < stride; k++ {
				co[k] = float64(r.Range(-9, 9))
			}
			seq = append(seq, co)
		}
		return append(seq, append([]float64{}, seq[0]...)) // closed
	}
	small := func() [][]float64 { return mk(r.Range(3, 6)) }
	pos := r.Intn(3)
	parts := [][][]float64{small(), small(), small()}
	parts[pos] = mk(nbig)
	var g *model.G
	kind := []model.Kind{model.MultiLineString, model.Polygon, model.MultiPolygon}[r.Intn(3)]
	switch kind {
	case model.MultiLineString, model.Polygon:
		g = &model.G{Kind: kind, Layout: layout, C2: parts}
	default:
		g = &model.G{Kind: kind, Layout: layout, C3: [][][][]float64{{parts[0]}, {}, {parts[1], parts[2]}}}
		if r.Bool() {
			g.C3 = [][][][]float64{{parts[0], parts[1]}, {parts[2]}}
		}
	}
	c.SetInput(map[string]any{"type": kind.String(), "layout": layout.String(), "coordinates_of_the_large_part": nbig + 1, "position_of_the_large_part": pos, "note": "random walk with steps of -3..3, closed; regenerated from the seed and case index"})
	t := g.BuildFlat()
	m, ok := t.(measurer)
	if !ok {
		return
	}
	c.Count("huge_part_" + kind.String())
	c.Distinct(fmt.Sprintf("huge/%s/%d/%d", kind, pos, nbig))
	c09Judge(c, t, m, g, kind, "")
}

// c09Giants: single parts of 2^20 .. 2^23 (+-3) vertices whose measures are
// known in closed form and are sums of small integers, so that every partial sum
// is exact in float64 whatever the order of summation: a unit-step line (length
// = vertices-1) and a k x 1 rectangle with a vertex at every unit step of its long
// sides (area k, perimeter 2k+2).  A measure that splits a long part, sums it in
// blocks or in parallel has its seams here.
func c09Giants(c *fw.Ctx, idx int) {
	exps := []int{20, 21, 22, 23}
	n := 1<<exps[idx%4] + []int{-3, -1, 0, 1, 2, 3, 5, 6}[(idx/4)%8]
	layout := []geom.Layout{geom.XY, geom.XYZ}[(idx/32)%2]
	stride := layout.Stride()
	// line of n vertices going east in unit steps
	flat := make([]float64, n*stride)
	for i := 0; i < n; i++ {
		flat[i*stride] = float64(i)
		flat[i*stride+1] = 7
		if stride > 2 {
			flat[i*stride+2] = float64(i % 13)
		}
	}
	c.SetInput(map[string]any{"shape": "unit-step line going east", "vertices": n, "layout": layout.String()})
	var length, mlength float64
	if c.Guard("panic", func() {
		length = geom.NewLineStringFlat(layout, flat).Length()
		mlength = geom.NewMultiLineStringFlat(layout, flat, []int{len(flat)}).Length()
	}) {
		return
	}
	c.Eval(2)
	c.Count("giant_lines")
	c.Distinct(fmt.Sprintf("giant-line/%d/%s", n, layout))
	if length != float64(n-1) || mlength != float64(n-1) {
		c.Fail("length-error", "unit-step line of %d vertices: LineString.Length() = %v, MultiLineString.Length() = %v, exact length %d (every partial sum is an integer below 2^53)", n, length, mlength, n-1)
		return
	}
	// rectangle ring of n vertices (n odd: 2k+3), counter-clockwise
	if n%2 == 0 {
		n++
	}
	k := (n - 3) / 2
	ring := make([]float64, n*stride)
	put := func(i int, x, y float64) { ring[i*stride], ring[i*stride+1] = x, y }
	for i := 0; i <= k; i++ {
		put(i, float64(i), 0)
		put(k+1+i, float64(k-i), 1)
	}
	put(n-1, 0, 0)
	c.SetInput(map[string]any{"shape": "k x 1 rectangle, counter-clockwise, a vertex at every unit step of the long sides", "vertices": n, "k": k, "layout": layout.String()})
	var area, parea, plen float64
	if c.Guard("panic", func() {
		area = geom.NewLinearRingFlat(layout, ring).Area()
		pg := geom.NewPolygonFlat(layout, ring, []int{len(ring)})
		parea, plen = pg.Area(), pg.Length()
	}) {
		return
	}
	c.Eval(3)
	c.Count("giant_rings")
	if math.Abs(area) != float64(k) || math.Abs(parea) != float64(k) || plen != float64(2*k+2) {
		c.Fail("area-error", "%d x 1 rectangle of %d vertices: LinearRing.Area() = %v, Polygon.Area() = %v (exact %d), Polygon.Length() = %v (exact %d)", k, n, area, parea, k, plen, 2*k+2)
	}
}

// c09EveryLength: the closed-form line and rectangle of c09Giants at every
// number of vertices idx = 0, 1, 2, ... (strides 2 and 3; as a part of its own, as
// the middle part of three, and as the only ring of the second polygon of a
// MultiPolygon): a measure computed in blocks of whatever size has a length at
// which its seam shows.
// c09ManyParts: 2^18 +- a few unit squares as the polygons of a MultiPolygon, as
// the rings of one Polygon and (open) as the lines of a MultiLineString: area =
// number of squares (all counter-clockwise), length = 4 x that number.
func c09ManyParts(c *fw.Ctx, idx int) {
	k := 1<<uint(16+idx%4) + []int{-1, 0, 1, 2, 3, 7}[(idx/4)%6]
	layout := []geom.Layout{geom.XY, geom.XYZ}[(idx/24)%2]
	stride := layout.Stride()
	flat := make([]float64, 0, k*5*stride)
	ends := make([]int, 0, k)
	endss := make([][]int, 0, k)
	for i := 0; i < k; i++ {
		x, y := float64(i%1000)*2, float64(i/1000)*2
		for _, v := range [][2]float64{{x, y}, {x + 1, y}, {x + 1, y + 1}, {x, y + 1}, {x, y}} {
			flat = append(flat, v[0], v[1])
			for d := 2; d < stride; d++ {
				flat = append(flat, 5)
			}
		}
		ends = append(ends, len(flat))
		endss = append(endss, []int{len(flat)})
	}
	c.SetInput(map[string]any{"shape": "unit squares on a grid, counter-clockwise", "squares": k, "layout": layout.String()})
	var a1, l1, a2, l2, l3 float64
	if c.Guard("panic", func() {
		mp := geom.NewMultiPolygonFlat(layout, flat, endss)
		a1, l1 = mp.Area(), mp.Length()
		pg := geom.NewPolygonFlat(layout, flat, ends)
		a2, l2 = pg.Area(), pg.Length()
		l3 = geom.NewMultiLineStringFlat(layout, flat, ends).Length()
	}) {
		return
	}
	c.Eval(5)
	c.Count("many_part_geometries")
	c.Distinct(fmt.Sprintf("many-parts/%d/%s", k, layout))
	if math.Abs(a1) != float64(k) || l1 != float64(4*k) || math.Abs(a2) != float64(k) || l2 != float64(4*k) || l3 != float64(4*k) {
		c.Fail("area-error", "%d unit squares: MultiPolygon Area %v Length %v, Polygon (as rings) Area %v Length %v, MultiLineString Length %v; exact area %d, length %d", k, a1, l1, a2, l2, l3, k, 4*k)
	}
}

func c09EveryLength(c *fw.Ctx, idx int) {
	n := idx
	for _, layout := range []geom.Layout{geom.XY, geom.XYZ} {
		stride := layout.Stride()
		flat := make([]float64, n*stride)
		for i := 0; i < n; i++ {
			flat[i*stride], flat[i*stride+1] = float64(i), 7
		}
		wantLen := float64(n - 1)
		if n < 2 {
			wantLen = 0
		}
		c.SetInput(map[string]any{"shape": "unit-step line going east", "vertices": n, "layout": layout.String()})
		var l1, l2, l3 float64
		if c.Guard("panic", func() {
			l1 = geom.NewLineStringFlat(layout, flat).Length()
			l2 = geom.NewMultiLineStringFlat(layout, flat, []int{len(flat)}).Length()
			// the same line between two short ones
			pre := make([]float64, 2*stride)
			pre[stride] = 3 // (0,0)-(3,0)
			all := append(append(append([]float64{}, pre...), flat...), pre...)
			l3 = geom.NewMultiLineStringFlat(layout, all, []int{2 * stride, 2*stride + len(flat), 4*stride + len(flat)}).Length()
		}) {
			return
		}
		c.Eval(3)
		if l1 != wantLen || l2 != wantLen || l3 != wantLen+6 {
			c.Fail("length-error", "unit-step line of %d vertices: LineString.Length() = %v, as the only part of a MultiLineString %v, between two lines of length 3 %v; exact %v and %v", n, l1, l2, l3, wantLen, wantLen+6)
			return
		}
		if n < 4 {
			continue
		}
		// rectangle of m = 2k+3 vertices, m the largest such number <= n
		k := (n - 3) / 2
		m := 2*k + 3
		ring := make([]float64, m*stride)
		put := func(i int, x, y float64) { ring[i*stride], ring[i*stride+1] = x, y }
		for i := 0; i <= k; i++ {
			put(i, float64(i), 0)
			put(k+1+i, float64(k-i), 1)
		}
		put(m-1, 0, 0)
		sq := make([]float64, 5*stride) // unit square far away, area 1, perimeter 4
		for i, v := range [][2]float64{{-9, -9}, {-8, -9}, {-8, -8}, {-9, -8}, {-9, -9}} {
			sq[i*stride], sq[i*stride+1] = v[0], v[1]
		}
		c.SetInput(map[string]any{"shape": "k x 1 rectangle with a vertex at every unit step", "vertices": m, "k": k, "layout": layout.String()})
		var a1, a2, a3, p3 float64
		if c.Guard("panic", func() {
			a1 = geom.NewLinearRingFlat(layout, ring).Area()
			a2 = geom.NewPolygonFlat(layout, ring, []int{len(ring)}).Area()
			all := append(append([]float64{}, sq...), ring...)
			mp := geom.NewMultiPolygonFlat(layout, all, [][]int{{len(sq)}, {len(all)}})
			a3, p3 = mp.Area(), mp.Length()
		}) {
			return
		}
		c.Eval(4)
		if math.Abs(a1) != float64(k) || math.Abs(a2) != float64(k) || math.Abs(a3) != float64(k+1) || p3 != float64(2*k+2+4) {
			c.Fail("area-error", "%d x 1 rectangle of %d vertices: LinearRing.Area() = %v, Polygon.Area() = %v (exact %d), MultiPolygon with a unit square before it: Area() = %v (exact %d), Length() = %v (exact %d)", k, m, a1, a2, k, a3, k+1, p3, 2*k+6)
			return
		}
	}
	c.Count("lengths_measured")
	if idx%1000 == 0 {
		c.Distinct(fmt.Sprintf("every-length/%d", idx))
	}
}

func cloneGeom(t geom.T) geom.T {
	switch x := t.(type) {
	case *geom.Point:
		return x.Clone()
	case *geom.LineString:
		return x.Clone()
	case *geom.LinearRing:
		return x.Clone()
	case *geom.Polygon:
		return x.Clone()
	case *geom.MultiPoint:
		return x.Clone()
	case *geom.MultiLineString:
		return x.Clone()
	case *geom.MultiPolygon:
		return x.Clone()
	}
	return nil
}

// c09RefusedCalls measures geometries that are not well formed (an end offset
// beyond the coordinates, ends that decrease, a flat array cut short): as the
// code stands Area and Length panic on them part-way; the caller recovers.
// Nothing is judged here - the measurement judged next must not see what such
// a call left behind.
func c09RefusedCalls(c *fw.Ctx, layout geom.Layout) {
	st := layout.Stride()
	if st < 2 {
		return
	}
	sq := make([]float64, 0, 5*st)
	for _, p := range [][2]float64{{0, 0}, {3, 0}, {3, 2}, {0, 2}, {0, 0}} {
		co := make([]float64, st)
		co[0], co[1] = p[0], p[1]
		sq = append(sq, co...)
	}
	try := func(f func()) {
		defer func() {
			if recover() != nil {
				c.Count("refused_measurements_that_panicked")
			}
		}()
		f()
	}
	two := append(append([]float64{}, sq...), sq...)
	for _, g := range []interface {
		Area() float64
		Length() float64
	}{
		geom.NewPolygonFlat(layout, two, []int{len(sq), len(sq) - st, len(two)}),
		geom.NewMultiPolygonFlat(layout, two, [][]int{{len(sq)}, {len(two) + 2*st}}),
		geom.NewMultiPolygonFlat(layout, two[:len(two)-1], [][]int{{len(sq)}, {len(two)}}),
		geom.NewLineStringFlat(layout, two[:len(two)-1]),
		// last: the ones that fail after a first ring or line has been measured
		geom.NewMultiLineStringFlat(layout, two, []int{len(sq), len(two) + st}),
		geom.NewPolygonFlat(layout, two, []int{len(sq), len(two) + 4*st}),
	} {
		try(func() { g.Area() })
		try(func() { g.Length() })
	}
	c.Count("refused_measurements_before_a_judged_one")
}

// c09InjectBad gives the first coordinate of g one ordinate too many.
func c09InjectBad(g *model.G) bool {
	grow := func(co []float64) []float64 { return append(append([]float64{}, co...), 1) }
	switch g.Kind {
	case model.LineString, model.LinearRing, model.MultiPoint:
		for i := range g.C1 {
			if len(g.C1[i]) > 0 {
				g.C1[i] = grow(g.C1[i])
				return true
			}
		}
	case model.Polygon, model.MultiLineString:
		for i := range g.C2 {
			for j := range g.C2[i] {
				g.C2[i][j] = grow(g.C2[i][j])
				return true
			}
		}
	case model.MultiPolygon:
		// not in the first polygon when there are several: the refusal then comes
		// after part of the input has been taken in
		for i := len(g.C3) - 1; i >= 0; i-- {
			for j := range g.C3[i] {
				for k := range g.C3[i][j] {
					g.C3[i][j][k] = grow(g.C3[i][j][k])
					return true
				}
			}
		}
	}
	return false
}

// c09Judge compares Area and Length of t with the exact measures of its model g.
func c09Judge(c *fw.Ctx, t geom.T, m measurer, g *model.G, kind model.Kind, phase string) bool {
	var area, length float64
	if c.Guard("panic", func() { area = m.Area(); length = m.Length() }) {
		return false
	}
	c.Eval(2)

	// exact reference
	acc := newAcc()
	allClosed := true
	var seqs [][][]float64
	switch kind {
	case model.LineString, model.LinearRing:
		seqs = [][][]float64{g.C1}
	case model.Polygon, model.MultiLineString:
		seqs = g.C2
		acc.nadd++
	case model.MultiPolygon:
		for _, p := range g.C3 {
			seqs = append(seqs, p...)
			acc.nadd += 2
		}
	}
	for _, s := range seqs {
		acc.addSeq(s)
		if !c09Closed(s) {
			allClosed = false
		}
	}
	u2 := math.Ldexp(1, -52)
	n := float64(acc.nadd + 8)

	// Length
	wantLen := acc.length
	switch kind {
	case model.Point, model.MultiPoint:
		if length != 0 {
			c.Fail("length-nonzero", "Length() of a %s = %v, want 0", kind, length)
		}
	default:
		tol := n * u2 * exact.BF64(wantLen)
		d := exact.AbsDiff(length, wantLen)
		if !exact.AbsDiffLE(length, wantLen, tol) {
			c.Fail("length-error", "Length()"+phase+" = %v, exact length %v: error %g exceeds the forward bound %g (n=%d)", length, exact.BF64(wantLen), d, tol, acc.nadd)
		} else if tol > 0 {
			c.Max("length_error_over_bound", d/tol)
		}
		c.Count("length_compared")
	}

	// Area
	switch kind {
	case model.Point, model.MultiPoint, model.LineString, model.MultiLineString:
		if area != 0 || math.Signbit(area) {
			c.Fail("area-nonzero", "Area() of a %s = %v, want 0", kind, area)
		}
		c.Count("area_zero_checked")
	default:
		if allClosed {
			wantArea := exact.Quo(acc.area2, exact.Int(2))
			absSum := exact.F64(exact.Quo(acc.absArea2, exact.Int(2)))
			tol := n * u2 * absSum
			tolR := exact.R(tol)
			if math.IsInf(tol, 0) {
				return true
			}
			if !exact.RatAbsDiffLE(area, wantArea, tolR) {
				c.Fail("area-error", "Area()"+phase+" = %v, exact shoelace area %v: error exceeds the forward bound %g (n=%d, sum|terms|=%g)", area, exact.F64(wantArea), tol, acc.nadd, absSum)
			} else if tol > 0 {
				d := exact.F64(exact.Abs(exact.Sub(exact.R(area), wantArea)))
				c.Max("area_error_over_bound", d/tol)
			}
			c.Count("area_compared")
			if wantArea.Sign() > 0 {
				c.Count("area_positive_ccw")
			} else if wantArea.Sign() < 0 {
				c.Count("area_negative_cw")
			}
		} else {
			c.Count("unclosed_no_panic_only")
		}
	}

	// additivity over the part accessors
	var sumA, sumL, sumAbsA float64
	parts := 0
	c.Guard("panic", func() {
		switch x := t.(type) {
		case *geom.Polygon:
			for i := 0; i < x.NumLinearRings(); i++ {
				lr := x.LinearRing(i)
				sumA += lr.Area()
				sumAbsA += math.Abs(lr.Area())
				sumL += lr.Length()
				parts++
			}
		case *geom.MultiLineString:
			for i := 0; i < x.NumLineStrings(); i++ {
				ls := x.LineString(i)
				sumA += ls.Area()
				sumL += ls.Length()
				parts++
			}
		case *geom.MultiPolygon:
			for i := 0; i < x.NumPolygons(); i++ {
				p := x.Polygon(i)
				sumA += p.Area()
				sumAbsA += math.Abs(p.Area())
				sumL += p.Length()
				parts++
			}
		case *geom.MultiPoint:
			for i := 0; i < x.NumPoints(); i++ {
				p := x.Point(i)
				sumA += p.Area()
				sumL += p.Length()
				parts++
			}
		default:
			parts = -1
		}
	})
	if parts >= 0 {
		c.Eval(1)
		c.Count("additivity_checked")
		absSum := exact.F64(exact.Quo(acc.absArea2, exact.Int(2)))
		tolA := 3 * (n + float64(parts)) * u2 * absSum
		if !(math.Abs(area-sumA) <= tolA) && !(math.IsInf(tolA, 0)) {
			c.Fail("not-additive", "Area() = %v but the areas of the %d parts sum to %v (bound %g)", area, parts, sumA, tolA)
		}
		tolL := 3 * (n + float64(parts)) * u2 * exact.BF64(wantLen)
		if !(math.Abs(length-sumL) <= tolL) {
			c.Fail("not-additive", "Length() = %v but the lengths of the %d parts sum to %v (bound %g)", length, parts, sumL, tolL)
		}
	}
	return true
}

func init() {
	fw.Register(&fw.Monitor{
		ID:    "C09",
		Title: "Length and Area are the exact measures up to rounding, additive, total",
		Rule: "generated LinearRing/Polygon/MultiPolygon/LineString/MultiLineString/Point/MultiPoint in XY..Layout(7) with empty rings/lines/polygons at any position; X,Y zero, grid integers or magnitude 2^-200..2^200, extra ordinates arbitrary incl. NaN/Inf; " +
			"Area compared with the exact rational shoelace area (rings closed), Length with a 400-bit sum of square roots, tolerance (n+8)*2^-52*sum|terms| computed by the oracle; additivity over part accessors; zero area of points and lines. " +
			"distinct_nontrivial = distinct shape signatures with at least one coordinate",
		Assume: []string{"math/big is exact; 400-bit square roots have negligible error against the tolerance", "|X|,|Y| are 0 or within [2^-200,2^200] so no intermediate overflows or underflows"},
		Classes: []fw.Class{
			{Name: "measures", Quick: 150000, Thorough: 5000000, Run: c09Run},
			{Name: "huge-parts", Quick: 16, Thorough: 400, Chunk: 1, Run: c09Huge},
			{Name: "giants", Quick: 32, Thorough: 64, Chunk: 1, Run: c09Giants},
			{Name: "many-parts", Quick: 24, Thorough: 48, Chunk: 1, Run: c09ManyParts},
			{Name: "every-length", Quick: 10001, Thorough: 40001, Chunk: 50, Run: c09EveryLength, Exhaustive: "closed-form line and rectangle at every number of vertices from 0 to the class count"},
		},
		Require: []string{"area_compared", "length_compared", "additivity_checked", "multipolygon_with_empty_polygon", "empty_component_before_nonempty", "area_positive_ccw", "area_negative_cw", "area_zero_checked"},
	})
}
