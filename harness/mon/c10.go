package mon

import (
	"fmt"
	"math"
	"math/big"

	geom "github.com/twpayne/go-geom"
	"github.com/twpayne/go-geom/bigxy"
	"github.com/twpayne/go-geom/xy"
	"github.com/twpayne/go-geom/xy/orientation"

	"verifharness/exact"
	"verifharness/fw"
	"verifharness/gen"
)

// C10 - the orientation predicate returns the exact sign.

// c10Bufs are argument buffers that live as long as the worker process.
var c10Bufs [3][2]float64

var c10perms = [6][3]int{{0, 1, 2}, {1, 2, 0}, {2, 0, 1}, {1, 0, 2}, {0, 2, 1}, {2, 1, 0}}

// c10Check evaluates both entry points on all six argument orders of one triple.
func c10Check(c *fw.Ctx, pts [3][2]float64, class string) {
	if c.R.Chance(1, 64) {
		xyRefusedCalls(c)
	}
	c.SetInput(map[string]any{"class": class, "o": fw.Fs(pts[0][:]), "e": fw.Fs(pts[1][:]), "p": fw.Fs(pts[2][:])})
	want := exact.OrientF(pts[0][0], pts[0][1], pts[1][0], pts[1][1], pts[2][0], pts[2][1])
	// hardness: is the floating-point filter unable to decide?
	a := (pts[1][0] - pts[0][0]) * (pts[2][1] - pts[0][1])
	b := (pts[1][1] - pts[0][1]) * (pts[2][0] - pts[0][0])
	hard := math.Abs(a-b) <= math.Ldexp(math.Abs(a)+math.Abs(b), -40)
	if hard {
		c.Count("hard_triples")
		c.Distinct(fmt.Sprintf("%x/%x/%x/%x/%x/%x", math.Float64bits(pts[0][0]), math.Float64bits(pts[0][1]), math.Float64bits(pts[1][0]), math.Float64bits(pts[1][1]), math.Float64bits(pts[2][0]), math.Float64bits(pts[2][1])))
	}
	switch want {
	case 0:
		c.Count("exact_collinear")
	case 1:
		c.Count("exact_ccw")
	default:
		c.Count("exact_cw")
	}
	reuse := c.R.Bool()
	if reuse {
		c.Count("calls_through_reused_argument_buffers")
	}
	for pi, pm := range c10perms {
		w := want
		if pi >= 3 {
			w = -want
		}
		o, e, p := geom.Coord(pts[pm[0]][:]), geom.Coord(pts[pm[1]][:]), geom.Coord(pts[pm[2]][:])
		if pi == 0 || pi == 3 {
			// (pts is this function's copy) some zero ordinates become -0
			for i := range pts {
				if negZeros(c.R, pts[i][:], 2) {
					c.Count("ordinates_written_as_negative_zero")
				}
			}
		}
		if reuse {
			// the caller keeps three coordinate buffers and overwrites them from
			// call to call: an implementation that remembers a slice it was given
			// (to recognise "the same" argument later) sees new contents in it
			copy(c10Bufs[0][:], o)
			copy(c10Bufs[1][:], e)
			copy(c10Bufs[2][:], p)
			o, e, p = geom.Coord(c10Bufs[0][:2]), geom.Coord(c10Bufs[1][:2]), geom.Coord(c10Bufs[2][:2])
		}
		if pi%3 == 1 && c.R.Chance(1, 3) {
			// another question about the same segment first: where the line through it
			// meets a line through the query point
			func() {
				defer func() { _ = recover() }()
				q := geom.Coord{p[0] + 1, p[1] - 3}
				_ = bigxy.Intersection(o, e, p, q)
			}()
			c.Count("bigxy_intersection_on_the_same_segment_first")
		}
		var g1, g2 orientation.Type
		if c.Guard("panic", func() {
			g1 = bigxy.OrientationIndex(o, e, p)
			g2 = xy.OrientationIndex(o, e, p)
		}) {
			return
		}
		c.Eval(2)
		if int(g1) != w {
			c.Fail("wrong-sign", "bigxy.OrientationIndex(%s, %s, %s) = %d, exact sign of the cross product is %d (argument order %v of the base triple)", fw.Fs(o), fw.Fs(e), fw.Fs(p), int(g1), w, pm)
			return
		}
		if int(g2) != w {
			c.Fail("wrong-sign", "xy.OrientationIndex(%s, %s, %s) = %d, exact sign is %d", fw.Fs(o), fw.Fs(e), fw.Fs(p), int(g2), w)
			return
		}
	}
	// extra ordinates beyond X,Y must not matter
	if c.R.Chance(1, 4) {
		o := geom.Coord{pts[0][0], pts[0][1], math.NaN(), 7}
		e := geom.Coord{pts[1][0], pts[1][1], math.Inf(1)}
		p := geom.Coord{pts[2][0], pts[2][1], -3, math.NaN(), 5}
		var g1 orientation.Type
		if c.Guard("panic", func() { g1 = bigxy.OrientationIndex(o, e, p) }) {
			return
		}
		c.Eval(1)
		c.Count("extra_ordinates")
		if int(g1) != want {
			c.Fail("extra-ordinates", "with extra ordinates bigxy.OrientationIndex = %d, exact sign %d", int(g1), want)
		}
	}
}

// (i) every triple of a 7x7 integer grid
func c10Grid(c *fw.Ctx, idx int) {
	var pts [3][2]float64
	n := idx
	for i := 0; i < 3; i++ {
		pts[i][0] = float64(n % 7)
		n /= 7
		pts[i][1] = float64(n % 7)
		n /= 7
	}
	c10Check(c, pts, "grid7")
	if idx%1000 == 0 && c.WantSample() {
		c.Sample(c.Input())
	}
}

func c10Mag(r *fw.Rand, exp10lo, exp10hi int) float64 {
	// a value with random mantissa and decimal magnitude in the band
	e := r.Range(exp10lo, exp10hi)
	v := (1 + 9*r.Float01()) * math.Pow(10, float64(e))
	if r.Bool() {
		v = -v
	}
	return v
}

// (ii) nearly collinear triples: p on the segment o-e (rounded) and its 49 ulp neighbours
func c10Near(c *fw.Ctx, idx int) {
	r := c.R
	var o, e [2]float64
	diag := false
	dec := -1
	switch r.Intn(10) {
	case 7, 8, 9:
		// short decimals (coordinates as people write them: metres with centimetres,
		// degrees with five places): collinear in decimal, which binary cannot say
		// exactly, so the differences round and the determinant is all rounding error
		dec = r.Range(1, 6)
		sc := math.Pow(10, float64(dec))
		mag := math.Pow(10, float64(r.Range(0, 6)))
		d := func() float64 { return math.Round((r.Float01()*2-1)*mag*sc) / sc }
		o = [2]float64{d(), d()}
		e = [2]float64{d(), d()}
		c.Count("short_decimal_segments")
	case 6:
		// the segment runs along a diagonal or an axis to within a few units in the
		// last place: e = o + (n, n+j) ulps (or (n, j), (j, n)) with n up to 2^54 and
		// j in -2..2, so that against a third point a few ulps from an end point the
		// determinant is a very small integer in units of ulp^2, although the
		// segment is long and may cross zero
		v := gen.Float(r, gen.Moderate)
		if r.Bool() {
			v = []float64{-1.5, 1.5, -1, 3, -0.75, 1e6 + 0.5, -12345.678}[r.Intn(7)]
		}
		u := math.Abs(gen.NextAfterN(v, 1) - v)
		n := float64(r.Uint64() % (1 << uint(r.Range(40, 54))))
		if r.Bool() {
			n = -n
		}
		j := float64(r.Range(-2, 2))
		o = [2]float64{v, v}
		if r.Chance(1, 3) {
			o[1] = gen.NextAfterN(v, r.Range(-5, 5))
		}
		switch r.Intn(4) {
		case 0:
			e = [2]float64{o[0] + n*u, o[1] + j*u}
		case 1:
			e = [2]float64{o[0] + j*u, o[1] + n*u}
		case 2:
			e = [2]float64{o[0] + n*u, o[1] - (n+j)*u}
		default:
			e = [2]float64{o[0] + n*u, o[1] + (n+j)*u}
		}
		diag = true
		c.Count("segments_within_ulps_of_a_diagonal_or_axis")
	case 0: // small integers
		o = [2]float64{float64(r.Range(-50, 50)), float64(r.Range(-50, 50))}
		e = [2]float64{float64(r.Range(-50, 50)), float64(r.Range(-50, 50))}
	case 1: // moderate floats
		o = [2]float64{gen.Float(r, gen.Moderate), gen.Float(r, gen.Moderate)}
		e = [2]float64{gen.Float(r, gen.Moderate), gen.Float(r, gen.Moderate)}
	case 2: // lon/lat
		o = [2]float64{gen.Float(r, gen.LonLat), gen.Float(r, gen.LonLat) / 2}
		e = [2]float64{gen.Float(r, gen.LonLat), gen.Float(r, gen.LonLat) / 2}
	case 3: // equal magnitude band anywhere in 1e-100..1e100
		b := r.Range(-100, 99)
		o = [2]float64{c10Mag(r, b, b), c10Mag(r, b, b)}
		e = [2]float64{c10Mag(r, b, b), c10Mag(r, b, b)}
	case 4: // mixed magnitudes (kept within 30 decades so products stay in range)
		b := r.Range(-85, 70)
		o = [2]float64{c10Mag(r, b, b+15), c10Mag(r, b, b+15)}
		e = [2]float64{c10Mag(r, b, b+15), c10Mag(r, b, b+15)}
	default: // large offset, small extent
		off := math.Ldexp(1, r.Range(20, 45))
		o = [2]float64{off + float64(r.Range(-1000, 1000)), off + float64(r.Range(-1000, 1000))}
		e = [2]float64{off + float64(r.Range(-1000, 1000)), off + float64(r.Range(-1000, 1000))}
	}
	t := r.Float01()*3 - 1
	if r.Chance(1, 4) {
		t = float64(r.Range(-4, 8)) / 4
	}
	if diag {
		t = float64(r.Intn(2))
	}
	px := o[0] + t*(e[0]-o[0])
	py := o[1] + t*(e[1]-o[1])
	if dec >= 0 {
		// a point of the decimal lattice on (or a last digit off) the decimal line:
		// o + k/m (e - o) with small k, m, written with a few more digits
		k, m := float64(r.Range(-20, 40)), float64([]int{1, 2, 4, 5, 8, 10, 20, 25}[r.Intn(8)])
		sc := math.Pow(10, float64(dec+r.Intn(3)))
		px = math.Round((o[0]+k/m*(e[0]-o[0]))*sc) / sc
		py = math.Round((o[1]+k/m*(e[1]-o[1]))*sc) / sc
	}
	for _, v := range []float64{o[0], o[1], e[0], e[1], px, py} {
		if v != 0 && (math.Abs(v) < 1e-100 || math.Abs(v) > 1e100) || math.IsInf(v, 0) || math.IsNaN(v) {
			c.Count("skipped_out_of_band")
			return
		}
	}
	c.Count("near_collinear_bases")
	for dx := -3; dx <= 3; dx++ {
		for dy := -3; dy <= 3; dy++ {
			p := [2]float64{gen.NextAfterN(px, dx), gen.NextAfterN(py, dy)}
			if p[0] != 0 && math.Abs(p[0]) < 1e-100 || p[1] != 0 && math.Abs(p[1]) < 1e-100 {
				continue
			}
			c10Check(c, [3][2]float64{o, e, p}, "near-collinear")
		}
	}
	// the base point again, and right after it the point with one mantissa bit of x
	// and one of y flipped (bits 0..12): two questions that differ in two bits
	for k := 0; k < 12; k++ {
		a, b := uint(r.Intn(13)), uint(r.Intn(13))
		p := [2]float64{math.Float64frombits(math.Float64bits(px) ^ 1<<a), math.Float64frombits(math.Float64bits(py) ^ 1<<b)}
		if p[0] != 0 && math.Abs(p[0]) < 1e-100 || p[1] != 0 && math.Abs(p[1]) < 1e-100 || math.IsNaN(p[0]) || math.IsNaN(p[1]) {
			continue
		}
		c10Check(c, [3][2]float64{o, e, {px, py}}, "near-collinear")
		c10Check(c, [3][2]float64{o, e, p}, "near-collinear-bit-flips")
		c.Count("bit_flip_neighbours_asked_right_after_the_base_point")
	}
	if c.WantSample() {
		c.Sample(map[string]any{"o": fw.Fs(o[:]), "e": fw.Fs(e[:]), "p_base": fw.Fs([]float64{px, py}), "neighbours": "x,y each moved by -3..3 ulps"})
	}
	// one query point within ulps of the centre of a box, asked against one
	// diagonal of the box and right after it against the other one (and against
	// the reversed diagonals): four segments with the same bounding box
	{
		x0, y0 := float64(r.Range(-1000, 1000)), float64(r.Range(-1000, 1000))
		w, h := float64(2*r.Range(1, 500)), float64(2*r.Range(1, 500))
		if r.Bool() {
			sc := math.Ldexp(1, r.Range(-30, 30))
			x0, y0, w, h = x0*sc, y0*sc, w*sc, h*sc
		}
		cx, cy := x0+w/2, y0+h/2
		for k := r.Intn(4); k > 0; k-- {
			cx = math.Nextafter(cx, math.Inf(1-2*r.Intn(2)))
		}
		for k := r.Intn(3); k > 0; k-- {
			cy = math.Nextafter(cy, math.Inf(1-2*r.Intn(2)))
		}
		segs := [][2][2]float64{{{x0, y0}, {x0 + w, y0 + h}}, {{x0, y0 + h}, {x0 + w, y0}}, {{x0 + w, y0 + h}, {x0, y0}}, {{x0 + w, y0}, {x0, y0 + h}}}
		pm := r.Perm(4)
		pc := geom.Coord{cx, cy}
		got := make([]orientation.Type, 4)
		c.SetInput(map[string]any{"class": "diagonals of one box asked one after the other", "box": fw.Fs([]float64{x0, y0, x0 + w, y0 + h}), "p": fw.Fs(pc), "order": fmt.Sprint(pm)})
		if c.Guard("panic", func() {
			for i, k := range pm {
				got[i] = bigxy.OrientationIndex(geom.Coord(segs[k][0][:]), geom.Coord(segs[k][1][:]), pc)
			}
		}) {
			return
		}
		c.Eval(4)
		c.Count("diagonals_of_one_box_asked_one_after_the_other")
		for i, k := range pm {
			if want := exact.OrientF(segs[k][0][0], segs[k][0][1], segs[k][1][0], segs[k][1][1], cx, cy); int(got[i]) != want {
				c.Fail("wrong-sign", "bigxy.OrientationIndex(%s, %s, %s) = %d, exact sign %d (call %d of four on the diagonals of one box, order %v)", fw.Fs(segs[k][0][:]), fw.Fs(segs[k][1][:]), fw.Fs(pc), int(got[i]), want, i+1, pm)
				return
			}
		}
	}
}

// (ii') wide-span triples: two points of huge magnitude that are exactly
// collinear with the origin (one is an exact power-of-two or small-integer
// multiple of the other) and a third point tens to hundreds of decades smaller
// (or zero), so that the sign is decided by ordinates 2^100..2^660 below the
// leading ones: any evaluation that carries fewer bits than the full span of the
// exponents sees an exactly collinear triple
func c10Wide(c *fw.Ctx, idx int) {
	r := c.R
	var e, p, o [2]float64
	hi := r.Range(5, 99)
	switch r.Intn(3) {
	case 0: // random mantissas, p = 2^j * e
		e = [2]float64{c10Mag(r, hi, hi), c10Mag(r, hi-r.Intn(3), hi)}
		j := r.Range(-3, 3)
		if j == 0 {
			j = 1
		}
		p = [2]float64{math.Ldexp(e[0], j), math.Ldexp(e[1], j)}
	case 1: // small integer direction scaled by a power of two, p = q * e with q a small integer
		sc := math.Ldexp(1, int(float64(hi)*3.3219))
		m, n := float64(r.Range(-9, 9)), float64(r.Range(-9, 9))
		if m == 0 && n == 0 {
			m = 1
		}
		q := float64([]int{2, 3, -1, -2, 5, 7}[r.Intn(6)])
		e = [2]float64{m * sc, n * sc}
		p = [2]float64{m * q * sc, n * q * sc}
	default: // axis-parallel pair
		v := c10Mag(r, hi, hi)
		w := c10Mag(r, hi, hi)
		if r.Bool() {
			e, p = [2]float64{v, 0}, [2]float64{w, 0}
		} else {
			e, p = [2]float64{0, v}, [2]float64{0, w}
		}
	}
	if r.Chance(1, 4) {
		// one huge point on the line through the origin with a small integer
		// direction, two small points on a parallel line next to the origin: the
		// determinant is the small integer -(o x p) whatever the size of the huge
		// point (2^60 .. 2^330, mantissas of up to 30 bits, or a power of ten)
		dx, dy := float64(r.Range(-9, 9)), float64(r.Range(-9, 9))
		if dx == 0 && dy == 0 {
			dx = 1
		}
		X := math.Ldexp(float64(r.Range(1, 1<<uint(r.Range(1, 30)))), r.Range(60, 300))
		if r.Chance(1, 4) {
			X = math.Pow(10, float64(r.Range(20, 99)))
		}
		e = [2]float64{X * dx, X * dy}
		o = [2]float64{float64(r.Range(-12, 12)), float64(r.Range(-12, 12))}
		m := float64(r.Range(-5, 5))
		if m == 0 {
			m = 1
		}
		p = [2]float64{o[0] + m*dx, o[1] + m*dy}
		for _, v := range []float64{e[0], e[1]} {
			if math.IsInf(v, 0) || math.Abs(v) > 1e100 {
				c.Count("skipped_out_of_band")
				return
			}
		}
		c.Count("wide_span_triples")
		c.Count("wide_span_one_huge_point_two_small_ones")
		c10Check(c, [3][2]float64{o, e, p}, "wide-span")
		return
	}
	lo := r.Range(-100, hi-1)
	if lo > 60 {
		lo = r.Range(-100, 0)
	}
	switch r.Intn(5) {
	case 0:
		o = [2]float64{c10Mag(r, lo, lo), 0}
	case 1:
		o = [2]float64{0, c10Mag(r, lo, lo)}
	default:
		o = [2]float64{c10Mag(r, lo, lo), c10Mag(r, lo-r.Intn(4), lo)}
	}
	for _, v := range []float64{o[0], o[1], e[0], e[1], p[0], p[1]} {
		if v != 0 && (math.Abs(v) < 1e-100 || math.Abs(v) > 1e100) || math.IsInf(v, 0) || math.IsNaN(v) {
			c.Count("skipped_out_of_band")
			return
		}
	}
	c.Count("wide_span_triples")
	if hi-lo > 77 {
		c.Count("wide_span_over_256_bits")
	}
	if hi-lo > 150 {
		c.Count("wide_span_over_500_bits")
	}
	c10Check(c, [3][2]float64{o, e, p}, "wide-span")
	if c.WantSample() {
		c.Sample(c.Input())
	}
}

func egcd(a, b int64) (g, x, y int64) {
	if b == 0 {
		return a, 1, 0
	}
	g, x1, y1 := egcd(b, a%b)
	return g, y1, x1 - (a/b)*y1
}

// (iii) integer triples whose cross-product terms need more than 53 bits and
// whose exact determinant is in {-2..2}
// c10FullWidth: integer triples whose ordinates fill the 53 bits of a double and
// have both signs, so that the edge vectors need 54 bits and their products 108,
// with an exact determinant of -2..2 (built with the extended Euclidean algorithm
// in big integers), optionally scaled by a power of two.
func c10FullWidth(c *fw.Ctx) {
	r := c.R
	bi := func(v int64) *big.Int { return big.NewInt(v) }
	rnd := func() *big.Int {
		v := new(big.Int).Lsh(bi(1), 53)
		v.Add(v, bi(int64(r.Uint64()%(1<<53))))
		if r.Bool() {
			v.Neg(v)
		}
		return v
	}
	var a, b, x, y, g *big.Int
	for {
		a, b = rnd(), rnd()
		x, y = new(big.Int), new(big.Int)
		g = new(big.Int).GCD(x, y, new(big.Int).Abs(a), new(big.Int).Abs(b))
		if g.Cmp(bi(1)) == 0 {
			break
		}
	}
	// |a| x + |b| y = 1  =>  a (sa x) + b (sb y) = 1
	if a.Sign() < 0 {
		x.Neg(x)
	}
	if b.Sign() < 0 {
		y.Neg(y)
	}
	// (u, v) with a v - b u = 1: v = x, u = -y; reduce u into [0, |a|) along (a, b)
	u, v := new(big.Int).Neg(y), new(big.Int).Set(x)
	k := new(big.Int)
	k.Div(u, a) // Euclidean division: u - k a in [0, |a|)
	u.Sub(u, new(big.Int).Mul(k, a))
	v.Sub(v, new(big.Int).Mul(k, b))
	d := int64(r.Range(-2, 2))
	ox := new(big.Int).Neg(new(big.Int).Rsh(new(big.Int).Abs(a), 1))
	if a.Sign() < 0 {
		ox.Neg(ox)
	}
	oy := new(big.Int).Neg(new(big.Int).Rsh(new(big.Int).Abs(b), 1))
	if b.Sign() < 0 {
		oy.Neg(oy)
	}
	ex, ey := new(big.Int).Add(ox, a), new(big.Int).Add(oy, b)
	px := new(big.Int).Add(ox, new(big.Int).Mul(bi(d), u))
	py := new(big.Int).Add(oy, new(big.Int).Mul(bi(d), v))
	lim := new(big.Int).Lsh(bi(1), 53)
	var f [6]float64
	for i, w := range []*big.Int{ox, oy, ex, ey, px, py} {
		if new(big.Int).Abs(w).Cmp(lim) >= 0 {
			c.Count("skipped_out_of_band")
			return
		}
		f[i], _ = new(big.Float).SetInt(w).Float64()
	}
	sc := 1.0
	if r.Bool() {
		sc = math.Ldexp(1, r.Range(-140, 100))
	}
	pts := [3][2]float64{{f[0] * sc, f[1] * sc}, {f[2] * sc, f[3] * sc}, {f[4] * sc, f[5] * sc}}
	c.Count(fmt.Sprintf("full_width_det_%d", d))
	c10Check(c, pts, "bigint-full-width")
}

func c10Big(c *fw.Ctx, idx int) {
	r := c.R
	if r.Chance(1, 3) {
		c10FullWidth(c)
		return
	}
	var a, b int64
	for {
		a = int64(1)<<uint(r.Range(27, 40)) + int64(r.Range(-1000, 1000))
		b = int64(1)<<uint(r.Range(27, 40)) + int64(r.Range(-1000, 1000))
		if r.Bool() {
			a = -a
		}
		if r.Bool() {
			b = -b
		}
		if g, _, _ := egcd(abs64(a), abs64(b)); g == 1 {
			break
		}
	}
	// find (u0,v0) with a*v0 - b*u0 = 1
	_, x, y := egcd(a, b) // a*x + b*y = +-1 (g may be negative for negative inputs)
	if a*x+b*y < 0 {
		x, y = -x, -y
	}
	v0, u0 := x, -y
	d := int64(r.Range(-2, 2))
	t := int64(r.Range(1, 1000))
	if r.Bool() {
		t = -t
	}
	pxr := t*a + d*u0
	pyr := t*b + d*v0
	ox := int64(r.Range(-1<<20, 1<<20))
	oy := int64(r.Range(-1<<20, 1<<20))
	if r.Chance(1, 3) {
		ox, oy = 0, 0
	}
	vals := []int64{ox, oy, ox + a, oy + b, ox + pxr, oy + pyr}
	for _, v := range vals {
		if abs64(v) >= 1<<52 {
			c.Count("skipped_out_of_band")
			return
		}
	}
	pts := [3][2]float64{{float64(ox), float64(oy)}, {float64(ox + a), float64(oy + b)}, {float64(ox + pxr), float64(oy + pyr)}}
	c.Count(fmt.Sprintf("bigint_det_%d", d))
	c10Check(c, pts, "bigint")
	if c.WantSample() {
		c.Sample(c.Input())
	}
}

// (iii') lattice triples within +-2^26: every ordinate is an integer below 2^26
// in magnitude, but the points sit in opposite corners of that square, so the
// edge vectors reach 2^27 and their products 2^54 - beyond what a double holds
// exactly - while the exact determinant is -2..2
func c10Lattice26(c *fw.Ctx, idx int) {
	r := c.R
	// the square's half-width: 2^26 half of the time, otherwise any power of two from 2^10
	kk := 26
	if r.Bool() {
		kk = r.Range(10, 26)
	}
	R := int64(1)<<uint(kk) - 1
	ord := func() int64 {
		switch r.Intn(4) {
		case 0:
			return R - int64(r.Intn(16))
		case 1:
			return -R + int64(r.Intn(16))
		case 2:
			return int64(r.Range(int(-R), int(R)))
		}
		s := int64(1)
		if r.Bool() {
			s = -1
		}
		return s * (int64(1)<<uint(r.Range(kk-6, kk-1)) + int64(r.Range(-3, 3)))
	}
	for try := 0; try < 40; try++ {
		ox, oy, ex, ey := ord(), ord(), ord(), ord()
		dx, dy := ex-ox, ey-oy
		if dx == 0 || dy == 0 {
			continue
		}
		if g, _, _ := egcd(abs64(dx), abs64(dy)); g != 1 {
			continue
		}
		_, x, y := egcd(dx, dy)
		if dx*x+dy*y < 0 {
			x, y = -x, -y
		}
		v0, u0 := x, -y // dx*v0 - dy*u0 = 1
		// reduce (u0,v0) modulo (dx,dy): the determinant does not change
		q := int64(math.Round(float64(u0) / float64(dx)))
		u0, v0 = u0-q*dx, v0-q*dy
		k := int64(r.Range(-2, 2))
		for _, t := range []int64{0, 1, -1} {
			for _, base := range [][2]int64{{ox, oy}, {ex, ey}} {
				px, py := base[0]+k*u0+t*dx, base[1]+k*v0+t*dy
				if abs64(px) > R || abs64(py) > R || (k == 0 && t == 0) {
					continue
				}
				c.Count("lattice26_triples")
				if abs64(dx) >= 1<<26 || abs64(dy) >= 1<<26 {
					c.Count("lattice26_edge_vector_over_2^26")
				}
				c.Count(fmt.Sprintf("lattice_square_half_width_2^%d", kk))
				c10Check(c, [3][2]float64{{float64(ox), float64(oy)}, {float64(ex), float64(ey)}, {float64(px), float64(py)}}, "lattice26")
				if c.WantSample() {
					c.Sample(c.Input())
				}
				return
			}
		}
	}
	c.Count("skipped_out_of_band")
}

func abs64(v int64) int64 {
	if v < 0 {
		return -v
	}
	return v
}

// (iv) random well-separated triples
// c10Float32: ordinates that are float32 values (data that went through a
// single-precision format), two points close together and the third about 2^k
// segment lengths along their line, rounded to float32 again: the differences and
// products round in float64 although every input has 29 trailing zero bits.
func c10Float32(c *fw.Ctx, idx int) {
	r := c.R
	f32 := func(v float64) float64 { return float64(float32(v)) }
	scale := math.Ldexp(1, r.Range(-20, 20))
	a := [2]float64{f32(scale * (1 + 99*r.Float01())), f32(scale * (1 + 99*r.Float01()))}
	b := [2]float64{f32(a[0] + scale*(1+99*r.Float01())), f32(a[1] + scale*(1+99*r.Float01()))}
	if r.Bool() {
		a[0], b[0] = -a[0], -b[0]
	}
	t := math.Ldexp(1+r.Float01(), r.Range(8, 48))
	if r.Chance(1, 3) {
		t = -t
	}
	p := [2]float64{f32(a[0] + t*(b[0]-a[0])), f32(a[1] + t*(b[1]-a[1]))}
	if r.Chance(1, 3) {
		// one float32 ulp off
		p[r.Intn(2)] = float64(math.Nextafter32(float32(p[0]), float32(math.Inf(1-2*r.Intn(2)))))
	}
	for _, v := range []float64{p[0], p[1]} {
		if math.IsInf(v, 0) || v != v {
			return
		}
	}
	c.Count("float32_valued_triples")
	c10Check(c, [3][2]float64{a, b, p}, "float32-spread")
}

func c10Random(c *fw.Ctx, idx int) {
	r := c.R
	cl := []gen.FloatClass{gen.SmallInt, gen.Grid, gen.Moderate, gen.LonLat}[r.Intn(4)]
	var pts [3][2]float64
	for i := range pts {
		pts[i] = [2]float64{gen.Float(r, cl), gen.Float(r, cl)}
	}
	c10Check(c, pts, "random")
}

func init() {
	fw.Register(&fw.Monitor{
		ID:    "C10",
		Title: "orientation predicate returns the exact sign",
		Rule: "bigxy.OrientationIndex and xy.OrientationIndex are compared with the sign of the exact rational determinant for all six argument orders of each triple; classes: every triple of a 7x7 integer grid, " +
			"nearly collinear triples (p computed on the line o-e, then x and y each moved by -3..3 ulps, magnitudes 1e-100..1e100), integer triples with >53-bit product terms and exact determinant in -2..2, random triples. " +
			"distinct_nontrivial = number of distinct triples for which the floating-point filter cannot decide (|det| <= 2^-40 (|a|+|b|), measured with the oracle)",
		Assume: []string{"math/big rational arithmetic is exact", "ordinates are zero or within [1e-100,1e100] as the property states"},
		Classes: []fw.Class{
			{Name: "grid7", Quick: 117649, Thorough: 117649, Run: c10Grid, Exhaustive: "every ordered triple of points of a 7x7 integer grid, all 6 argument orders"},
			{Name: "near-collinear", Quick: 150000, Thorough: 2400000, Run: c10Near},
			{Name: "wide-span", Quick: 40000, Thorough: 8000000, Run: c10Wide},
			{Name: "lattice26", Quick: 40000, Thorough: 8000000, Run: c10Lattice26},
			{Name: "bigint", Quick: 40000, Thorough: 8000000, Run: c10Big},
			{Name: "float32-spread", Quick: 60000, Thorough: 4000000, Run: c10Float32},
			{Name: "random", Quick: 50000, Thorough: 2000000, Run: c10Random},
		},
		Require: []string{"hard_triples", "exact_collinear", "exact_ccw", "exact_cw", "near_collinear_bases", "bigint_det_1", "bigint_det_-1", "bigint_det_0", "extra_ordinates"},
	})
}
