package mon

import (
	"fmt"
	"math"
	"math/big"
	"runtime/debug"

	"github.com/twpayne/go-geom/xy"

	"verifharness/exact"
	"verifharness/fw"
	"verifharness/gen"
)

// C20 - Douglas-Peucker simplification honours its threshold.

func c20Desc(pts [][2]float64, stride int, thr float64) map[string]any {
	flat := make([]float64, 0, 2*len(pts))
	for _, p := range pts {
		flat = append(flat, p[0], p[1])
	}
	return map[string]any{"xy": fw.Fs(flat), "stride": stride, "threshold": fw.F(thr), "n": len(pts)}
}

// c20Check judges one simplification.
func c20Check(c *fw.Ctx, pts [][2]float64, stride int, thr float64, class string) {
	if c.R.Chance(1, 64) {
		xyRefusedCalls(c)
	}
	r := c.R
	n := len(pts)
	flat := make([]float64, 0, n*stride)
	for _, p := range pts {
		flat = append(flat, p[0], p[1])
		for k := 2; k < stride; k++ {
			flat = append(flat, gen.Float(r, gen.AnyClass(r)))
		}
	}
	negZeros(r, flat, stride)
	if r.Chance(1, 16) {
		// an array that ends in a partial coordinate: the whole coordinates in it
		// are the sequence, and the property is judged on those
		for k := r.Range(1, stride-1); k > 0; k-- {
			flat = append(flat, []float64{100, -100, 1e6, gen.Float(r, gen.AnyClass(r))}[r.Intn(4)])
		}
		c.Count("array_ending_in_a_partial_coordinate")
		c20CheckFlat(c, pts, flat, stride, thr, class, "")
		return
	}
	if r.Chance(1, 5) && n >= 3 && thr > 0 {
		// a coarser simplification of the same array first, whose result the caller
		// reorders and overwrites (it is the caller's); then the judged, finer one
		if c.Guard("panic", func() {
			coarse := xy.SimplifyFlatCoords(flat, thr*8, stride)
			for i, j := 0, len(coarse)-1; i < j; i, j = i+1, j-1 {
				coarse[i], coarse[j] = coarse[j], coarse[i]
			}
			if r.Bool() {
				for i := range coarse[:cap(coarse)] {
					coarse[:cap(coarse)][i] = -77
				}
			}
		}) {
			return
		}
		c.Count("coarser_result_of_the_same_array_scribbled_on_first")
	}
	if !c20CheckFlat(c, pts, flat, stride, thr, class, "") || n < 2 || !r.Chance(1, 3) {
		return
	}
	// the caller edits its coordinate array in place - the same points in another
	// order: reversed, or rotated by one (same address, same length, same multiset
	// of ordinates, another line) - and simplifies again
	if c.Guard("panic", func() { xy.SimplifyFlatCoords(flat, thr, stride) }) {
		return
	}
	pts2 := make([][2]float64, n)
	how := "reversed in place"
	if r.Bool() {
		for i := range pts {
			pts2[n-1-i] = pts[i]
		}
		for i, j := 0, n-1; i < j; i, j = i+1, j-1 {
			for k := 0; k < stride; k++ {
				flat[i*stride+k], flat[j*stride+k] = flat[j*stride+k], flat[i*stride+k]
			}
		}
	} else {
		how = "rotated by one point in place"
		first := append([]float64{}, flat[:stride]...)
		copy(flat, flat[stride:])
		copy(flat[(n-1)*stride:], first)
		copy(pts2, pts[1:])
		pts2[n-1] = pts[0]
	}
	c.Count("same_array_edited_in_place_and_simplified_again")
	c20CheckFlat(c, pts2, flat, stride, thr, class, how)
}

func c20CheckFlat(c *fw.Ctx, pts [][2]float64, flat []float64, stride int, thr float64, class, history string) bool {
	n := len(pts)
	in := c20Desc(pts, stride, thr)
	if history != "" {
		in["history"] = "the coordinate array of the previous call, " + history
	}
	c.SetInput(in)
	flat2 := make([]float64, 0, n*2)
	maxAbs := 1.0
	for _, p := range pts {
		flat2 = append(flat2, p[0], p[1])
		maxAbs = math.Max(maxAbs, math.Max(math.Abs(p[0]), math.Abs(p[1])))
	}
	before := append([]float64{}, flat...)
	var idxs, idxs2 []int
	if c.Guard("panic", func() {
		idxs = xy.SimplifyFlatCoords(flat, thr, stride)
		idxs2 = xy.SimplifyFlatCoords(flat2, thr, 2)
	}) {
		return false
	}
	c.Eval(2)
	hi := idxs
	if !holdRecheckScribble(c, "c20-indexes", "SimplifyFlatCoords indexes", func() string { return fmt.Sprint(hi) }, func() {
		for i := range hi[:cap(hi)] {
			hi[:cap(hi)][i] = -77
		}
	}) {
		return false
	}
	c.Count("class_" + class)
	for i := range before {
		if math.Float64bits(before[i]) != math.Float64bits(flat[i]) {
			c.Fail("input-modified", "SimplifyFlatCoords modified flatCoords[%d]", i)
			return false
		}
	}
	// shape of the index list
	if n < 3 {
		if len(idxs) != n {
			c.Fail("bad-indexes", "%d points: got indexes %v, want all of them", n, idxs)
			return false
		}
	}
	if n >= 1 {
		if len(idxs) == 0 || idxs[0] != 0 || idxs[len(idxs)-1] != n-1 {
			c.Fail("bad-indexes", "indexes %v do not start with 0 and end with %d", idxs, n-1)
			return false
		}
	} else if len(idxs) != 0 {
		c.Fail("bad-indexes", "0 points but indexes %v", idxs)
		return false
	}
	for i := range idxs {
		if idxs[i] < 0 || idxs[i] >= n || (i > 0 && idxs[i] <= idxs[i-1]) {
			c.Fail("bad-indexes", "indexes not strictly increasing within 0..%d: %v", n-1, idxs)
			return false
		}
	}
	// extra ordinates must not matter
	if !intsEq(idxs, idxs2) {
		c.Fail("extra-ordinates", "stride %d result %v differs from the XY-only result %v", stride, idxs, idxs2)
		return false
	}
	// every omitted point within the threshold of the segment between its retained neighbours
	// slack: tau*(1+2^-50) + 2^-46*max(1,max|ordinate|) covers the double evaluation of the squared distance
	bound := exact.Add(exact.Mul(exact.R(thr), exact.Add(exact.Int(1), exact.Pow2(-50))), exact.Mul(exact.Pow2(-46), exact.R(maxAbs)))
	bound2 := exact.Mul(bound, bound)
	thr2 := exact.Mul(exact.R(thr), exact.R(thr))
	dropped := 0
	for k := 1; k < len(idxs); k++ {
		l, rr := idxs[k-1], idxs[k]
		if rr-l < 2 {
			continue
		}
		a, b := exact.Pt(pts[l][0], pts[l][1]), exact.Pt(pts[rr][0], pts[rr][1])
		for i := l + 1; i < rr; i++ {
			dropped++
			d2 := exact.PointSegDist2(exact.Pt(pts[i][0], pts[i][1]), a, b)
			if thr == 0 {
				if d2.Sign() != 0 {
					c.Fail("dropped-off-segment", "threshold 0: point %d %v was dropped but lies %g off the segment between retained points %d and %d", i, pts[i], math.Sqrt(exact.F64(d2)), l, rr)
					return false
				}
				c.Count("dropped_exactly_on_segment")
				continue
			}
			if d2.Cmp(bound2) > 0 {
				c.Fail("dropped-beyond-threshold", "point %d %v was dropped but lies %g from the segment between retained points %d %v and %d %v; threshold %g", i, pts[i], math.Sqrt(exact.F64(d2)), l, pts[l], rr, pts[rr], thr)
				return false
			}
			if d2.Cmp(thr2) == 0 {
				c.Count("distance_equals_threshold")
			}
		}
	}
	c.CountN("points_dropped", int64(dropped))
	c.CountN("points_kept", int64(len(idxs)))
	// idempotence
	if len(idxs) >= 1 {
		kept := make([]float64, 0, len(idxs)*stride)
		for _, i := range idxs {
			kept = append(kept, flat[i*stride:(i+1)*stride]...)
		}
		var again []int
		if c.Guard("panic", func() { again = xy.SimplifyFlatCoords(kept, thr, stride) }) {
			return false
		}
		c.Eval(1)
		if len(again) != len(idxs) {
			c.Fail("not-idempotent", "simplifying the simplified line (%d points) again with the same threshold keeps only %d: %v", len(idxs), len(again), again)
			return false
		}
	}
	c.Distinct(fmt.Sprintf("%s/%d/%d/%d", class, n, len(idxs), stride))
	return true
}

func intsEq(a, b []int) bool {
	if len(a) != len(b) {
		return false
	}
	for i := range a {
		if a[i] != b[i] {
			return false
		}
	}
	return true
}

func c20Random(c *fw.Ctx, idx int) {
	r := c.R
	g := []int{3, 16, 1000, 1 << 20}[r.Intn(4)]
	n := r.Range(0, 200)
	if r.Chance(1, 3) {
		n = r.Range(0, 12)
	}
	if r.Chance(1, 80) {
		// long sequences: hundreds of nested intervals (a zig-zag splits once per point)
		n = r.Range(250, 3000)
		if r.Bool() {
			n = []int{255, 256, 257, 258, 259, 300, 511, 512, 513, 514, 515, 1023, 1024, 1025, 1026, 1027, 2048, 2050}[r.Intn(18)]
		}
		c.Count("sequences_of_250_to_3000_points")
	}
	if r.Chance(1, 1000) {
		// tens of thousands of points (an interval of more than 8192 or 16384 points
		// is where a scan might be split up), mostly straight with the odd spike
		n = []int{8192, 8193, 8194, 8195, 10001, 16385, 16386, 16387, 20000, 32770, 65536, 65537, 65538, 65540, 65541, 131074}[r.Intn(16)] + r.Intn(4)
		c.Count("sequences_of_8192_to_131077_points")
	}
	stride := r.Range(2, 5)
	pts := make([][2]float64, 0, n)
	classes := []string{"random-walk", "closed-loop", "repeats", "collinear-runs", "zigzag", "spike-near-end", "uniform"}
	k := r.Intn(len(classes))
	if n >= 8192 {
		k = []int{5, 5, 3, 0}[r.Intn(4)] // a straight track with one spike, collinear runs, a walk
	}
	rp := func() [2]float64 { return [2]float64{float64(r.Intn(g + 1)), float64(r.Intn(g + 1))} }
	switch k {
	case 0:
		p := rp()
		for i := 0; i < n; i++ {
			st := g/8 + 1
			p = [2]float64{p[0] + float64(r.Range(-st, st)), p[1] + float64(r.Range(-st, st))}
			pts = append(pts, p)
		}
	case 1:
		for i := 0; i < n; i++ {
			pts = append(pts, rp())
		}
		if n >= 2 {
			pts[n-1] = pts[0]
		}
	case 2:
		for i := 0; i < n; i++ {
			if i > 0 && r.Chance(1, 2) {
				pts = append(pts, pts[i-1])
			} else {
				pts = append(pts, rp())
			}
		}
	case 3:
		p := rp()
		d := [2]float64{float64(r.Range(-2, 2)), float64(r.Range(-2, 2))}
		for i := 0; i < n; i++ {
			if r.Chance(1, 8) {
				d = [2]float64{float64(r.Range(-2, 2)), float64(r.Range(-2, 2))}
			}
			p = [2]float64{p[0] + d[0], p[1] + d[1]}
			pts = append(pts, p)
		}
	case 4:
		amp := float64(r.Range(1, g/4+1))
		for i := 0; i < n; i++ {
			y := 0.0
			if i%2 == 1 {
				y = amp
			}
			pts = append(pts, [2]float64{float64(i), y})
		}
	case 5:
		for i := 0; i < n; i++ {
			pts = append(pts, [2]float64{float64(i), 0})
		}
		if n >= 3 {
			pos := []int{1, n - 2, 2 % n, n / 2, n - 2, (n - 3 + n) % n, (n - 4 + n) % n}[r.Intn(7)]
			pts[pos][1] = float64(r.Range(1, g))
		}
	default:
		for i := 0; i < n; i++ {
			pts = append(pts, rp())
		}
	}
	// threshold
	var thr float64
	switch r.Intn(6) {
	case 0:
		thr = 0
	case 1:
		// an exact distance occurring in the input
		if n >= 3 {
			i := 1 + r.Intn(n-2)
			d2 := exact.PointSegDist2(exact.Pt(pts[i][0], pts[i][1]), exact.Pt(pts[0][0], pts[0][1]), exact.Pt(pts[n-1][0], pts[n-1][1]))
			thr = math.Sqrt(exact.F64(d2))
		}
	case 2:
		thr = float64(r.Range(1, g/2+1))
	case 3:
		thr = r.Float01() * float64(g) / 4
	case 4:
		thr = 1e300
	default:
		thr = float64(r.Range(0, 3)) / 2
	}
	if thr == 0 {
		c.Count("threshold_zero")
	}
	c20Check(c, pts, stride, thr, classes[k])
	if c.WantSample() && n <= 10 && n >= 3 {
		c.Sample(c.Input())
	}
}

// all sequences of 0..6 points on a 3x3 grid x thresholds {0, 0.5, 1, 1.5}
// (iii) bursts: thousands of calls in a row on a fixed set of lines - mostly short
// ones, now and then a long one - with the garbage collector off, so that any
// scratch memory the function recycles (a pool, a generation-stamped mask)
// really is the same memory from call to call.  Every call must return what the
// first call on that line returned (which the other classes judge).
func c20Burst(c *fw.Ctx, idx int) {
	r := c.R
	type line struct {
		flat   []float64
		stride int
		thr    float64
		first  string
	}
	var lines []line
	mk := func(n int) line {
		stride := r.Range(2, 4)
		flat := make([]float64, 0, n*stride)
		x, y := float64(r.Range(-20, 20)), float64(r.Range(-20, 20))
		for k := 0; k < n; k++ {
			x += float64(r.Range(0, 3))
			y += float64(r.Range(-3, 3))
			flat = append(flat, x, y)
			for j := 2; j < stride; j++ {
				flat = append(flat, float64(k))
			}
		}
		return line{flat: flat, stride: stride, thr: float64(r.Range(0, 6))}
	}
	for i := 0; i < 30; i++ {
		lines = append(lines, mk(r.Range(3, 12)))
	}
	for i := 0; i < 12; i++ {
		lines = append(lines, mk(r.Range(60, 200)))
	}
	c.SetInput(map[string]any{"burst": "42 lines (30 of 3..12 points, 12 of 60..200 points), 4000 calls in random order, one in 24 on a long line"})
	for i := range lines {
		l := &lines[i]
		if c.Guard("panic", func() { l.first = fmt.Sprint(xy.SimplifyFlatCoords(l.flat, l.thr, l.stride)) }) {
			return
		}
	}
	old := debug.SetGCPercent(-1)
	defer debug.SetGCPercent(old)
	if idx%8 == 5 {
		// a burst of 140,000 calls, nearly all of them on tiny lines; 150-point
		// zig-zags (every point is kept) are followed 65,534 .. 65,537 calls later
		// by straight 150-point lines (two points are kept): whatever a call leaves
		// in memory that later calls reuse has every counter width up to 16 bits to wrap in
		zig := func(straight bool) line {
			flat := make([]float64, 0, 300)
			for k := 0; k < 150; k++ {
				y := 0.0
				if !straight && k%2 == 1 {
					y = 10
				}
				flat = append(flat, float64(k), y)
			}
			return line{flat: flat, stride: 2, thr: 1}
		}
		sched := map[int]*line{}
		for m := 0; m < 20; m++ {
			base := 50 + 37*m
			z := zig(false)
			sched[base] = &z
			for _, d := range []int{65534, 65535, 65536, 65537, 2 * 65535, 2 * 65536} {
				st := zig(true)
				sched[base+d] = &st
			}
		}
		for _, l := range sched {
			if c.Guard("panic", func() { l.first = fmt.Sprint(xy.SimplifyFlatCoords(append([]float64{}, l.flat...), l.thr, l.stride)) }) {
				return
			}
		}
		c.SetInput(map[string]any{"burst": "140000 calls: lines of 3..12 points, 150-point zig-zags at calls 50+37m, straight 150-point lines 65534..65537 and 131070, 131072 calls after each"})
		for i := 0; i < 140000; i++ {
			l := &lines[r.Intn(30)]
			if sl, ok := sched[i]; ok {
				l = sl
			}
			var got string
			if c.Guard("panic", func() { got = fmt.Sprint(xy.SimplifyFlatCoords(l.flat, l.thr, l.stride)) }) {
				return
			}
			if got != l.first {
				c.Fail("history-dependent", "call %d of a burst of 140000: simplifying a line of %d points (threshold %g) gave %s, a call on its own gives %s", i, len(l.flat)/l.stride, l.thr, clipStr(got, 200), clipStr(l.first, 200))
				return
			}
		}
		c.Eval(140000)
		c.Count("bursts_of_140000_calls")
		return
	}
	for i := 0; i < 4000; i++ {
		k := r.Intn(30)
		if r.Chance(1, 24) {
			k = 30 + r.Intn(12)
		}
		l := &lines[k]
		var got string
		if c.Guard("panic", func() { got = fmt.Sprint(xy.SimplifyFlatCoords(l.flat, l.thr, l.stride)) }) {
			return
		}
		if got != l.first {
			c.Fail("history-dependent", "call %d of a burst: simplifying a line of %d points (threshold %g) gave %s, the first call on the same line gave %s", i, len(l.flat)/l.stride, l.thr, clipStr(got, 200), clipStr(l.first, 200))
			return
		}
	}
	c.Eval(4000)
	c.Count("bursts_of_4000_calls")
}

func c20Exhaustive(c *fw.Ctx, idx int) {
	n := 0
	base := 0
	sz := 1
	for idx >= base+sz {
		base += sz
		sz *= 9
		n++
	}
	k := idx - base
	pts := make([][2]float64, n)
	for i := range pts {
		pts[i] = [2]float64{float64(k % 3), float64(k / 3 % 3)}
		k /= 9
	}
	for _, thr := range []float64{0, 0.5, 1, 1.5} {
		c20Check(c, pts, 2+idx%3, thr, "exhaustive")
	}
}

var _ = big.NewRat

// c20EveryLength: sequences of exactly idx points, idx = 0, 1, 2, ..., whose
// simplification is known in closed form - a straight unit-step line (only the
// ends stay), idx copies of one point (only the ends stay), a zig-zag of
// amplitude 10 under threshold 1 (everything stays) and a closed zig-zag ring: an
// implementation that treats long inputs in blocks, or differently from a size on,
// is asked at every size.
func c20EveryLength(c *fw.Ctx, idx int) {
	c20Length(c, idx, true)
	if idx < 48 {
		// and 48 lengths far beyond the sweep: 10,000 .. 140,000 points (the shapes
		// that cost n^2 are left out there)
		c20Length(c, 10000+idx*2777+idx%7, false)
	}
	c.Count("sequence_lengths_simplified")
	if idx%1000 == 0 {
		c.Distinct(fmt.Sprintf("every-length/%d", idx))
	}
}

func c20Length(c *fw.Ctx, n int, quadratic bool) {
	for _, stride := range []int{2, 3} {
		mk := func(f func(i int) (float64, float64)) []float64 {
			flat := make([]float64, n*stride)
			for i := 0; i < n; i++ {
				flat[i*stride], flat[i*stride+1] = f(i)
				if stride == 3 {
					flat[i*stride+2] = float64(i%5) * 1000
				}
			}
			return flat
		}
		ends := []int{0, n - 1}
		if n < 2 {
			ends = make([]int, n)
		}
		all := make([]int, n)
		for i := range all {
			all[i] = i
		}
		shapes := []struct {
			name string
			flat []float64
			thr  float64
			want []int
		}{
			{"straight unit-step line", mk(func(i int) (float64, float64) { return float64(i), 2 }), 0.5, ends},
			{"straight vertical unit-step line", mk(func(i int) (float64, float64) { return 3, float64(i) }), 0.25, ends},
			{"one point repeated", mk(func(i int) (float64, float64) { return 4, -4 }), 1, ends},
			{"one point repeated and then another one repeated", mk(func(i int) (float64, float64) {
				if i < (n+1)/2 {
					return 4, -4
				}
				return 9, 9
			}), 1, ends},
			{"a line that stands still at its end", mk(func(i int) (float64, float64) {
				if i >= n-5 {
					return float64(n - 5), 2
				}
				return float64(i), 2
			}), 0.5, ends},
			{"zig-zag of amplitude 10 under an infinite threshold", mk(func(i int) (float64, float64) { return float64(i), float64(10 * (i % 2)) }), math.Inf(1), ends},
		}
		// (keeping every point costs the algorithm n^2/2 distance evaluations: all
		// lengths up to 2000, beyond that the lengths next to multiples of 64)
		zz := quadratic && (n <= 2000 || n <= 12000 && (n%64 <= 2 || n%64 == 63))
		if zz {
			shapes = append(shapes, struct {
				name string
				flat []float64
				thr  float64
				want []int
			}{"zig-zag of amplitude 10", mk(func(i int) (float64, float64) { return float64(i), float64(10 * (i % 2)) }), 1, all})
		}
		if n >= 4 && zz {
			// closed ring: zig-zag out along y = 0/10 and the start point again at the end
			fl := mk(func(i int) (float64, float64) { return float64(i), float64(10 * (i % 2)) })
			fl[(n-1)*stride], fl[(n-1)*stride+1] = fl[0], fl[1]
			shapes = append(shapes, struct {
				name string
				flat []float64
				thr  float64
				want []int
			}{"zig-zag that ends on its first point", fl, 1, all})
		}
		for _, sh := range shapes {
			c.SetInput(map[string]any{"shape": sh.name, "points": n, "stride": stride, "threshold": sh.thr})
			var got []int
			if c.Guard("panic", func() { got = xy.SimplifyFlatCoords(sh.flat, sh.thr, stride) }) {
				return
			}
			c.Eval(1)
			if !intsEq(got, sh.want) {
				show := got
				if len(show) > 12 {
					show = append(append([]int{}, show[:6]...), show[len(show)-6:]...)
				}
				c.Fail("bad-indexes", "%s of %d points, threshold %v: %d indexes returned (%v ...), the simplification keeps %d (%s)", sh.name, n, sh.thr, len(got), show, len(sh.want), map[bool]string{true: "every point", false: "the two ends only"}[len(sh.want) == n])
				return
			}
		}
	}
}

func init() {
	exhN := 1 + 9 + 81 + 729 + 6561 + 59049 + 531441
	fw.Register(&fw.Monitor{
		ID:     "C20",
		Title:  "Douglas-Peucker simplification honours its threshold",
		Rule:   "SimplifyFlatCoords on sequences of 0..200 integer-grid points (random walks, closed loops, repeated points, collinear runs, constant-amplitude zig-zags, spikes next to an end), stride 2..5 with arbitrary extra ordinates (NaN included), thresholds {0, an exact distance of the input, integers, random, huge}: indexes strictly increasing incl. first and last; each dropped point's exact rational distance to the segment between its nearest retained neighbours <= threshold*(1+2^-50)+2^-46*max|ordinate|; with threshold 0 dropped points lie exactly on that segment; a second pass drops nothing; result identical to the XY-only input. distinct_nontrivial = distinct (class, n, kept, stride)",
		Assume: []string{"math/big exact"},
		Classes: []fw.Class{
			{Name: "bursts", Quick: 64, Thorough: 2000, Chunk: 4, Run: c20Burst},
			{Name: "every-length", Quick: 9001, Thorough: 70001, Chunk: 50, Run: c20EveryLength, Exhaustive: "closed-form sequences of every number of points from 0 to the class count"},
			{Name: "random", Quick: 150000, Thorough: 3000000, Run: c20Random},
			{Name: "exhaustive-3x3", Quick: 1 + 9 + 81 + 729 + 6561, Thorough: exhN, Run: c20Exhaustive, Exhaustive: "every sequence of 0..4 (quick) / 0..6 (thorough) points on a 3x3 grid x thresholds {0, 0.5, 1, 1.5}"},
		},
		Require: []string{"points_dropped", "points_kept", "threshold_zero", "dropped_exactly_on_segment", "distance_equals_threshold", "class_zigzag", "class_closed-loop"},
	})
}
