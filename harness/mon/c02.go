package mon

import (
	"errors"
	"fmt"
	"strings"

	geom "github.com/twpayne/go-geom"

	"verifharness/fw"
	"verifharness/gen"
	"verifharness/model"
)

// C02 - multi-part geometries behave as lists of their parts under any Push history.

var c02Kinds = []model.Kind{model.Polygon, model.MultiPoint, model.MultiLineString, model.MultiPolygon, model.Collection}
var c02Layouts = []geom.Layout{geom.XY, geom.XYZ, geom.XYM, geom.XYZM, geom.Layout(5), geom.Layout(6)}

func partKind(k model.Kind) model.Kind {
	switch k {
	case model.Polygon:
		return model.LinearRing
	case model.MultiPoint:
		return model.Point
	case model.MultiLineString:
		return model.LineString
	case model.MultiPolygon:
		return model.Polygon
	}
	return model.Point
}

// tracked is a geometry under test together with its list model.
type tracked struct {
	kind model.Kind
	t    geom.T
	m    *model.G
}

func newTracked(kind model.Kind, layout geom.Layout, srid int) *tracked {
	tr := &tracked{kind: kind, m: &model.G{Kind: kind, Layout: layout, SRID: srid}}
	switch kind {
	case model.Polygon:
		tr.t = geom.NewPolygon(layout).SetSRID(srid)
	case model.MultiPoint:
		tr.t = geom.NewMultiPoint(layout).SetSRID(srid)
	case model.MultiLineString:
		tr.t = geom.NewMultiLineString(layout).SetSRID(srid)
	case model.MultiPolygon:
		tr.t = geom.NewMultiPolygon(layout).SetSRID(srid)
	case model.Collection:
		tr.t = geom.NewGeometryCollection().SetSRID(srid)
		tr.m.Layout = geom.NoLayout
	}
	return tr
}

// push applies Push(part) to the real geometry and returns its error.
func (tr *tracked) push(part geom.T) error {
	switch g := tr.t.(type) {
	case *geom.Polygon:
		return g.Push(part.(*geom.LinearRing))
	case *geom.MultiPoint:
		return g.Push(part.(*geom.Point))
	case *geom.MultiLineString:
		return g.Push(part.(*geom.LineString))
	case *geom.MultiPolygon:
		return g.Push(part.(*geom.Polygon))
	case *geom.GeometryCollection:
		return g.Push(part)
	}
	return errors.New("unknown tracked type")
}

// modelPush appends a part to the list model.
func (tr *tracked) modelPush(p *model.G) {
	switch tr.kind {
	case model.Polygon, model.MultiLineString:
		tr.m.C2 = append(tr.m.C2, p.C1)
	case model.MultiPoint:
		tr.m.C1 = append(tr.m.C1, p.C0)
	case model.MultiPolygon:
		tr.m.C3 = append(tr.m.C3, p.C2)
	case model.Collection:
		tr.m.Members = append(tr.m.Members, p)
	}
}

func (tr *tracked) numParts() int {
	switch tr.kind {
	case model.Polygon, model.MultiLineString:
		return len(tr.m.C2)
	case model.MultiPoint:
		return len(tr.m.C1)
	case model.MultiPolygon:
		return len(tr.m.C3)
	}
	return len(tr.m.Members)
}

func (tr *tracked) partModel(i int) *model.G {
	switch tr.kind {
	case model.Polygon:
		return &model.G{Kind: model.LinearRing, Layout: tr.m.Layout, C1: tr.m.C2[i]}
	case model.MultiLineString:
		return &model.G{Kind: model.LineString, Layout: tr.m.Layout, C1: tr.m.C2[i]}
	case model.MultiPoint:
		return &model.G{Kind: model.Point, Layout: tr.m.Layout, C0: tr.m.C1[i]}
	case model.MultiPolygon:
		return &model.G{Kind: model.Polygon, Layout: tr.m.Layout, C2: tr.m.C3[i]}
	}
	return tr.m.Members[i]
}

// partGeom returns the i-th part through the part accessor (a view into the
// geometry's own storage for the flat types).
func (tr *tracked) partGeom(i int) geom.T {
	switch g := tr.t.(type) {
	case *geom.Polygon:
		return g.LinearRing(i)
	case *geom.MultiPoint:
		return g.Point(i)
	case *geom.MultiLineString:
		return g.LineString(i)
	case *geom.MultiPolygon:
		return g.Polygon(i)
	case *geom.GeometryCollection:
		return g.Geom(i)
	}
	return nil
}

// sweep compares the whole observable state of the tracked geometry with the model.
func (tr *tracked) sweep(c *fw.Ctx, after string) bool {
	c.Eval(1)
	if !expectGeom(c, after, tr.t, tr.m, model.Opts{}) {
		return false
	}
	n := tr.numParts()
	ok := true
	c.Guard("panic", func() {
		var num int
		switch g := tr.t.(type) {
		case *geom.Polygon:
			num = g.NumLinearRings()
		case *geom.MultiPoint:
			num = g.NumPoints()
		case *geom.MultiLineString:
			num = g.NumLineStrings()
		case *geom.MultiPolygon:
			num = g.NumPolygons()
		case *geom.GeometryCollection:
			num = g.NumGeoms()
		}
		if num != n {
			c.Fail("wrong-part-count", "%s: reports %d parts, %d were pushed", after, num, n)
			ok = false
			return
		}
		for i := 0; i < n; i++ {
			var part geom.T
			switch g := tr.t.(type) {
			case *geom.Polygon:
				part = g.LinearRing(i)
			case *geom.MultiPoint:
				part = g.Point(i)
			case *geom.MultiLineString:
				part = g.LineString(i)
			case *geom.MultiPolygon:
				part = g.Polygon(i)
			case *geom.GeometryCollection:
				part = g.Geom(i)
			}
			pm := tr.partModel(i)
			if !expectGeom(c, fmt.Sprintf("%s: part accessor %d of %d", after, i, n), part, pm, model.Opts{IgnoreSRID: true}) {
				ok = false
				return
			}
			c.Count("part_accessor_checks")
			if pm.IsEmpty() {
				c.Count("empty_part_accessed")
			}
		}
		// Coords() is the concatenation of the parts' coordinates
		switch g := tr.t.(type) {
		case *geom.Polygon:
			if !coords2Eq(g.Coords(), tr.m.C2) {
				c.Fail("coords-not-concatenation", "%s: Polygon.Coords() is not the list of pushed rings", after)
				ok = false
			}
		case *geom.MultiPoint:
			if !coords1Eq(g.Coords(), tr.m.C1) {
				c.Fail("coords-not-concatenation", "%s: MultiPoint.Coords() is not the list of pushed points", after)
				ok = false
			}
		case *geom.MultiLineString:
			if !coords2Eq(g.Coords(), tr.m.C2) {
				c.Fail("coords-not-concatenation", "%s: MultiLineString.Coords() is not the list of pushed lines", after)
				ok = false
			}
		case *geom.MultiPolygon:
			if !coords3Eq(g.Coords(), tr.m.C3) {
				c.Fail("coords-not-concatenation", "%s: MultiPolygon.Coords() is not the list of pushed polygons", after)
				ok = false
			}
		}
	})
	return ok
}

func reverse1m(c1 [][]float64) [][]float64 {
	out := make([][]float64, len(c1))
	for i := range c1 {
		out[i] = c1[len(c1)-1-i]
	}
	return out
}

func (tr *tracked) reverse() bool {
	switch g := tr.t.(type) {
	case *geom.Polygon:
		g.Reverse()
	case *geom.MultiPoint:
		g.Reverse()
	case *geom.MultiLineString:
		g.Reverse()
	case *geom.MultiPolygon:
		g.Reverse()
	default:
		return false
	}
	switch tr.kind {
	case model.Polygon, model.MultiLineString:
		for i := range tr.m.C2 {
			tr.m.C2[i] = reverse1m(tr.m.C2[i])
		}
	case model.MultiPolygon:
		for i := range tr.m.C3 {
			nr := make([][][]float64, len(tr.m.C3[i]))
			for j := range tr.m.C3[i] {
				nr[j] = reverse1m(tr.m.C3[i][j])
			}
			tr.m.C3[i] = nr
		}
	}
	return true
}

func (tr *tracked) clone() {
	switch g := tr.t.(type) {
	case *geom.Polygon:
		tr.t = g.Clone()
	case *geom.MultiPoint:
		tr.t = g.Clone()
	case *geom.MultiLineString:
		tr.t = g.Clone()
	case *geom.MultiPolygon:
		tr.t = g.Clone()
	}
}

func swapTracked(a, b *tracked) {
	switch x := a.t.(type) {
	case *geom.Polygon:
		x.Swap(b.t.(*geom.Polygon))
	case *geom.MultiPoint:
		x.Swap(b.t.(*geom.MultiPoint))
	case *geom.MultiLineString:
		x.Swap(b.t.(*geom.MultiLineString))
	case *geom.MultiPolygon:
		x.Swap(b.t.(*geom.MultiPolygon))
	}
	a.m, b.m = b.m, a.m
}

func otherLayout(r *fw.Rand, l geom.Layout) geom.Layout {
	for {
		o := c02Layouts[r.Intn(len(c02Layouts))]
		if o != l {
			// prefer the same stride with a different meaning when possible
			if l == geom.XYZ && r.Chance(1, 2) {
				return geom.XYM
			}
			if l == geom.XYM && r.Chance(1, 2) {
				return geom.XYZ
			}
			return o
		}
	}
}

// c02EmptyPart is a part without coordinates (for a MultiPolygon also a polygon
// made only of empty rings).
func c02EmptyPart(r *fw.Rand, kind model.Kind, layout geom.Layout) *model.G {
	k := partKind(kind)
	if kind == model.Collection {
		k = gen.Kinds7[r.Intn(len(gen.Kinds7))]
	}
	g := &model.G{Kind: k, Layout: layout}
	if k == model.Polygon && r.Chance(1, 3) {
		g.C2 = make([][][]float64, r.Range(1, 3))
	}
	if k == model.MultiPolygon && r.Chance(1, 3) {
		g.C3 = make([][][][]float64, r.Range(1, 2))
	}
	if k == model.MultiLineString && r.Chance(1, 3) {
		g.C2 = make([][][]float64, r.Range(1, 2))
	}
	return g
}

func c02Part(r *fw.Rand, kind model.Kind, layout geom.Layout) *model.G {
	cl := gen.AnyClass(r)
	if kind == model.Collection {
		k := gen.Kinds7[r.Intn(len(gen.Kinds7))]
		return gen.Shape(r, k, layout, cl, gen.ShapeOpts{})
	}
	return gen.Shape(r, partKind(kind), layout, cl, gen.ShapeOpts{})
}

func c02History(c *fw.Ctx, idx int) {
	r := c.R
	kind := c02Kinds[r.Intn(len(c02Kinds))]
	layout := gen.PickLayout(r, c02Layouts)
	a := newTracked(kind, layout, r.Intn(3)*4326)
	b := newTracked(kind, layout, 1+r.Intn(5))
	if r.Chance(1, 3) && kind != model.Collection {
		b = newTracked(kind, otherLayout(r, layout), 7)
	}
	maxLen := 40
	if c.Thorough() {
		maxLen = 200
	}
	steps := r.Range(1, maxLen)
	if r.Chance(2, 3) {
		steps = r.Range(1, 12)
	}
	var hist []string
	c.SetInput(map[string]any{"kind": kind.String(), "layout": layout.String(), "history": "(see steps)"})
	setIn := func() {
		c.SetInput(map[string]any{"kind": kind.String(), "layout": layout.String(), "history": strings.Join(hist, "; ")})
	}
	pattern := ""
	// one history in four pushes mostly empty parts (runs of empty parts are where
	// offsets repeat and where slices stay empty while their capacity grows)
	emptyBias := r.Chance(1, 4)
	// part objects already pushed once are pushed again now and then (to the same
	// or to the other geometry): Push must have taken a copy, so whatever was
	// done to the receivers since - Reverse, further pushes - must not show in them
	type pooled struct {
		t geom.T
		m *model.G
	}
	var pool []pooled
	// after a Clone the next steps push non-empty parts to both geometries in turn
	forcePush := 0
	for s := 0; s < steps || forcePush > 0; s++ {
		cur := a
		if r.Chance(1, 5) {
			cur = b
		}
		op := r.Intn(100)
		if forcePush > 0 {
			op = 0
			cur = a
			if forcePush%2 == 0 {
				cur = b
			}
		}
		name := "A"
		if cur == b {
			name = "B"
		}
		switch {
		case op < 55: // Push a matching part
			pl := cur.m.Layout
			if kind == model.Collection {
				pl = c02Layouts[r.Intn(len(c02Layouts))]
				if cur.m.Fixed {
					pl = cur.m.Layout
				}
			}
			p := c02Part(r, kind, pl)
			if forcePush > 0 {
				for try := 0; try < 6 && p.IsEmpty(); try++ {
					p = c02Part(r, kind, pl)
				}
				forcePush--
			} else if emptyBias && r.Chance(3, 4) {
				p = c02EmptyPart(r, kind, pl)
			}
			pt := p.BuildFlat()
			reused := false
			othT := b
			if cur == b {
				othT = a
			}
			if forcePush == 0 && kind != model.Collection && othT.kind == cur.kind && othT.m.Layout == pl && othT.numParts() > 0 && r.Chance(1, 6) {
				// the part is a view into the other tracked geometry (its part
				// accessor's result, whose spare capacity is the rest of that
				// geometry): pushing it, and pushing more afterwards, must leave the
				// geometry it was taken from alone - both are swept after every step
				i := r.Intn(othT.numParts())
				var view geom.T
				if c.Guard("panic", func() { view = othT.partGeom(i) }) {
					return
				}
				p, pt = othT.partModel(i).Clone(), view
				hist = append(hist, fmt.Sprintf("%s.Push(part %d of the other geometry, as returned by its accessor)", name, i))
				setIn()
				c.Count("op_push_view_of_other_geometry")
				var err error
				if c.Guard("panic", func() { err = cur.push(pt) }) {
					return
				}
				if err != nil {
					c.Fail("push-error", "Push of a matching-layout part failed: %v", err)
					return
				}
				cur.modelPush(p)
				pattern += "v"
				break
			}
			if forcePush == 0 && kind != model.Collection && len(pool) > 0 && r.Chance(1, 8) {
				// a part object pushed earlier gets new coordinates: the geometries it
				// was pushed to hold copies and must not change
				pe := &pool[r.Intn(len(pool))]
				np := c02Part(r, kind, pe.m.Layout)
				if np.Kind == pe.m.Kind && !(np.Kind == model.Point && np.C0 == nil) {
					hist = append(hist, fmt.Sprintf("SetCoords(%s) on a part object pushed before", np))
					setIn()
					var err error
					if c.Guard("panic", func() { err = setCoordsOn(pe.t, np) }) {
						return
					}
					if err == nil {
						pe.m = np
						c.Count("op_setcoords_on_pushed_part_object")
					}
					break
				}
			}
			if forcePush == 0 && len(pool) > 0 && r.Chance(1, 4) {
				pe := pool[r.Intn(len(pool))]
				if pe.m.Layout == pl && pe.m.Kind == p.Kind {
					p, pt, reused = pe.m, pe.t, true
				}
			}
			if reused {
				hist = append(hist, fmt.Sprintf("%s.Push(the object pushed before: %s)", name, p))
				setIn()
				c.Count("op_push_same_object_again")
				if !expectGeom(c, "a part object pushed earlier, before it is pushed again ("+hist[len(hist)-1]+")", pt, p, model.Opts{}) {
					return
				}
			} else {
				hist = append(hist, fmt.Sprintf("%s.Push(%s)", name, p))
				setIn()
				if len(pool) < 6 {
					pool = append(pool, pooled{pt, p})
				}
			}
			var err error
			if c.Guard("panic", func() { err = cur.push(pt) }) {
				return
			}
			c.Count("op_push")
			if err != nil {
				c.Fail("push-error", "Push of a matching-layout part failed: %v", err)
				return
			}
			cur.modelPush(p)
			if p.IsEmpty() {
				pattern += "e"
				c.Count("pushed_empty_part")
			} else {
				pattern += "n"
			}
		case op < 70: // Push a wrong-layout part: error, receiver unchanged
			if kind == model.Collection && !cur.m.Fixed {
				continue
			}
			wl := otherLayout(r, cur.m.Layout)
			p := c02Part(r, kind, wl)
			hist = append(hist, fmt.Sprintf("%s.Push(wrong layout %s)", name, p))
			setIn()
			before := snap(cur.t)
			var err error
			if c.Guard("panic", func() {
				if gc, ok := cur.t.(*geom.GeometryCollection); ok && r.Bool() {
					// multi-argument Push where only one argument mismatches
					good := c02Part(r, kind, cur.m.Layout)
					err = gc.Push(good.BuildFlat(), p.BuildFlat())
				} else {
					err = cur.push(p.BuildFlat())
				}
			}) {
				return
			}
			c.Count("op_push_wrong_layout")
			var lm geom.ErrLayoutMismatch
			if err == nil {
				c.Fail("wrong-layout-accepted", "Push of a %s part into a %s geometry succeeded", wl, cur.m.Layout)
				return
			}
			if !errors.As(err, &lm) {
				c.Fail("wrong-error", "Push of a %s part into a %s geometry: error %T %q is not a layout-mismatch error", wl, cur.m.Layout, err, err)
				return
			}
			if lm.Got != wl || lm.Want != cur.m.Layout {
				c.Fail("wrong-error", "layout-mismatch error reports got=%s want=%s, expected got=%s want=%s", lm.Got, lm.Want, wl, cur.m.Layout)
				return
			}
			if d := before.diff(snap(cur.t)); d != "" {
				c.Fail("receiver-changed", "failed Push changed the receiver: %s", d)
				return
			}
		case op < 80:
			hist = append(hist, name+".Reverse()")
			setIn()
			did := false
			if c.Guard("panic", func() { did = cur.reverse() }) {
				return
			}
			if did {
				c.Count("op_reverse")
			}
		case op < 88:
			if kind == model.Collection {
				continue
			}
			hist = append(hist, "A.Swap(B)")
			setIn()
			if c.Guard("panic", func() { swapTracked(a, b) }) {
				return
			}
			c.Count("op_swap")
			if !b.sweep(c, "after "+hist[len(hist)-1]+" (B)") {
				return
			}
		case op < 94:
			if kind == model.Collection {
				// SetLayout on a collection: fixes the layout iff all members agree
				gc := cur.t.(*geom.GeometryCollection)
				l := c02Layouts[r.Intn(len(c02Layouts))]
				if len(cur.m.Members) > 0 && r.Bool() {
					l = cur.m.Members[0].CollectionLayout()
				}
				if r.Chance(1, 5) || (cur.m.Fixed && r.Chance(1, 3)) {
					// NoLayout lifts the restriction again: it always succeeds, and parts
					// of any layout can be pushed afterwards
					hist = append(hist, fmt.Sprintf("%s.SetLayout(NoLayout)", name))
					setIn()
					var err error
					if c.Guard("panic", func() { err = gc.SetLayout(geom.NoLayout) }) {
						return
					}
					c.Count("op_setlayout_nolayout")
					if err != nil {
						c.Fail("setlayout-error", "SetLayout(NoLayout) failed: %v", err)
						return
					}
					cur.m.Fixed = false
					cur.m.Layout = geom.NoLayout
					if !cur.sweep(c, "after "+hist[len(hist)-1]) {
						return
					}
					continue
				}
				hist = append(hist, fmt.Sprintf("%s.SetLayout(%s)", name, l))
				setIn()
				agree := true
				for _, m := range cur.m.Members {
					if m.CollectionLayout() != l {
						agree = false
					}
				}
				before := snap(cur.t)
				var err error
				if c.Guard("panic", func() { err = gc.SetLayout(l) }) {
					return
				}
				c.Count("op_setlayout")
				if agree {
					if err != nil {
						c.Fail("setlayout-error", "SetLayout(%s) failed although every member has that layout: %v", l, err)
						return
					}
					cur.m.Fixed = true
					cur.m.Layout = l
				} else {
					if err == nil {
						c.Fail("setlayout-accepted", "SetLayout(%s) succeeded although a member has another layout", l)
						return
					}
					if d := before.diff(snap(cur.t)); d != "" {
						c.Fail("receiver-changed", "failed SetLayout changed the receiver: %s", d)
						return
					}
				}
				continue
			}
			// the other tracked geometry becomes a clone of this one; both go on being
			// pushed to, so storage a shallow clone would share gets written from both sides
			other := b
			oname := "B"
			if cur == b {
				other, oname = a, "A"
			}
			hist = append(hist, oname+" = "+name+".Clone()")
			setIn()
			if c.Guard("panic", func() {
				cl := &tracked{kind: cur.kind, t: cur.t, m: cur.m.Clone()}
				cl.clone()
				*other = *cl
			}) {
				return
			}
			c.Count("op_clone")
			if cur.t.Empty() && len(pattern) > 0 {
				c.Count("clone_of_geometry_made_of_empty_parts")
			}
			forcePush = 4
		default:
			hist = append(hist, name+".sweep")
			if mp, ok := cur.t.(*geom.MultiPolygon); ok && cur.numParts() > 0 && r.Chance(1, 3) {
				// a polygon handed out by the accessor has end offsets of its own (they are
				// re-based): the caller overwrites them and pushes an empty ring onto the
				// part (no coordinate is appended) - the multi-polygon must not notice
				i := r.Intn(cur.numParts())
				hist[len(hist)-1] = fmt.Sprintf("overwrite the Ends() of %s.Polygon(%d) and push an empty ring onto it", name, i)
				setIn()
				if c.Guard("panic", func() {
					pg := mp.Polygon(i)
					e := pg.Ends()
					for j := range e {
						e[j] = -5150
					}
					pg = mp.Polygon(i)
					pg.Push(geom.NewLinearRing(pg.Layout()))
					pg.Push(geom.NewLinearRing(pg.Layout()))
				}) {
					return
				}
				c.Count("op_scribble_on_part_ends")
			} else if kind != model.Collection && r.Chance(1, 4) {
				// the geometry is given the coordinates it already has, through SetCoords:
				// the same list of parts, stored the way the setter lays it out rather
				// than the way a history of pushes does
				hist[len(hist)-1] = fmt.Sprintf("%s.SetCoords(%s.Coords())", name, name)
				setIn()
				var err error
				if c.Guard("panic", func() { err = setCoordsOn(cur.t, cur.m) }) {
					return
				}
				if err != nil {
					c.Fail("setcoords-error", "SetCoords of the geometry's own coordinates failed: %v", err)
					return
				}
				c.Count("op_setcoords_own_coords")
			}
			if gc, ok := cur.t.(*geom.GeometryCollection); ok && !cur.m.Fixed && r.Bool() {
				// several members pushed in one call from a slice the caller keeps and
				// reuses afterwards; or the other collection's own member slice
				oth := b
				if cur == b {
					oth = a
				}
				var list []geom.T
				var models []*model.G
				fromOther := r.Chance(1, 3) && oth.numParts() > 0 && !oth.m.Fixed
				if fromOther {
					list = oth.t.(*geom.GeometryCollection).Geoms()
					for _, m := range oth.m.Members {
						models = append(models, m.Clone())
					}
					hist[len(hist)-1] = fmt.Sprintf("%s.Push(the other collection's Geoms()...)", name)
				} else {
					n := r.Range(1, 4)
					list = make([]geom.T, 0, n+r.Intn(4))
					for j := 0; j < n; j++ {
						p := c02Part(r, kind, c02Layouts[r.Intn(len(c02Layouts))])
						list = append(list, p.BuildFlat())
						models = append(models, p)
					}
					hist[len(hist)-1] = fmt.Sprintf("%s.Push(list...) with %d members, the list is reused by the caller afterwards", name, n)
				}
				setIn()
				var err error
				if c.Guard("panic", func() { err = gc.Push(list...) }) {
					return
				}
				if err != nil {
					c.Fail("push-error", "Push of several members into a collection without a fixed layout failed: %v", err)
					return
				}
				for _, m := range models {
					cur.modelPush(m)
				}
				if !fromOther {
					junk := geom.NewPointFlat(geom.XY, []float64{-4242, -4242})
					for j := range list {
						list[j] = junk
					}
					full := list[:cap(list)]
					for j := range full {
						full[j] = junk
					}
				}
				c.Count("op_push_member_list")
			}
			if kind != model.Collection && r.Bool() {
				// the caller keeps and fills an *empty* part it was handed by an accessor
				// (an empty part has no coordinates to view, so the accessor hands out an
				// object of its own): the geometry it came from, and every later accessor
				// call on either geometry, must still show an empty part there
				var empties []int
				for i := 0; i < cur.numParts(); i++ {
					if cur.partModel(i).IsEmpty() {
						empties = append(empties, i)
					}
				}
				if len(empties) > 0 {
					i := empties[r.Intn(len(empties))]
					np := c02Part(r, kind, cur.m.Layout)
					for try := 0; try < 8 && np.IsEmpty(); try++ {
						np = c02Part(r, kind, cur.m.Layout)
					}
					if !np.IsEmpty() {
						hist[len(hist)-1] = fmt.Sprintf("SetCoords(%[3]s) on the empty part %[1]d handed out by %[2]s's accessor", i, name, np)
						setIn()
						var err error
						if c.Guard("panic", func() {
							// SetCoords only: it gives the part storage of its own.  Push onto
							// the part is not driven - a polygon made of empty rings is handed
							// out as a zero-length *view*, and appending to a view writes into
							// the geometry it views, as it does for non-empty parts, by design
							err = setCoordsOn(cur.partGeom(i), np)
						}) {
							return
						}
						if err != nil {
							c.Fail("setcoords-error", "filling an empty part object failed: %v", err)
							return
						}
						c.Count("op_fill_empty_part_from_accessor")
					}
				}
			}
			setIn()
		}
		if !cur.sweep(c, "after "+hist[len(hist)-1]) {
			return
		}
		oth := b
		if cur == b {
			oth = a
		}
		if !oth.sweep(c, "after "+hist[len(hist)-1]+" (the other tracked geometry)") {
			return
		}
	}
	if len(pattern) > 8 {
		pattern = pattern[:8]
	}
	if strings.Contains(pattern, "n") {
		c.Distinct(fmt.Sprintf("%s/%s/%s", kind, layout, pattern))
	}
	if strings.Contains(pattern, "en") {
		c.Count("history_with_empty_part_before_nonempty")
	}
	if c.WantSample() && len(hist) <= 6 {
		c.Sample(c.Input())
	}
}

// histories on geometries of a thousand and more parts (1024, 2048 and 4096 are
// among the sizes): what an implementation keeps per part - an index of
// offsets, say - is built, extended and consulted at sizes the short histories
// never reach
func c02Long(c *fw.Ctx, idx int) {
	r := c.R
	kind := []model.Kind{model.MultiPolygon, model.MultiPolygon, model.MultiLineString, model.MultiPoint, model.Polygon}[r.Intn(5)]
	layout := c02Layouts[r.Intn(4)]
	a := newTracked(kind, layout, 0)
	n0 := []int{1020 + r.Intn(10), 2044 + r.Intn(10), 4092 + r.Intn(10), r.Range(1000, 1300)}[r.Intn(4)]
	emptyShare := []int{0, 5, 30}[r.Intn(3)]
	c.SetInput(map[string]any{"kind": kind.String(), "layout": layout.String(), "parts_pushed_at_first": n0, "percent_empty": emptyShare})
	small := func(empty bool) *model.G {
		if empty {
			return c02EmptyPart(r, kind, layout)
		}
		p := c02Part(r, kind, layout)
		for try := 0; try < 8 && p.IsEmpty(); try++ {
			p = c02Part(r, kind, layout)
		}
		return p
	}
	pushOne := func(p *model.G) bool {
		var err error
		if c.Guard("panic", func() { err = a.push(p.BuildFlat()) }) {
			return false
		}
		if err != nil {
			c.Fail("push-error", "Push of a matching-layout part failed: %v", err)
			return false
		}
		a.modelPush(p)
		return true
	}
	for i := 0; i < n0; i++ {
		if !pushOne(small(r.Intn(100) < emptyShare)) {
			return
		}
		// now and then a part is looked at while the geometry grows
		if r.Chance(1, 200) {
			j := r.Intn(a.numParts())
			var part geom.T
			if c.Guard("panic", func() { part = a.partGeom(j) }) {
				return
			}
			if !expectGeom(c, fmt.Sprintf("part accessor %d of %d while the first parts are being pushed", j, a.numParts()), part, a.partModel(j), model.Opts{IgnoreSRID: true}) {
				return
			}
		}
	}
	c.Count("long_histories")
	c.CountN("parts_pushed_in_long_histories", int64(n0))
	if !a.sweep(c, fmt.Sprintf("after the first %d pushes", n0)) {
		return
	}
	steps := r.Range(4, 16)
	for s := 0; s < steps; s++ {
		empty := r.Chance(1, 2)
		p := small(empty)
		if !pushOne(p) {
			return
		}
		c.SetInput(map[string]any{"kind": kind.String(), "layout": layout.String(), "parts_pushed_at_first": n0, "percent_empty": emptyShare, "then": fmt.Sprintf("%d more pushes, the last one %s", s+1, p)})
		// the part just pushed, a few others, and now and then everything
		last := a.numParts() - 1
		for _, j := range []int{last, last - 1, r.Intn(last + 1), 0} {
			var part geom.T
			if c.Guard("panic", func() { part = a.partGeom(j) }) {
				return
			}
			if !expectGeom(c, fmt.Sprintf("part accessor %d of %d", j, last+1), part, a.partModel(j), model.Opts{IgnoreSRID: true}) {
				return
			}
		}
		if r.Chance(1, 4) && !a.sweep(c, fmt.Sprintf("after %d more pushes", s+1)) {
			return
		}
	}
	if !a.sweep(c, "at the end of the long history") {
		return
	}
	c.Distinct(fmt.Sprintf("long/%s/%s/%d", kind, layout, n0))
	// two geometries with a long run of empty parts in the middle (32, 64, 100 of
	// them), parts of different sizes before the run; the part after the run is
	// looked at, the two are swapped, and it is looked at again
	if kind == model.Polygon {
		return
	}
	b := newTracked(kind, layout, 0)
	a2 := newTracked(kind, layout, 0)
	build := func(tr *tracked) bool {
		save := a
		a = tr
		defer func() { a = save }()
		for i := r.Range(1, 4); i > 0; i-- {
			if !pushOne(small(false)) {
				return false
			}
		}
		for i := []int{31, 32, 33, 64, 65, 100}[r.Intn(6)]; i > 0; i-- {
			// parts with nothing in them at all (for a MultiPolygon: polygons without rings)
			e := &model.G{Kind: partKind(kind), Layout: layout}
			if r.Chance(1, 10) {
				e = small(true)
			}
			if !pushOne(e) {
				return false
			}
		}
		for i := r.Range(1, 3); i > 0; i-- {
			if !pushOne(small(false)) {
				return false
			}
		}
		return true
	}
	if !build(a2) || !build(b) {
		return
	}
	c.SetInput(map[string]any{"kind": kind.String(), "layout": layout.String(), "history": "two geometries: a few parts, a run of 31..100 empty parts, a few parts; accessors, Swap, accessors"})
	if !a2.sweep(c, "geometry A with a long run of empty parts") || !b.sweep(c, "geometry B with a long run of empty parts") {
		return
	}
	if c.Guard("panic", func() { swapTracked(a2, b) }) {
		return
	}
	c.Count("long_runs_of_empty_parts_swapped")
	if !a2.sweep(c, "geometry A after A.Swap(B)") || !b.sweep(c, "geometry B after A.Swap(B)") {
		return
	}
}

// exhaustive MultiPolygon histories of length <= 5 over a 4-part alphabet
func c02ExhMultiPolygon(c *fw.Ctx, idx int) {
	n := 1
	base := 0
	sz := 4
	for idx >= base+sz {
		base += sz
		sz *= 4
		n++
	}
	k := idx - base
	layout := []geom.Layout{geom.XY, geom.XYZ, geom.Layout(5)}[idx%3]
	stride := layout.Stride()
	tr := newTracked(model.MultiPolygon, layout, 0)
	ctr := 0.0
	ring := func(np int) [][]float64 {
		out := make([][]float64, np)
		for i := range out {
			co := make([]float64, stride)
			for j := range co {
				ctr++
				co[j] = ctr
			}
			out[i] = co
		}
		return out
	}
	var hist []string
	for s := 0; s < n; s++ {
		a := k % 4
		k /= 4
		p := &model.G{Kind: model.Polygon, Layout: layout}
		switch a {
		case 0: // empty polygon
		case 1:
			p.C2 = [][][]float64{ring(3)}
		case 2:
			p.C2 = [][][]float64{ring(2), ring(1)}
		case 3: // polygon made only of empty rings
			p.C2 = [][][]float64{{}, {}}
		}
		hist = append(hist, []string{"empty", "1-ring", "2-ring", "all-empty-rings"}[a])
		c.SetInput(map[string]any{"kind": "MultiPolygon", "layout": layout.String(), "history": "Push " + strings.Join(hist, ", ")})
		var err error
		if c.Guard("panic", func() { err = tr.push(p.BuildFlat()) }) {
			return
		}
		if err != nil {
			c.Fail("push-error", "Push failed: %v", err)
			return
		}
		tr.modelPush(p)
		if !tr.sweep(c, "after pushing "+strings.Join(hist, ", ")) {
			return
		}
	}
	c.Count("exhaustive_histories")
	c.Distinct("exh/" + strings.Join(hist, ","))
	// reverse and clone at the end
	c.Guard("panic", func() {
		tr.reverse()
		tr.sweep(c, "after Reverse")
		tr.clone()
		tr.sweep(c, "after Clone")
	})
}

func init() {
	fw.Register(&fw.Monitor{
		ID:     "C02",
		Title:  "multi-part geometries behave as lists of their parts under any Push history",
		Rule:   "random operation histories (1..40 steps, thorough ..200) over {Push(part), Push(wrong-layout part), Reverse, Swap with a second tracked geometry, Clone-and-continue, SetLayout (collections), accessor sweep} on Polygon, MultiPoint, MultiLineString, MultiPolygon, GeometryCollection in XY..Layout(6); an executable list model is stepped in lock-step and the whole state (WF, flat/ends via FromGeom, Num*, every part accessor, Coords()) is compared after every operation; failed pushes must return ErrLayoutMismatch{Got,Want} and leave a bitwise-identical receiver; plus every MultiPolygon push history of length <=5 over {empty, 1-ring, 2-ring, all-empty-rings}. distinct_nontrivial = distinct (type, layout, empty/non-empty pattern of the first 8 pushes) with at least one non-empty part",
		Assume: []string{"list model in mon/c02.go; WF monitor"},
		Classes: []fw.Class{
			{Name: "histories", Quick: 80000, Thorough: 1000000, Run: c02History},
			{Name: "long-histories", Quick: 96, Thorough: 3000, Chunk: 4, Run: c02Long},
			{Name: "exhaustive-multipolygon", Quick: 1364, Thorough: 1364, Run: c02ExhMultiPolygon, Exhaustive: "every MultiPolygon Push history of length 1..5 over the alphabet {empty polygon, 1 ring, 2 rings, only empty rings}"},
		},
		Require: []string{"op_push", "op_push_wrong_layout", "op_reverse", "op_swap", "op_clone", "op_setlayout", "pushed_empty_part", "empty_part_accessed", "history_with_empty_part_before_nonempty", "exhaustive_histories"},
	})
}
