package mon

import (
	"fmt"
	"math"
	"math/big"

	geom "github.com/twpayne/go-geom"
	"github.com/twpayne/go-geom/xy"
	"github.com/twpayne/go-geom/xyz"

	"verifharness/exact"
	"verifharness/fw"
	"verifharness/gen"
)

// C15 - 2D and 3D distance functions return the true minimum distance.

type v3 [3]*big.Rat

func r3(p [3]float64) v3 { return v3{exact.R(p[0]), exact.R(p[1]), exact.R(p[2])} }

func sub3(a, b v3) v3 { return v3{exact.Sub(a[0], b[0]), exact.Sub(a[1], b[1]), exact.Sub(a[2], b[2])} }
func dot3(a, b v3) *big.Rat {
	return exact.Add(exact.Add(exact.Mul(a[0], b[0]), exact.Mul(a[1], b[1])), exact.Mul(a[2], b[2]))
}
func addScaled3(a v3, t *big.Rat, d v3) v3 {
	return v3{exact.Add(a[0], exact.Mul(t, d[0])), exact.Add(a[1], exact.Mul(t, d[1])), exact.Add(a[2], exact.Mul(t, d[2]))}
}

// ptSeg3 is the exact squared distance from p to the closed segment ab in 3D.
func ptSeg3(p, a, b v3) *big.Rat {
	u := sub3(b, a)
	w := sub3(p, a)
	uu := dot3(u, u)
	if uu.Sign() == 0 {
		return dot3(w, w)
	}
	t := dot3(u, w)
	if t.Sign() <= 0 {
		return dot3(w, w)
	}
	if t.Cmp(uu) >= 0 {
		wb := sub3(p, b)
		return dot3(wb, wb)
	}
	q := addScaled3(a, exact.Quo(t, uu), u)
	d := sub3(p, q)
	return dot3(d, d)
}

// segSeg3 is the exact squared distance between two closed 3D segments: the
// minimum of a convex quadratic over the unit square is at an interior stationary
// point if one exists inside, otherwise on one of the four edges.
func segSeg3(a, b, cc, d v3) (dist2 *big.Rat, sinSq float64, bothOutside bool) {
	u := sub3(b, a)
	v := sub3(d, cc)
	w := sub3(a, cc)
	A := dot3(u, u)
	B := dot3(u, v)
	C := dot3(v, v)
	D := dot3(u, w)
	E := dot3(v, w)
	den := exact.Sub(exact.Mul(A, C), exact.Mul(B, B))
	best := ptSeg3(a, cc, d)
	for _, x := range []*big.Rat{ptSeg3(b, cc, d), ptSeg3(cc, a, b), ptSeg3(d, a, b)} {
		if x.Cmp(best) < 0 {
			best = x
		}
	}
	sinSq = 1
	if A.Sign() > 0 && C.Sign() > 0 {
		sinSq = exact.F64(exact.Quo(den, exact.Mul(A, C)))
	}
	if den.Sign() > 0 {
		s := exact.Quo(exact.Sub(exact.Mul(B, E), exact.Mul(C, D)), den)
		t := exact.Quo(exact.Sub(exact.Mul(A, E), exact.Mul(B, D)), den)
		one := exact.Int(1)
		sOut := s.Sign() < 0 || s.Cmp(one) > 0
		tOut := t.Sign() < 0 || t.Cmp(one) > 0
		bothOutside = sOut && tOut
		if !sOut && !tOut {
			p := addScaled3(a, s, u)
			q := addScaled3(cc, t, v)
			dd := sub3(p, q)
			x := dot3(dd, dd)
			if x.Cmp(best) < 0 {
				best = x
			}
		}
	}
	return best, sinSq, bothOutside
}

func c15Tol(vals ...float64) float64 {
	m := 1.0
	for _, v := range vals {
		if math.Abs(v) > m {
			m = math.Abs(v)
		}
	}
	return 1e-9 * m
}

func c15Judge(c *fw.Ctx, fn string, got float64, want2 *big.Rat, tol float64) bool {
	c.Eval(1)
	c.Count("fn_" + fn)
	if math.IsNaN(got) {
		c.Count("nan_results")
		c.Fail("nan", "%s returned NaN for finite input; exact distance %g", fn, exact.BF64(exact.Sqrt(want2)))
		return false
	}
	want := exact.Sqrt(want2)
	d := exact.AbsDiff(got, want)
	if d > tol {
		c.Fail("wrong-distance", "%s = %v, exact minimum distance %v (error %g > tolerance %g)", fn, got, exact.BF64(want), d, tol)
		return false
	}
	c.Max("error_over_tolerance", d/tol)
	if want2.Sign() == 0 {
		c.Count("exact_distance_zero")
	}
	return true
}

// c15GramExact reports whether the Gram quantities of the two segments
// (u.u, u.v, v.v, u.w, v.w) and every pairwise product and the differences the
// closest-approach formulas take of them are exactly representable in float64,
// i.e. whether a double evaluation of those formulas suffers no cancellation.
func c15GramExact(a, b, cc, d v3) bool {
	u, v, w := sub3(b, a), sub3(d, cc), sub3(a, cc)
	q := []*big.Rat{dot3(u, u), dot3(u, v), dot3(v, v), dot3(u, w), dot3(v, w)}
	ok := func(x *big.Rat) bool { _, ex := x.Float64(); return ex }
	for _, x := range q {
		if !ok(x) {
			return false
		}
	}
	A, B, C, D, E := q[0], q[1], q[2], q[3], q[4]
	for _, x := range []*big.Rat{
		exact.Mul(A, C), exact.Mul(B, B), exact.Mul(B, E), exact.Mul(C, D), exact.Mul(A, E), exact.Mul(B, D),
		exact.Sub(exact.Mul(A, C), exact.Mul(B, B)),
		exact.Sub(exact.Mul(B, E), exact.Mul(C, D)),
		exact.Sub(exact.Mul(A, E), exact.Mul(B, D)),
		exact.Add(D, B), exact.Sub(E, B), exact.Add(exact.Neg(D), B), exact.Add(E, C),
	} {
		if !ok(x) {
			return false
		}
	}
	return true
}

func c15Grid(r *fw.Rand) int { return []int{4, 32, 1 << 10, 1 << 20}[r.Intn(4)] }

// 2D: point-segment, perpendicular, point-linestring, segment-segment
func c15xy(c *fw.Ctx, idx int) {
	if c.R.Chance(1, 64) {
		xyRefusedCalls(c)
	}
	r := c.R
	g := c15Grid(r)
	pt := func() [2]float64 { return [2]float64{rint(r, g), rint(r, g)} }
	s1, s2 := c12Construct(r, g)
	class := "constructed"
	switch r.Intn(6) {
	case 0:
		s1.b = s1.a
		class = "first-degenerate"
	case 1:
		s2.b = s2.a
		class = "second-degenerate"
	case 2:
		s1.b = s1.a
		s2.b = s2.a
		class = "both-degenerate"
	}
	var vals []float64
	for _, s := range []seg{s1, s2} {
		vals = append(vals, s.a[0], s.a[1], s.b[0], s.b[1])
	}
	tol := c15Tol(vals...)
	c.SetInput(map[string]any{"dim": 2, "class": class, "line1": fmt.Sprintf("%s-%s", fw.Fs(s1.a[:]), fw.Fs(s1.b[:])), "line2": fmt.Sprintf("%s-%s", fw.Fs(s2.a[:]), fw.Fs(s2.b[:]))})
	c.Count("xy_" + class)
	c.Distinct(fmt.Sprintf("xy/%v/%v", s1, s2))
	// coordinates are handed over in a few buffers the caller keeps and refills
	// (six of them, so the arguments of one call never share one), and one case in
	// four writes some zero ordinates as -0
	negZero := r.Chance(1, 4)
	co := func(p [2]float64) geom.Coord {
		c15CoordNext = (c15CoordNext + 1) % len(c15CoordBufs)
		b := c15CoordBufs[c15CoordNext][:]
		n := 2
		if r.Chance(1, 3) {
			n = 3
		}
		b = b[:n:n]
		b[0], b[1] = p[0], p[1]
		if n == 3 {
			// a third ordinate the planar functions have no business with: NaN, or a
			// number that differs from argument to argument
			b[2] = math.NaN()
			if r.Bool() {
				b[2] = float64(r.Range(-9, 9))
			}
		}
		for i := 0; i < 2; i++ {
			if negZero && b[i] == 0 && r.Bool() {
				b[i] = math.Copysign(0, -1)
			}
		}
		return geom.Coord(b)
	}
	ea, eb, ec, ed := exact.Pt(s1.a[0], s1.a[1]), exact.Pt(s1.b[0], s1.b[1]), exact.Pt(s2.a[0], s2.a[1]), exact.Pt(s2.b[0], s2.b[1])
	want := exact.SegSegDist2(ea, eb, ec, ed)
	if want.Sign() == 0 {
		c.Count("xy_touching_or_crossing")
	}
	// all 8 presentations of the segment pair
	for k := 0; k < 8; k++ {
		p1, p2 := s1, s2
		if k&1 != 0 {
			p1 = seg{p1.b, p1.a}
		}
		if k&2 != 0 {
			p2 = seg{p2.b, p2.a}
		}
		if k&4 != 0 {
			p1, p2 = p2, p1
		}
		var got float64
		if c.Guard("panic", func() { got = xy.DistanceFromLineToLine(co(p1.a), co(p1.b), co(p2.a), co(p2.b)) }) {
			return
		}
		if !c15Judge(c, "xy.DistanceFromLineToLine", got, want, tol) {
			return
		}
	}
	// the same four coordinate objects, grouped into segments in the three possible
	// ways, one call after the other
	if r.Chance(1, 3) {
		A, B, C, D := co(s1.a), co(s1.b), co(s2.a), co(s2.b)
		groups := []struct {
			p, q, u, v geom.Coord
			e          [4]exact.P
		}{{A, B, C, D, [4]exact.P{ea, eb, ec, ed}}, {B, C, D, A, [4]exact.P{eb, ec, ed, ea}}, {A, C, B, D, [4]exact.P{ea, ec, eb, ed}}, {A, B, C, D, [4]exact.P{ea, eb, ec, ed}}}
		for gi, gr := range groups {
			var got float64
			if c.Guard("panic", func() { got = xy.DistanceFromLineToLine(gr.p, gr.q, gr.u, gr.v) }) {
				return
			}
			c.Count("same_four_coordinates_regrouped")
			if !c15Judge(c, fmt.Sprintf("xy.DistanceFromLineToLine (grouping %d of the same four coordinate objects)", gi+1), got, exact.SegSegDist2(gr.e[0], gr.e[1], gr.e[2], gr.e[3]), tol) {
				return
			}
		}
	}
	// point-segment: each endpoint of one against the other segment, plus a random point
	p := pt()
	ep := exact.Pt(p[0], p[1])
	for _, s := range []seg{s1, s2, {s1.b, s1.a}} {
		var got float64
		if c.Guard("panic", func() { got = xy.DistanceFromPointToLine(co(p), co(s.a), co(s.b)) }) {
			return
		}
		w := exact.PointSegDist2(ep, exact.Pt(s.a[0], s.a[1]), exact.Pt(s.b[0], s.b[1]))
		if !c15Judge(c, "xy.DistanceFromPointToLine", got, w, c15Tol(append(vals, p[0], p[1])...)) {
			return
		}
	}
	// a point exactly on the segment / its extension
	if s1.a != s1.b {
		k := float64(r.Range(-2, 3))
		q := [2]float64{s1.a[0] + k*(s1.b[0]-s1.a[0]), s1.a[1] + k*(s1.b[1]-s1.a[1])}
		var got float64
		if c.Guard("panic", func() { got = xy.DistanceFromPointToLine(co(q), co(s1.a), co(s1.b)) }) {
			return
		}
		w := exact.PointSegDist2(exact.Pt(q[0], q[1]), ea, eb)
		if !c15Judge(c, "xy.DistanceFromPointToLine", got, w, c15Tol(append(vals, q[0], q[1])...)) {
			return
		}
		// perpendicular distance to the infinite line (two distinct points)
		if c.Guard("panic", func() { got = xy.PerpendicularDistanceFromPointToLine(co(p), co(s1.a), co(s1.b)) }) {
			return
		}
		cr := exact.Cross(ea, eb, ep)
		w = exact.Quo(exact.Mul(cr, cr), exact.Dist2(ea, eb))
		if !c15Judge(c, "xy.PerpendicularDistanceFromPointToLine", got, w, c15Tol(append(vals, p[0], p[1])...)) {
			return
		}
	}
	// point to linestring
	n := r.Range(1, 20)
	stride := r.Range(2, 4)
	layout := []geom.Layout{geom.XY, geom.XYZ, geom.XYZM}[stride-2]
	flat := make([]float64, 0, n*stride)
	var best *big.Rat
	var prev exact.P
	lv := []float64{p[0], p[1]}
	for i := 0; i < n; i++ {
		v := pt()
		if i > 0 && r.Chance(1, 6) {
			v = [2]float64{flat[(i-1)*stride], flat[(i-1)*stride+1]}
		}
		lv = append(lv, v[0], v[1])
		flat = append(flat, v[0], v[1])
		for k := 2; k < stride; k++ {
			flat = append(flat, gen.Float(r, gen.AnyClass(r)))
		}
		ev := exact.Pt(v[0], v[1])
		var d *big.Rat
		if i == 0 {
			d = exact.Dist2(ep, ev)
		} else {
			d = exact.PointSegDist2(ep, prev, ev)
		}
		if best == nil || d.Cmp(best) < 0 {
			best = d
		}
		prev = ev
	}
	c.SetInput(map[string]any{"dim": 2, "point": fw.Fs(p[:]), "linestring": fw.Fs(flat), "stride": stride})
	// the line is handed over as a window into a longer array (a prefix of a
	// caller's coordinate buffer): what lies behind it must be left alone.  The
	// buffer is one the caller keeps: every case writes its line into the same
	// array, and within a case a vertex is moved in place and the question asked
	// again - same address, same length, different line
	backing := c15LineBuf[: len(flat) : len(flat)+3*stride]
	copy(backing, flat)
	tail := backing[len(flat):cap(backing)]
	for i := range tail {
		tail[i] = -7.25e300
	}
	window := backing[:len(flat)]
	for round := 0; round < 2; round++ {
		if round == 1 {
			j := r.Intn(n)
			v := pt()
			flat[j*stride], flat[j*stride+1] = v[0], v[1]
			window[j*stride], window[j*stride+1] = v[0], v[1]
			lv = append(lv, v[0], v[1])
			best = nil
			for i := 0; i < n; i++ {
				ev := exact.Pt(flat[i*stride], flat[i*stride+1])
				var d *big.Rat
				if i == 0 {
					d = exact.Dist2(ep, ev)
				} else {
					d = exact.PointSegDist2(ep, prev, ev)
				}
				if best == nil || d.Cmp(best) < 0 {
					best = d
				}
				prev = ev
			}
			c.SetInput(map[string]any{"dim": 2, "point": fw.Fs(p[:]), "linestring": fw.Fs(flat), "stride": stride, "history": fmt.Sprintf("same buffer queried before with vertex %d elsewhere", j)})
			c.Count("linestring_edited_in_place_and_asked_again")
		}
		var got float64
		if c.Guard("panic", func() { got = xy.DistanceFromPointToLineString(layout, co(p), window) }) {
			return
		}
		for i, v := range backing[:cap(backing)] {
			want := -7.25e300
			if i < len(flat) {
				want = flat[i]
			}
			if math.Float64bits(v) != math.Float64bits(want) {
				c.Fail("input-modified", "DistanceFromPointToLineString wrote into the caller's array at offset %d (the line has %d values, the array %d)", i, len(flat), cap(backing))
				return
			}
		}
		c.Count("linestring_passed_as_window_into_longer_array")
		if !c15Judge(c, "xy.DistanceFromPointToLineString", got, best, c15Tol(lv...)) {
			return
		}
	}
}

// the caller's coordinate buffers, refilled for every argument of every call
var (
	c15CoordBufs [6][4]float64
	c15CoordNext int
)

// c15LineBuf is the coordinate buffer every point-to-linestring case writes its line into.
var c15LineBuf [20*4 + 3*4]float64

// (c) long linestrings: hundreds to thousands of vertices, where an implementation
// may switch to blocks, envelopes, warm starts or caches.  The same buffer holds
// one line after the other, in different strides but equally long as a flat array.
func c15Long(c *fw.Ctx, idx int) {
	r := c.R
	g := []int{1 << 10, 1 << 16, 1 << 20}[r.Intn(3)]
	// flat length: a multiple of 12, so that it is a whole line in strides 2, 3 and 4
	var L int
	switch r.Intn(4) {
	case 0:
		L = 12 * r.Range(43, 100) // 258..600 XY vertices
	case 1:
		L = 12 * r.Range(170, 260) // around 1024 XY vertices
	case 2:
		L = 12 * []int{128, 171, 342, 683, 256, 512}[r.Intn(6)] // powers of two in one stride or another
	default:
		L = 12 * r.Range(100, 1000)
	}
	strides := r.Perm(3)
	for _, si := range strides {
		stride := si + 2
		layout := []geom.Layout{geom.XY, geom.XYZ, geom.XYZM}[si]
		n := L / stride
		flat := c15LongBuf[:L:L]
		xs, ys := make([]float64, n), make([]float64, n)
		walk := r.Intn(3)
		x, y := rint(r, g), rint(r, g)
		step := g/64 + 2
		for i := 0; i < n; i++ {
			switch walk {
			case 0: // uniform
				x, y = rint(r, g), rint(r, g)
			case 1: // random walk
				x += rint(r, step)
				y += rint(r, step)
			default: // long sweeps with an occasional far jump
				if r.Chance(1, 40) {
					x, y = rint(r, g), rint(r, g)
				} else {
					x += float64(r.Range(0, step))
					y += rint(r, step/4+1)
				}
			}
			xs[i], ys[i] = x, y
			flat[i*stride], flat[i*stride+1] = x, y
			for k := 2; k < stride; k++ {
				flat[i*stride+k] = float64(r.Range(-99, 99))
			}
		}
		// the query point: anywhere, or next to a random vertex or a random segment's middle
		var p [2]float64
		switch r.Intn(3) {
		case 0:
			p = [2]float64{rint(r, g), rint(r, g)}
		case 1:
			i := r.Intn(n)
			p = [2]float64{xs[i] + float64(r.Range(-3, 3)), ys[i] + float64(r.Range(-3, 3))}
		default:
			i := r.Intn(n)
			j := i
			if i+1 < n {
				j = i + 1
			}
			p = [2]float64{math.Round((xs[i]+xs[j])/2) + float64(r.Range(-12, 12)), math.Round((ys[i]+ys[j])/2) + float64(r.Range(-12, 12))}
		}
		c.SetInput(map[string]any{"dim": 2, "point": fw.Fs(p[:]), "stride": stride, "vertices": n, "grid": g, "linestring_xy_head": fw.Fs(flat[:min(len(flat), 60)]), "note": "full line regenerated from the seed and case index"})
		// oracle: float pre-selection of the segments that can be nearest, exact arithmetic on those
		d2f := func(i int) float64 {
			ax, ay, bx, by := xs[i], ys[i], xs[i+1], ys[i+1]
			dx, dy := bx-ax, by-ay
			l2 := dx*dx + dy*dy
			t := 0.0
			if l2 > 0 {
				t = ((p[0]-ax)*dx + (p[1]-ay)*dy) / l2
				t = math.Max(0, math.Min(1, t))
			}
			ex, ey := p[0]-(ax+t*dx), p[1]-(ay+t*dy)
			return ex*ex + ey*ey
		}
		ep := exact.Pt(p[0], p[1])
		var best *big.Rat
		if n == 1 {
			best = exact.Dist2(ep, exact.Pt(xs[0], ys[0]))
		} else {
			minf := math.Inf(1)
			for i := 0; i+1 < n; i++ {
				if d := d2f(i); d < minf {
					minf = d
				}
			}
			lim := minf*(1+1e-6) + 1e-6
			for i := 0; i+1 < n; i++ {
				if d2f(i) <= lim {
					d := exact.PointSegDist2(ep, exact.Pt(xs[i], ys[i]), exact.Pt(xs[i+1], ys[i+1]))
					if best == nil || d.Cmp(best) < 0 {
						best = d
					}
				}
			}
		}
		var got float64
		if c.Guard("panic", func() { got = xy.DistanceFromPointToLineString(layout, geom.Coord{p[0], p[1]}, flat) }) {
			return
		}
		c.Count(fmt.Sprintf("long_lines_stride_%d", stride))
		if n >= 1024 {
			c.Count("long_lines_of_1024_or_more_vertices")
		}
		c.Distinct(fmt.Sprintf("long/%d/%d", stride, n))
		maxv := []float64{p[0], p[1]}
		maxv = append(append(maxv, xs...), ys...)
		if !c15Judge(c, "xy.DistanceFromPointToLineString", got, best, c15Tol(maxv...)) {
			return
		}
		// one interior vertex is moved in place (the ends stay where they are), and
		// the question is asked again of the same array
		if n >= 3 && r.Bool() {
			j := 1 + r.Intn(n-2)
			if r.Bool() {
				// onto the query point, or next to it: the answer becomes 0 or small
				xs[j], ys[j] = p[0]+float64(r.Range(-2, 2)), p[1]+float64(r.Range(-2, 2))
			} else {
				xs[j], ys[j] = rint(r, g), rint(r, g)
			}
			flat[j*stride], flat[j*stride+1] = xs[j], ys[j]
			best = nil
			minf := math.Inf(1)
			for i := 0; i+1 < n; i++ {
				if d := d2f(i); d < minf {
					minf = d
				}
			}
			lim := minf*(1+1e-6) + 1e-6
			for i := 0; i+1 < n; i++ {
				if d2f(i) <= lim {
					d := exact.PointSegDist2(ep, exact.Pt(xs[i], ys[i]), exact.Pt(xs[i+1], ys[i+1]))
					if best == nil || d.Cmp(best) < 0 {
						best = d
					}
				}
			}
			if c.Guard("panic", func() { got = xy.DistanceFromPointToLineString(layout, geom.Coord{p[0], p[1]}, flat) }) {
				return
			}
			c.Count("long_lines_edited_in_place_and_asked_again")
			c.SetInput(map[string]any{"dim": 2, "point": fw.Fs(p[:]), "stride": stride, "vertices": n, "grid": g, "history": fmt.Sprintf("vertex %d moved in place to (%v %v) after a first query", j, xs[j], ys[j])})
			if !c15Judge(c, "xy.DistanceFromPointToLineString", got, best, c15Tol(append(maxv, xs[j], ys[j])...)) {
				return
			}
		}
	}
}

var c15LongBuf [12 * 1000]float64

// 3D
func c15xyz(c *fw.Ctx, idx int) {
	if c.R.Chance(1, 64) {
		xyRefusedCalls(c)
	}
	r := c.R
	g := c15Grid(r)
	pt := func() [3]float64 { return [3]float64{rint(r, g), rint(r, g), rint(r, g)} }
	lin := func(a, d [3]float64, k float64) [3]float64 {
		return [3]float64{a[0] + k*d[0], a[1] + k*d[1], a[2] + k*d[2]}
	}
	small := func() [3]float64 {
		h := g/4 + 1
		return [3]float64{rint(r, h), rint(r, h), rint(r, h)}
	}
	var a, b, cc, d [3]float64
	class := ""
	switch r.Intn(17) {
	case 16:
		// a segment a million units long and one of a unit or two, in any relative
		// position (next to the long one, beyond its ends, across it), the short
		// one's ends at different distances
		class = "unit-against-long"
		ax := r.Intn(3)
		var u [3]float64
		u[ax] = float64(int64(1)<<20 - int64(r.Range(0, 40000)))
		u[(ax+1)%3] = float64(r.Range(-3, 3))
		u[(ax+2)%3] = float64(r.Range(-3, 3))
		a = [3]float64{float64(r.Range(-9, 9)), float64(r.Range(-9, 9)), float64(r.Range(-9, 9))}
		if r.Bool() {
			a = lin(a, u, -0.5)
			a = [3]float64{math.Round(a[0]), math.Round(a[1]), math.Round(a[2])}
		}
		b = lin(a, u, 1)
		at := lin(a, u, []float64{0.5, 0.25, 0, 1, -0.001, 1.001}[r.Intn(6)])
		cc = [3]float64{math.Round(at[0]) + float64(r.Range(-3, 3)), math.Round(at[1]) + float64(r.Range(-3, 3)), math.Round(at[2]) + float64(r.Range(-3, 3))}
		d = [3]float64{cc[0] + float64(r.Range(-2, 2)), cc[1] + float64(r.Range(-2, 2)), cc[2] + float64(r.Range(-2, 2))}
		if r.Bool() {
			a, b, cc, d = cc, d, a, b
		}
	case 14, 15:
		// nearly parallel segments in general position: a long direction with
		// full-width components, the second direction differing from a small
		// multiple of it by a unit-sized deviation; starts anywhere on the grid
		class = "near-parallel-general"
		h := g/2 + 1
		u := [3]float64{rint(r, h), rint(r, h), rint(r, h)}
		if u == [3]float64{} {
			u[0] = 1
		}
		dev := [3]float64{float64(r.Range(-2, 2)), float64(r.Range(-2, 2)), float64(r.Range(-2, 2))}
		a = [3]float64{rint(r, h), rint(r, h), rint(r, h)}
		b = lin(a, u, 1)
		off := [3]float64{float64(r.Range(-3, 3)), float64(r.Range(-3, 3)), float64(r.Range(-3, 3))}
		switch r.Intn(3) {
		case 0:
			cc = lin(a, off, 1)
		case 1:
			cc = lin(b, off, 1)
		default:
			cc = [3]float64{rint(r, h), rint(r, h), rint(r, h)}
		}
		v := lin(u, dev, 1)
		if r.Bool() {
			v = lin(dev, u, -1)
		}
		if r.Chance(1, 2) {
			// both directions long and almost along one axis, differing in that axis
			// by k units: the sine of the angle is |(a,b)| k / L^2, i.e. 1e-12 .. 1e-7
			// for L ~ 2^18..2^20 - far closer to parallel than a unit deviation gets
			class = "near-parallel-both-long"
			ax := r.Intn(3)
			L := float64(int64(1)<<uint(r.Range(17, 19)) + int64(r.Range(-1000, 1000)))
			if r.Bool() {
				L = -L
			}
			u = [3]float64{float64(r.Range(-3, 3)), float64(r.Range(-3, 3)), float64(r.Range(-3, 3))}
			u[ax] = L
			if u[(ax+1)%3] == 0 && u[(ax+2)%3] == 0 {
				u[(ax+1)%3] = 1
			}
			k := float64(r.Range(1, 1<<uint(r.Range(1, 13))))
			if r.Bool() {
				k = -k
			}
			v = u
			v[ax] += k
			a = [3]float64{float64(r.Range(-40, 40)), float64(r.Range(-40, 40)), float64(r.Range(-40, 40))}
			b = lin(a, u, 1)
			switch r.Intn(3) {
			case 0: // the lines meet at an end point of the first
				cc = lin(a, v, -float64(r.Range(0, 1)))
			case 1: // the second starts a few units off the first
				cc = lin(a, off, 1)
			default: // they cross in the middle: cc = a + u/2-ish - v/2-ish on the lattice
				cc = lin(lin(a, u, 0.5), v, -0.5)
				cc = [3]float64{math.Round(cc[0]), math.Round(cc[1]), math.Round(cc[2])}
			}
		}
		if v == [3]float64{} {
			v = u
		}
		d = lin(cc, v, 1)
	case 12, 13:
		// long, nearly (not exactly) parallel segments on a large grid whose
		// direction has few significant bits (a power of two along one axis plus
		// a unit-sized deviation), converging, touching or passing each other:
		// every product the closest-approach formulas form is then exactly
		// representable, so the answer must be accurate although sin^2 of the
		// angle is ~2^-40
		class = "near-parallel-exact"
		k := uint(r.Range(9, 20))
		ax := r.Intn(3)
		var u [3]float64
		u[ax] = float64(int64(1) << k)
		if r.Bool() {
			u[ax] = -u[ax]
		}
		dev := [3]float64{float64(r.Range(-2, 2)), float64(r.Range(-2, 2)), float64(r.Range(-2, 2))}
		dev[ax] = 0
		if dev == [3]float64{} {
			dev[(ax+1)%3] = 1
		}
		sp := func() [3]float64 {
			return [3]float64{float64(r.Range(-3, 3)), float64(r.Range(-3, 3)), float64(r.Range(-3, 3))}
		}
		a = sp()
		b = lin(a, u, 1)
		cc = lin(a, sp(), 1)
		v := lin(u, dev, 1)
		switch r.Intn(3) {
		case 0: // second segment ends on / near the far end of the first
			d = lin(b, sp(), float64(r.Intn(2)))
			if d == cc {
				d = lin(cc, v, 1)
			}
		case 1:
			d = lin(cc, v, 1)
		default: // shifted along the common direction: beyond each other's ends
			cc = lin(cc, u, float64(r.Range(-2, 2)))
			d = lin(cc, v, 1)
		}
	case 0:
		class = "generic"
		a, b, cc, d = pt(), pt(), pt(), pt()
	case 1:
		class = "first-degenerate"
		a, cc, d = pt(), pt(), pt()
		b = a
	case 2:
		class = "second-degenerate"
		a, b, cc = pt(), pt(), pt()
		d = cc
	case 3:
		class = "both-degenerate"
		a, cc = pt(), pt()
		b, d = a, cc
	case 4:
		class = "parallel"
		a, cc = pt(), pt()
		dir := small()
		b = lin(a, dir, float64(r.Range(1, 3)))
		d = lin(cc, dir, float64(r.Range(-3, 3)))
	case 5:
		class = "collinear"
		a = pt()
		dir := small()
		b = lin(a, dir, float64(r.Range(-4, 4)))
		cc = lin(a, dir, float64(r.Range(-4, 4)))
		d = lin(a, dir, float64(r.Range(-4, 4)))
	case 6:
		class = "crossing"
		x := pt()
		d1, d2 := small(), small()
		a, b = lin(x, d1, -float64(r.Range(1, 3))), lin(x, d1, float64(r.Range(1, 3)))
		cc, d = lin(x, d2, -float64(r.Range(1, 3))), lin(x, d2, float64(r.Range(1, 3)))
	case 7:
		class = "touching-endpoint"
		a = pt()
		b, cc, d = pt(), a, pt()
		if r.Bool() {
			cc, d = d, cc
		}
	case 8:
		class = "t-touch"
		a = pt()
		dir := small()
		b = lin(a, dir, 4)
		cc = lin(a, dir, float64(r.Range(1, 3)))
		d = pt()
	case 9, 10:
		// skew with both closest-approach parameters outside [0,1]: segments that
		// lie beyond each other's ends
		class = "skew-both-outside"
		o := pt()
		d1, d2 := small(), small()
		k1 := float64(r.Range(2, 5))
		k2 := float64(r.Range(2, 5))
		off := small()
		a, b = lin(o, d1, k1), lin(o, d1, k1+float64(r.Range(1, 3)))
		cc = lin(lin(o, d2, k2), off, 1)
		d = lin(lin(o, d2, k2+float64(r.Range(1, 3))), off, 1)
	default:
		class = "skew-interior"
		x := pt()
		d1, d2 := small(), small()
		n := [3]float64{d1[1]*d2[2] - d1[2]*d2[1], d1[2]*d2[0] - d1[0]*d2[2], d1[0]*d2[1] - d1[1]*d2[0]}
		a, b = lin(x, d1, -float64(r.Range(1, 3))), lin(x, d1, float64(r.Range(1, 3)))
		y := lin(x, n, 1)
		cc, d = lin(y, d2, -float64(r.Range(1, 3))), lin(y, d2, float64(r.Range(1, 3)))
	}
	var vals []float64
	for _, p := range [][3]float64{a, b, cc, d} {
		vals = append(vals, p[:]...)
	}
	for _, v := range vals {
		if math.Abs(v) > 1<<40 {
			c.Count("skipped_out_of_range")
			return
		}
	}
	tol := c15Tol(vals...)
	c.SetInput(map[string]any{"dim": 3, "class": class,
		"line1": fmt.Sprintf("%s-%s", fw.Fs(a[:]), fw.Fs(b[:])), "line2": fmt.Sprintf("%s-%s", fw.Fs(cc[:]), fw.Fs(d[:]))})
	ea, eb, ec, ed := r3(a), r3(b), r3(cc), r3(d)
	want, sinSq, bothOut := segSeg3(ea, eb, ec, ed)
	// near-parallel (not exactly parallel) pairs are only judged where the double
	// computation of a*c-b*b is exact: small grids
	maxAbs := 0.0
	for _, v := range vals {
		maxAbs = math.Max(maxAbs, math.Abs(v))
	}
	if sinSq > 0 && sinSq < 1e-2 && maxAbs > 256 {
		c.Count("xyz_near_parallel_on_large_grid")
		if c15GramExact(ea, eb, ec, ed) {
			c.Count("xyz_near_parallel_large_grid_exact_products")
		}
	}
	c.Count("xyz_" + class)
	if bothOut {
		c.Count("xyz_both_parameters_outside")
	}
	c.Distinct(fmt.Sprintf("xyz/%v/%v/%v/%v", a, b, cc, d))
	negZero := r.Chance(1, 4)
	co := func(p [3]float64) geom.Coord {
		c15CoordNext = (c15CoordNext + 1) % len(c15CoordBufs)
		b := c15CoordBufs[c15CoordNext][:]
		n := 3
		if r.Chance(1, 3) {
			n = 4
		}
		b = b[:n:n]
		b[0], b[1], b[2] = p[0], p[1], p[2]
		if n == 4 {
			b[3] = math.NaN()
		}
		for i := 0; i < 3; i++ {
			if negZero && b[i] == 0 && r.Bool() {
				b[i] = math.Copysign(0, -1)
				c.Count("ordinates_written_as_negative_zero")
			}
		}
		return geom.Coord(b)
	}
	type s3 struct{ a, b [3]float64 }
	l1, l2 := s3{a, b}, s3{cc, d}
	for k := 0; k < 8; k++ {
		p1, p2 := l1, l2
		if k&1 != 0 {
			p1 = s3{p1.b, p1.a}
		}
		if k&2 != 0 {
			p2 = s3{p2.b, p2.a}
		}
		if k&4 != 0 {
			p1, p2 = p2, p1
		}
		var got float64
		if c.Guard("panic", func() { got = xyz.DistanceLineToLine(co(p1.a), co(p1.b), co(p2.a), co(p2.b)) }) {
			return
		}
		if !c15Judge(c, "xyz.DistanceLineToLine", got, want, tol) {
			c.Count("presentation_" + fmt.Sprint(k))
			return
		}
	}
	// point-segment and point-point
	p := pt()
	ep := r3(p)
	for _, s := range []s3{l1, l2, {b, a}} {
		var got float64
		if c.Guard("panic", func() { got = xyz.DistancePointToLine(co(p), co(s.a), co(s.b)) }) {
			return
		}
		if !c15Judge(c, "xyz.DistancePointToLine", got, ptSeg3(ep, r3(s.a), r3(s.b)), c15Tol(append(vals, p[:]...)...)) {
			return
		}
	}
	var got float64
	if c.Guard("panic", func() { got = xyz.Distance(co(p), co(a)) }) {
		return
	}
	dd := sub3(ep, ea)
	c15Judge(c, "xyz.Distance", got, dot3(dd, dd), c15Tol(append(vals, p[:]...)...))
	if c.WantSample() {
		c.Sample(c.Input())
	}
}

// c15EveryLength: a point one unit above the middle of a segment of a unit-step
// line of idx vertices, for idx = 2, 3, 4, ... and for the last, the first, the
// middle and a few other segments: the distance is exactly 1 and the next best
// segment is sqrt(1.25) away, so a scan that skips a segment at the seam of two
// blocks of any size is seen at the length that puts a queried segment there.
func c15EveryLength(c *fw.Ctx, idx int) {
	c15Length(c, idx+2)
	if idx < 40 {
		// and 40 lengths far beyond the sweep: 10,000 .. 120,000 vertices
		c15Length(c, 10001+idx*2777+idx%5)
	}
	c.Count("line_lengths_measured")
	if idx%1000 == 0 {
		c.Distinct(fmt.Sprintf("every-length/%d", idx))
	}
}

// c15LongJoints: a track of n vertices in unit steps whose every B-th segment is
// 64 units long (B = 256, 500, 1000, 1024, 2048, 4096): a point one unit off the
// middle of such a long segment is 1 away from the line and more than 32 away from
// every vertex - block-wise scans that skip by bounding boxes of vertices must not
// lose the joint between two blocks.
func c15LongJoints(c *fw.Ctx, n int) {
	r := c.R
	B := []int{256, 500, 1000, 1024, 2048, 4096}[r.Intn(6)]
	layout := []geom.Layout{geom.XY, geom.XYZ, geom.XYZM}[r.Intn(3)]
	stride := layout.Stride()
	// out along y = 8 in steps of 3, back along y = 3 in unit steps with the long
	// joints: by the time the joint's block is reached the best distance so far is
	// 4 (the outward leg), less than the joint's distance from any vertex
	flat := make([]float64, n*stride)
	xs := make([]float64, n)
	h := n / 2
	x := 0.0
	for i := 0; i < n; i++ {
		xs[i] = x
		y := 8.0
		if i >= h {
			y = 3
		}
		flat[i*stride], flat[i*stride+1] = x, y
		switch {
		case i < h-1:
			x += 3
		case i == h-1:
			// turn round: the return leg starts under the end of the outward leg
		case (i+1)%B == 0:
			x -= 64
		default:
			x--
		}
	}
	for q := 0; q < 6; q++ {
		k := r.Range(h/B+1, (n-1)/B)
		j := k*B - 1 // segment j -> j+1 is a long one, on the return leg
		if j+1 >= n || j < h {
			continue
		}
		p := geom.Coord{(xs[j] + xs[j+1]) / 2, 4, math.NaN(), 2}[:stride]
		if q%2 == 1 {
			p[0] = xs[j] - float64(r.Range(20, 44))
		}
		c.SetInput(map[string]any{"line": fmt.Sprintf("out along y=8 in steps of 3, back along y=3 in unit steps, every %d-th segment 64 long", B), "vertices": n, "layout": layout.String(), "point": fw.Fs(p[:2]), "above_long_segment": j})
		var got float64
		if c.Guard("panic", func() { got = xy.DistanceFromPointToLineString(layout, p, flat) }) {
			return
		}
		c.Eval(1)
		c.Count("points_next_to_long_joints")
		if !(math.Abs(got-1) <= 1e-9) {
			c.Fail("wrong-distance", "xy.DistanceFromPointToLineString = %v for a point one unit off the 64-unit segment %d of a line of %d vertices (every %d-th segment is that long; exact distance 1, every vertex is more than 20 away)", got, j, n, B)
			return
		}
	}
}

func c15Length(c *fw.Ctx, n int) {
	r := c.R
	if n > 9000 {
		c15LongJoints(c, n)
	}
	for _, layout := range []geom.Layout{geom.XY, geom.XYZ, geom.XYZM} {
		stride := layout.Stride()
		flat := make([]float64, n*stride)
		vert := r.Bool()
		for i := 0; i < n; i++ {
			if vert {
				flat[i*stride], flat[i*stride+1] = -3, float64(i)
			} else {
				flat[i*stride], flat[i*stride+1] = float64(i), 5
			}
			for k := 2; k < stride; k++ {
				flat[i*stride+k] = float64(i%7) - 3
			}
		}
		js := []int{n - 2, 0, (n - 2) / 2, (n - 2) - (n-2)%3, r.Intn(n - 1)}
		if n > 9000 {
			// the segments that end one block of 256, 1000, 1024, 4096, 65536 vertices
			// and start the next
			for _, blk := range []int{256, 1000, 1024, 4096, 65536, 500, 2048} {
				if blk < n-1 {
					js = append(js, blk*r.Range(1, (n-2)/blk)-1)
				}
			}
		}
		for _, j := range js {
			p := geom.Coord{float64(j) + 0.5, 6, math.NaN(), 2}[:stride]
			if vert {
				p = geom.Coord{-4, float64(j) + 0.5, math.NaN(), 2}[:stride]
			}
			c.SetInput(map[string]any{"line": "unit steps", "vertices": n, "vertical": vert, "layout": layout.String(), "point": fw.Fs(p[:2]), "above_segment": j})
			var got float64
			if c.Guard("panic", func() { got = xy.DistanceFromPointToLineString(layout, p, flat) }) {
				return
			}
			c.Eval(1)
			if !(math.Abs(got-1) <= 1e-9) {
				c.Fail("wrong-distance", "xy.DistanceFromPointToLineString = %v for a point one unit off the middle of segment %d of a unit-step line of %d vertices (exact distance 1; the neighbouring segments are sqrt(1.25) away)", got, j, n)
				return
			}
		}
	}
}

func init() {
	fw.Register(&fw.Monitor{
		ID:     "C15",
		Title:  "2D and 3D distance functions return the true minimum distance",
		Rule:   "xy.DistanceFromPointToLine / DistanceFromPointToLineString / DistanceFromLineToLine / PerpendicularDistanceFromPointToLine and xyz.Distance / DistancePointToLine / DistanceLineToLine compared with exact rational squared distances (3D segment-segment by exact minimisation of the quadratic over the unit square), square root at 400 bits, tolerance 1e-9*max(1,max|ordinate|); integer grids 4..2^20; classes generic, degenerate first/second/both, parallel, collinear, crossing, touching, T-touch, skew with both parameters outside [0,1], skew interior; every segment pair in all 8 presentations; NaN never accepted. distinct_nontrivial = distinct segment pairs",
		Assume: []string{"math/big exact; near-parallel (not parallel) 3D pairs judged only on grids <= 2^8 where the double computation of a*c-b*b is exact"},
		Classes: []fw.Class{
			{Name: "xy", Quick: 100000, Thorough: 3000000, Run: c15xy},
			{Name: "xyz", Quick: 150000, Thorough: 5000000, Run: c15xyz},
			{Name: "long-linestrings", Quick: 4000, Thorough: 150000, Run: c15Long},
			{Name: "every-length", Quick: 9000, Thorough: 40000, Chunk: 50, Run: c15EveryLength, Exhaustive: "unit-step lines of every number of vertices from 2 to the class count + 1"},
		},
		Require: []string{"xy_first-degenerate", "xy_second-degenerate", "xy_both-degenerate", "xy_touching_or_crossing", "xyz_first-degenerate", "xyz_second-degenerate", "xyz_both-degenerate", "xyz_parallel", "xyz_collinear", "xyz_crossing", "xyz_touching-endpoint", "xyz_t-touch", "xyz_skew-both-outside", "xyz_both_parameters_outside", "xyz_skew-interior", "exact_distance_zero"},
	})
}
