// Package gen holds the seeded generators shared by the monitors.
package gen

import (
	"math"

	"verifharness/fw"
)

// FloatClass selects a family of float64 values.
type FloatClass int

const (
	SmallInt   FloatClass = iota // integers in -9..9
	Grid                         // integers in a window around an offset
	FiniteBits                   // uniformly random finite bit patterns
	Specials                     // NaN payloads, +-Inf, -0, denormals, extremes
	LonLat                       // six-decimal degrees
	Moderate                     // finite, magnitude 1e-3..1e6, random mantissa
	Wide                         // finite, magnitude 2^-200..2^200
	IntEdge                      // finite, on or next to integer-type and digit-count boundaries
	NumFloatClasses
)

var specials = []float64{
	math.NaN(),
	math.Float64frombits(0x7ff8000000000000), // canonical quiet NaN (the empty-point marker)
	math.Float64frombits(0x7ff8000000000001),
	math.Float64frombits(0x7ff0000000000001), // signalling NaN
	math.Float64frombits(0xfff8000000000000),
	math.Float64frombits(0x7fffffffffffffff),
	math.Inf(1), math.Inf(-1),
	math.Copysign(0, -1), 0,
	math.SmallestNonzeroFloat64, -math.SmallestNonzeroFloat64,
	math.Float64frombits(0x000fffffffffffff), // largest denormal
	math.Float64frombits(0x0010000000000000), // smallest normal
	math.MaxFloat64, -math.MaxFloat64,
	math.Ldexp(1, 200), math.Ldexp(1, -200), 1, -1, 0.1, 1e21, 1e-7,
}

// Float draws one value of the given class.
func Float(r *fw.Rand, cl FloatClass) float64 {
	switch cl {
	case SmallInt:
		return float64(r.Range(-9, 9))
	case Grid:
		offs := []float64{0, 0, 1000, -1000, 1e6, -1e6, 1e9}
		return offs[r.Intn(len(offs))] + float64(r.Range(-50, 50))
	case FiniteBits:
		return r.FiniteBits()
	case Specials:
		return specials[r.Intn(len(specials))]
	case LonLat:
		return math.Round((r.Float01()*360-180)*1e6) / 1e6
	case Moderate:
		m := 1 + r.Float01()
		e := r.Range(-10, 20)
		v := math.Ldexp(m, e)
		if r.Bool() {
			v = -v
		}
		return v
	case IntEdge:
		// values whose decimal or binary integer form sits at a boundary: 2^k for
		// the widths of the integer types, 10^k where the digit count changes,
		// integers of 15..22 digits; each also a few units / ulps to either side
		var v float64
		switch r.Intn(4) {
		case 0:
			k := []int{7, 8, 15, 16, 23, 24, 31, 32, 52, 53, 54, 62, 63, 64, 65, 127, 128}[r.Intn(17)]
			v = math.Ldexp(1, k)
		case 1:
			v = math.Pow(10, float64(r.Range(14, 23)))
		case 2:
			// a random integer of 15..22 digits
			d := r.Range(15, 22)
			v = math.Floor((1 + 9*r.Float01()) * math.Pow(10, float64(d-1)))
		default:
			// upper part of a decade / of the int64 and uint64 ranges
			v = []float64{9.3e18, 9.5e18, 9.99e18, 1.8e19, 1.9e19, 4.29e9, 4.3e9, 2.2e9, 9.1e15, 9.9e15}[r.Intn(10)] * (1 + r.Float01()/100)
			v = math.Floor(v)
		}
		switch r.Intn(4) {
		case 0:
			v += float64(r.Range(-3, 3))
		case 1:
			v = NextAfterN(v, r.Range(-2, 2))
		case 2:
			v += 0.5
		}
		if r.Bool() {
			v = -v
		}
		return v
	case Wide:
		m := 1 + r.Float01()
		e := r.Range(-200, 199)
		v := math.Ldexp(m, e)
		if r.Bool() {
			v = -v
		}
		if r.Chance(1, 20) {
			return 0
		}
		return v
	}
	return 0
}

// FiniteClass picks a class that only yields finite values.
func FiniteClass(r *fw.Rand) FloatClass {
	cls := []FloatClass{SmallInt, SmallInt, Grid, FiniteBits, LonLat, Moderate, Wide, IntEdge}
	return cls[r.Intn(len(cls))]
}

// AnyClass picks any class, including non-finite specials.
func AnyClass(r *fw.Rand) FloatClass {
	cls := []FloatClass{SmallInt, Grid, FiniteBits, Specials, Specials, LonLat, Moderate, Wide, IntEdge}
	return cls[r.Intn(len(cls))]
}

// Coord draws one coordinate of n ordinates.
func Coord(r *fw.Rand, n int, cl FloatClass) []float64 {
	c := make([]float64, n)
	for i := range c {
		c[i] = Float(r, cl)
	}
	return c
}

// NextAfterN moves f by k units in the last place (k may be negative).
func NextAfterN(f float64, k int) float64 {
	for ; k > 0; k-- {
		f = math.Nextafter(f, math.Inf(1))
	}
	for ; k < 0; k++ {
		f = math.Nextafter(f, math.Inf(-1))
	}
	return f
}
