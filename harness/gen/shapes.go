package gen

import (
	geom "github.com/twpayne/go-geom"

	"verifharness/fw"
	"verifharness/model"
)

// ShapeOpts steers the shape generator.
type ShapeOpts struct {
	// Valid restricts shapes to what WKT can express: linestrings of 0 or >=2
	// points, rings closed with >=4 points and never empty inside a polygon.
	Valid bool
	// NoEmptyPointMember forbids nil members in multipoints.
	NoEmptyPointMember bool
	// NoEmptyPoint forbids empty points (top level and collection members).
	NoEmptyPoint bool
	// MaxPts caps the number of points of a line/ring (default 6).
	MaxPts int
	// Big occasionally produces long lines (up to 300 points).
	Big bool
	// Huge very rarely (one line in 15,000) produces a line of 65,536 or 131,072
	// coordinates, give or take two.
	Huge bool
	// CoordFn, if set, replaces the float-class based coordinate generator.
	CoordFn func(r *fw.Rand, stride int) []float64
}

func (o ShapeOpts) coord(r *fw.Rand, stride int, cl FloatClass) []float64 {
	if o.CoordFn != nil {
		return o.CoordFn(r, stride)
	}
	return Coord(r, stride, cl)
}

// size draws a component count that over-weights 0 and 1.
func size(r *fw.Rand) int {
	switch x := r.Intn(100); {
	case x < 22:
		return 0
	case x < 45:
		return 1
	case x < 65:
		return 2
	case x < 80:
		return 3
	default:
		return r.Range(4, 7)
	}
}

// ThresholdSize draws a large count that sits on or next to a power of two
// (where block-wise, pairwise or buffered code paths switch over) or is a random
// size up to max.
func ThresholdSize(r *fw.Rand, max int) int {
	if r.Chance(1, 3) {
		return r.Range(300, max)
	}
	p := 1 << uint(r.Range(6, 12)) // 64 .. 4096
	n := p + r.Range(-2, 2)
	if r.Chance(1, 4) {
		n = 2*p + p/2 + r.Range(-1, 1)
	}
	if n > max {
		n = max
	}
	return n
}

// parts draws the number of parts of a multi-part geometry: the usual small
// sizes, and with Big now and then many (small) parts.
func (o ShapeOpts) parts(r *fw.Rand, limit int) (int, ShapeOpts) {
	n := size(r)
	if limit > 0 && n > limit {
		n = limit
	}
	if o.Big && r.Chance(1, 400) {
		n = ThresholdSize(r, 600)
		o.Big = false
		o.MaxPts = 3
	}
	return n, o
}

func (o ShapeOpts) maxPts() int {
	if o.MaxPts > 0 {
		return o.MaxPts
	}
	return 6
}

func line(r *fw.Rand, stride int, cl FloatClass, o ShapeOpts) [][]float64 {
	var n int
	if o.Valid {
		if r.Chance(1, 5) {
			n = 0
		} else {
			n = r.Range(2, o.maxPts())
		}
	} else {
		n = size(r)
		if n > o.maxPts() {
			n = o.maxPts()
		}
	}
	if o.Big && r.Chance(1, 40) {
		n = r.Range(50, 300)
	}
	if o.Big && r.Chance(1, 250) {
		n = ThresholdSize(r, 5000)
	}
	if o.Huge && r.Chance(1, 15000) {
		n = 65536*r.Range(1, 2) + r.Range(-2, 2)
	}
	out := make([][]float64, n)
	for i := range out {
		out[i] = o.coord(r, stride, cl)
	}
	return out
}

func ring(r *fw.Rand, stride int, cl FloatClass, o ShapeOpts) [][]float64 {
	if !o.Valid {
		return line(r, stride, cl, o)
	}
	n := r.Range(4, o.maxPts()+2)
	out := make([][]float64, n)
	for i := 0; i < n-1; i++ {
		out[i] = o.coord(r, stride, cl)
	}
	out[n-1] = append([]float64{}, out[0]...)
	return out
}

func polygon(r *fw.Rand, stride int, cl FloatClass, o ShapeOpts) [][][]float64 {
	n, o := o.parts(r, 4)
	out := make([][][]float64, n)
	for i := range out {
		out[i] = ring(r, stride, cl, o)
	}
	return out
}

// Kinds7 are the seven non-collection geometry kinds.
var Kinds7 = []model.Kind{model.Point, model.LineString, model.LinearRing, model.Polygon, model.MultiPoint, model.MultiLineString, model.MultiPolygon}

// Kinds6 are the kinds the codecs know (no LinearRing).
var Kinds6 = []model.Kind{model.Point, model.LineString, model.Polygon, model.MultiPoint, model.MultiLineString, model.MultiPolygon}

// Shape generates one non-collection geometry model.
func Shape(r *fw.Rand, kind model.Kind, layout geom.Layout, cl FloatClass, o ShapeOpts) *model.G {
	stride := layout.Stride()
	g := &model.G{Kind: kind, Layout: layout}
	if stride == 0 {
		// NoLayout: only empty geometries are well formed.
		return g
	}
	switch kind {
	case model.Point:
		if !o.NoEmptyPoint && r.Chance(1, 6) {
			g.C0 = nil
		} else {
			g.C0 = o.coord(r, stride, cl)
		}
	case model.LineString:
		g.C1 = line(r, stride, cl, o)
	case model.LinearRing:
		g.C1 = ring(r, stride, cl, o)
	case model.MultiPoint:
		n, _ := o.parts(r, 0)
		g.C1 = make([][]float64, n)
		for i := range g.C1 {
			if !o.NoEmptyPointMember && r.Chance(1, 4) {
				g.C1[i] = nil
			} else {
				g.C1[i] = o.coord(r, stride, cl)
			}
		}
	case model.Polygon:
		g.C2 = polygon(r, stride, cl, o)
	case model.MultiLineString:
		n, o := o.parts(r, 0)
		g.C2 = make([][][]float64, n)
		for i := range g.C2 {
			g.C2[i] = line(r, stride, cl, o)
		}
	case model.MultiPolygon:
		n, o := o.parts(r, 5)
		if n > 200 {
			n = 200
		}
		g.C3 = make([][][][]float64, n)
		for i := range g.C3 {
			g.C3[i] = polygon(r, stride, cl, o)
		}
	}
	return g
}

// CollOpts steers collection generation.
type CollOpts struct {
	Shape       ShapeOpts
	Layouts     []geom.Layout // layouts members may take
	MixLayouts  bool          // members may differ in layout
	MaxDepth    int
	MaxMembers  int
	FixedChance int // percent of collections that carry a fixed layout (only when uniform)
	WithRings   bool
}

// Collection generates a (possibly nested) geometry collection model.
func Collection(r *fw.Rand, cl FloatClass, o CollOpts, depth int) *model.G {
	layout := o.Layouts[r.Intn(len(o.Layouts))]
	return collection(r, cl, o, depth, layout)
}

func collection(r *fw.Rand, cl FloatClass, o CollOpts, depth int, layout geom.Layout) *model.G {
	g := &model.G{Kind: model.Collection}
	n := size(r)
	if o.MaxMembers > 0 && n > o.MaxMembers {
		n = o.MaxMembers
	}
	uniform := true
	for i := 0; i < n; i++ {
		ml := layout
		if o.MixLayouts && r.Chance(1, 3) {
			ml = o.Layouts[r.Intn(len(o.Layouts))]
			if ml != layout {
				uniform = false
			}
		}
		if depth < o.MaxDepth && r.Chance(1, 4) {
			sub := collection(r, cl, o, depth+1, ml)
			if sub.CollectionLayout() != layout {
				uniform = false
			}
			g.Members = append(g.Members, sub)
			continue
		}
		kinds := Kinds6
		if o.WithRings {
			kinds = Kinds7
		}
		g.Members = append(g.Members, Shape(r, kinds[r.Intn(len(kinds))], ml, cl, o.Shape))
	}
	if uniform && r.Intn(100) < o.FixedChance {
		g.Fixed = true
		g.Layout = layout
	}
	if n == 0 && !g.Fixed {
		g.Layout = geom.NoLayout
	}
	return g
}

// StdLayouts are the four layouts every codec knows.
var StdLayouts = []geom.Layout{geom.XY, geom.XYZ, geom.XYM, geom.XYZM}

// AllLayouts adds layouts beyond XYZM.
var AllLayouts = []geom.Layout{geom.XY, geom.XYZ, geom.XYM, geom.XYZM, geom.Layout(5), geom.Layout(6), geom.Layout(7), geom.Layout(8)}

// wideStrides are layouts far beyond XYZM: around powers of two and odd sizes.
var wideStrides = []int{9, 10, 12, 15, 16, 17, 24, 31, 32, 33, 48, 64, 65, 100}

// PickLayout draws from list, and one time in twelve a layout of 9..100 dimensions instead.
func PickLayout(r *fw.Rand, list []geom.Layout) geom.Layout {
	if r.Chance(1, 12) {
		return geom.Layout(wideStrides[r.Intn(len(wideStrides))])
	}
	return list[r.Intn(len(list))]
}
