// vcheck is the orchestrator (parent) and the worker (child) of the runtime
// monitors, in one binary compiled against /repo's working tree.
package main

import (
	"encoding/json"
	"flag"
	"fmt"
	"os"
	"strconv"

	"verifharness/fw"
	"verifharness/mon"
)

func seedFromEnv() uint64 {
	if s := os.Getenv("VERIF_SEED"); s != "" {
		if v, err := strconv.ParseUint(s, 10, 64); err == nil {
			return v
		}
		if v, err := strconv.ParseInt(s, 10, 64); err == nil {
			return uint64(v)
		}
	}
	return 1
}

func main() {
	if len(os.Args) < 2 {
		fmt.Fprintln(os.Stderr, "usage: vcheck run|worker|describe|replay|list ...")
		os.Exit(2)
	}
	switch os.Args[1] {
	case "list":
		for _, id := range fw.IDs() {
			fmt.Println(id)
		}
	case "run":
		fs := flag.NewFlagSet("run", flag.ExitOnError)
		prop := fs.String("prop", "", "property id")
		tier := fs.String("tier", "quick", "quick|thorough")
		fs.Parse(os.Args[2:])
		if t := os.Getenv("VERIF_TIER"); t == "quick" || t == "thorough" {
			// the command line decides; VERIF_TIER is informational
			_ = t
		}
		m, err := fw.Lookup(*prop)
		if err != nil {
			fmt.Printf("INCONCLUSIVE property=%s reason=%v\n", *prop, err)
			os.Exit(2)
		}
		exe, err := os.Executable()
		if err != nil {
			fmt.Printf("INCONCLUSIVE property=%s reason=%v\n", *prop, err)
			os.Exit(2)
		}
		work, err := fw.WorkDir(*prop)
		if err != nil {
			fmt.Printf("INCONCLUSIVE property=%s reason=%v\n", *prop, err)
			os.Exit(2)
		}
		p := &fw.Parent{M: m, Tier: *tier, Seed: seedFromEnv(), Exe: exe, Work: work}
		code := p.Run()
		os.RemoveAll(work)
		os.Exit(code)
	case "worker":
		fs := flag.NewFlagSet("worker", flag.ExitOnError)
		prop := fs.String("prop", "", "")
		tier := fs.String("tier", "quick", "")
		seed := fs.Uint64("seed", 1, "")
		class := fs.String("class", "", "")
		start := fs.Int("start", 0, "")
		count := fs.Int("count", 0, "")
		out := fs.String("out", "", "")
		fs.Parse(os.Args[2:])
		if err := fw.Worker(*prop, *tier, *seed, *class, *start, *count, *out); err != nil {
			fmt.Fprintln(os.Stderr, "worker:", err)
			os.Exit(3)
		}
	case "describe":
		fs := flag.NewFlagSet("describe", flag.ExitOnError)
		prop := fs.String("prop", "", "")
		tier := fs.String("tier", "quick", "")
		seed := fs.Uint64("seed", 1, "")
		class := fs.String("class", "", "")
		index := fs.Int("index", 0, "")
		fs.Parse(os.Args[2:])
		in, raw := fw.Describe(*prop, *tier, *seed, *class, *index)
		b, _ := json.Marshal(map[string]any{"input": in, "raw_hex": raw})
		os.Stdout.Write(b)
	case "race-worker":
		fs := flag.NewFlagSet("race-worker", flag.ExitOnError)
		seed := fs.Uint64("seed", 1, "")
		procs := fs.Int("procs", 8, "")
		tier := fs.String("tier", "quick", "")
		out := fs.String("out", "", "")
		fs.Parse(os.Args[2:])
		if err := mon.C17Worker(*seed, *procs, *tier, *out); err != nil {
			fmt.Fprintln(os.Stderr, "race-worker:", err)
			os.Exit(3)
		}
	case "replay":
		if len(os.Args) < 3 {
			fmt.Fprintln(os.Stderr, "usage: vcheck replay <file>")
			os.Exit(2)
		}
		os.Exit(fw.ReplayFile(os.Args[2]))
	default:
		fmt.Fprintln(os.Stderr, "unknown subcommand", os.Args[1])
		os.Exit(2)
	}
}
