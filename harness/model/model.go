// Package model mirrors a go-geom geometry as plain nested values.  It knows
// nothing about strides, end offsets or shared flat arrays: the monitors derive
// what the flat representation must be from it and compare bit for bit.
package model

import (
	"fmt"
	"math"
	"strings"

	geom "github.com/twpayne/go-geom"
)

type Kind int

const (
	Point Kind = iota
	LineString
	LinearRing
	Polygon
	MultiPoint
	MultiLineString
	MultiPolygon
	Collection
)

var kindNames = [...]string{"Point", "LineString", "LinearRing", "Polygon", "MultiPoint", "MultiLineString", "MultiPolygon", "GeometryCollection"}

func (k Kind) String() string { return kindNames[k] }

// G is the model of one geometry.
//
//	Point:            C0 (nil = empty point)
//	LineString/Ring:  C1
//	MultiPoint:       C1, a nil member is an empty point
//	Polygon/MLS:      C2
//	MultiPolygon:     C3
//	Collection:       Members; Fixed says the collection carries a fixed layout
type G struct {
	Kind    Kind
	Layout  geom.Layout
	SRID    int
	C0      []float64
	C1      [][]float64
	C2      [][][]float64
	C3      [][][][]float64
	Members []*G
	Fixed   bool
}

func bitsEq(a, b []float64) bool {
	if len(a) != len(b) {
		return false
	}
	for i := range a {
		if math.Float64bits(a[i]) != math.Float64bits(b[i]) {
			return false
		}
	}
	return true
}

// BitsEq compares two float slices by length and bit pattern (nil == empty).
func BitsEq(a, b []float64) bool { return bitsEq(a, b) }

func IntsEq(a, b []int) bool {
	if len(a) != len(b) {
		return false
	}
	for i := range a {
		if a[i] != b[i] {
			return false
		}
	}
	return true
}

// CollectionLayout is the layout a collection reports: its fixed layout, or the
// join of its members' layouts (XYZ joined with XYM is XYZM).
func (g *G) CollectionLayout() geom.Layout {
	if g.Kind != Collection {
		return g.Layout
	}
	if g.Fixed {
		return g.Layout
	}
	l := geom.NoLayout
	for _, m := range g.Members {
		ml := m.CollectionLayout()
		switch {
		case ml == geom.XYZ && l == geom.XYM, ml == geom.XYM && l == geom.XYZ:
			l = geom.XYZM
		case ml > l:
			l = ml
		}
	}
	return l
}

// IsEmpty says whether the geometry has no coordinates at all.
func (g *G) IsEmpty() bool {
	switch g.Kind {
	case Point:
		return len(g.C0) == 0
	case LineString, LinearRing:
		return len(g.C1) == 0
	case MultiPoint:
		for _, c := range g.C1 {
			if len(c) > 0 {
				return false
			}
		}
		return true
	case Polygon, MultiLineString:
		for _, l := range g.C2 {
			if len(l) > 0 {
				return false
			}
		}
		return true
	case MultiPolygon:
		for _, p := range g.C3 {
			for _, l := range p {
				if len(l) > 0 {
					return false
				}
			}
		}
		return true
	default:
		for _, m := range g.Members {
			if !m.IsEmpty() {
				return false
			}
		}
		return true
	}
}

// Flat returns the flat coordinate array and end offsets the geometry must have
// (prefix sums over the nested model).
func (g *G) Flat() (flat []float64, ends []int, endss [][]int) {
	switch g.Kind {
	case Point:
		flat = append(flat, g.C0...)
	case LineString, LinearRing:
		for _, c := range g.C1 {
			flat = append(flat, c...)
		}
	case MultiPoint:
		for _, c := range g.C1 {
			flat = append(flat, c...)
			ends = append(ends, len(flat))
		}
	case Polygon, MultiLineString:
		for _, l := range g.C2 {
			for _, c := range l {
				flat = append(flat, c...)
			}
			ends = append(ends, len(flat))
		}
	case MultiPolygon:
		for _, p := range g.C3 {
			var e []int
			for _, l := range p {
				for _, c := range l {
					flat = append(flat, c...)
				}
				e = append(e, len(flat))
			}
			endss = append(endss, e)
		}
	}
	return
}

// AllCoords returns every coordinate of the geometry (recursively), in order.
func (g *G) AllCoords() [][]float64 {
	var out [][]float64
	switch g.Kind {
	case Point:
		if len(g.C0) > 0 {
			out = append(out, g.C0)
		}
	case LineString, LinearRing:
		out = append(out, g.C1...)
	case MultiPoint:
		for _, c := range g.C1 {
			if len(c) > 0 {
				out = append(out, c)
			}
		}
	case Polygon, MultiLineString:
		for _, l := range g.C2 {
			out = append(out, l...)
		}
	case MultiPolygon:
		for _, p := range g.C3 {
			for _, l := range p {
				out = append(out, l...)
			}
		}
	case Collection:
		for _, m := range g.Members {
			out = append(out, m.AllCoords()...)
		}
	}
	return out
}

func toCoords1(c1 [][]float64, keepNil bool) []geom.Coord {
	out := make([]geom.Coord, len(c1))
	for i, c := range c1 {
		if c == nil && keepNil {
			continue
		}
		out[i] = geom.Coord(c)
	}
	return out
}

func toCoords2(c2 [][][]float64) [][]geom.Coord {
	out := make([][]geom.Coord, len(c2))
	for i, l := range c2 {
		out[i] = toCoords1(l, false)
	}
	return out
}

func toCoords3(c3 [][][][]float64) [][][]geom.Coord {
	out := make([][][]geom.Coord, len(c3))
	for i, p := range c3 {
		out[i] = toCoords2(p)
	}
	return out
}

// Coords1 etc. expose the nested coordinates in go-geom's argument types.
func (g *G) Coords1() []geom.Coord     { return toCoords1(g.C1, g.Kind == MultiPoint) }
func (g *G) Coords2() [][]geom.Coord   { return toCoords2(g.C2) }
func (g *G) Coords3() [][][]geom.Coord { return toCoords3(g.C3) }

// Build constructs the go-geom geometry through the public constructors and
// SetCoords (the nested-coordinate path).
func (g *G) Build() (geom.T, error) {
	switch g.Kind {
	case Point:
		if g.C0 == nil {
			return geom.NewPointEmpty(g.Layout).SetSRID(g.SRID), nil
		}
		p, err := geom.NewPoint(g.Layout).SetCoords(geom.Coord(g.C0))
		if err != nil {
			return nil, err
		}
		return p.SetSRID(g.SRID), nil
	case LineString:
		t, err := geom.NewLineString(g.Layout).SetCoords(g.Coords1())
		if err != nil {
			return nil, err
		}
		return t.SetSRID(g.SRID), nil
	case LinearRing:
		t, err := geom.NewLinearRing(g.Layout).SetCoords(g.Coords1())
		if err != nil {
			return nil, err
		}
		return t.SetSRID(g.SRID), nil
	case Polygon:
		t, err := geom.NewPolygon(g.Layout).SetCoords(g.Coords2())
		if err != nil {
			return nil, err
		}
		return t.SetSRID(g.SRID), nil
	case MultiPoint:
		t, err := geom.NewMultiPoint(g.Layout).SetCoords(g.Coords1())
		if err != nil {
			return nil, err
		}
		return t.SetSRID(g.SRID), nil
	case MultiLineString:
		t, err := geom.NewMultiLineString(g.Layout).SetCoords(g.Coords2())
		if err != nil {
			return nil, err
		}
		return t.SetSRID(g.SRID), nil
	case MultiPolygon:
		t, err := geom.NewMultiPolygon(g.Layout).SetCoords(g.Coords3())
		if err != nil {
			return nil, err
		}
		return t.SetSRID(g.SRID), nil
	case Collection:
		gc := geom.NewGeometryCollection()
		for _, m := range g.Members {
			mt, err := m.Build()
			if err != nil {
				return nil, err
			}
			if err := gc.Push(mt); err != nil {
				return nil, err
			}
		}
		if g.Fixed {
			if err := gc.SetLayout(g.Layout); err != nil {
				return nil, err
			}
		}
		gc.SetSRID(g.SRID)
		return gc, nil
	}
	return nil, fmt.Errorf("model: unknown kind %d", g.Kind)
}

// BuildFlat constructs the geometry through the New*Flat constructors from the
// model's own prefix sums (independent of go-geom's deflate code).
func (g *G) BuildFlat() geom.T {
	flat, ends, endss := g.Flat()
	switch g.Kind {
	case Point:
		if g.C0 == nil {
			return geom.NewPointFlat(g.Layout, nil).SetSRID(g.SRID)
		}
		return geom.NewPointFlat(g.Layout, flat).SetSRID(g.SRID)
	case LineString:
		return geom.NewLineStringFlat(g.Layout, flat).SetSRID(g.SRID)
	case LinearRing:
		return geom.NewLinearRingFlat(g.Layout, flat).SetSRID(g.SRID)
	case Polygon:
		return geom.NewPolygonFlat(g.Layout, flat, ends).SetSRID(g.SRID)
	case MultiPoint:
		return geom.NewMultiPointFlat(g.Layout, flat, geom.NewMultiPointFlatOptionWithEnds(ends)).SetSRID(g.SRID)
	case MultiLineString:
		return geom.NewMultiLineStringFlat(g.Layout, flat, ends).SetSRID(g.SRID)
	case MultiPolygon:
		return geom.NewMultiPolygonFlat(g.Layout, flat, endss).SetSRID(g.SRID)
	case Collection:
		gc := geom.NewGeometryCollection()
		for _, m := range g.Members {
			if err := gc.Push(m.BuildFlat()); err != nil {
				panic(err)
			}
		}
		if g.Fixed {
			if err := gc.SetLayout(g.Layout); err != nil {
				panic(err)
			}
		}
		gc.SetSRID(g.SRID)
		return gc
	}
	panic("model: unknown kind")
}

func splitStride(flat []float64, from, to, stride int) [][]float64 {
	var out [][]float64
	if stride <= 0 {
		return nil
	}
	for i := from; i+stride <= to; i += stride {
		c := make([]float64, stride)
		copy(c, flat[i:i+stride])
		out = append(out, c)
	}
	return out
}

// FromGeom reads a go-geom geometry back into a model using only Layout, SRID,
// FlatCoords, Ends and Endss (independent of go-geom's inflate code).  The
// geometry is assumed well formed (check WF first).
func FromGeom(t geom.T) *G {
	switch x := t.(type) {
	case *geom.Point:
		g := &G{Kind: Point, Layout: x.Layout(), SRID: x.SRID()}
		if len(x.FlatCoords()) > 0 {
			g.C0 = append([]float64{}, x.FlatCoords()...)
		}
		return g
	case *geom.LineString:
		return &G{Kind: LineString, Layout: x.Layout(), SRID: x.SRID(), C1: splitStride(x.FlatCoords(), 0, len(x.FlatCoords()), x.Stride())}
	case *geom.LinearRing:
		return &G{Kind: LinearRing, Layout: x.Layout(), SRID: x.SRID(), C1: splitStride(x.FlatCoords(), 0, len(x.FlatCoords()), x.Stride())}
	case *geom.MultiPoint:
		g := &G{Kind: MultiPoint, Layout: x.Layout(), SRID: x.SRID()}
		off := 0
		for _, e := range x.Ends() {
			if e == off {
				g.C1 = append(g.C1, nil)
			} else {
				c := make([]float64, e-off)
				copy(c, x.FlatCoords()[off:e])
				g.C1 = append(g.C1, c)
			}
			off = e
		}
		return g
	case *geom.Polygon:
		g := &G{Kind: Polygon, Layout: x.Layout(), SRID: x.SRID()}
		off := 0
		for _, e := range x.Ends() {
			g.C2 = append(g.C2, splitStride(x.FlatCoords(), off, e, x.Stride()))
			off = e
		}
		return g
	case *geom.MultiLineString:
		g := &G{Kind: MultiLineString, Layout: x.Layout(), SRID: x.SRID()}
		off := 0
		for _, e := range x.Ends() {
			g.C2 = append(g.C2, splitStride(x.FlatCoords(), off, e, x.Stride()))
			off = e
		}
		return g
	case *geom.MultiPolygon:
		g := &G{Kind: MultiPolygon, Layout: x.Layout(), SRID: x.SRID()}
		off := 0
		for _, es := range x.Endss() {
			var p [][][]float64
			for _, e := range es {
				p = append(p, splitStride(x.FlatCoords(), off, e, x.Stride()))
				off = e
			}
			g.C3 = append(g.C3, p)
		}
		return g
	case *geom.GeometryCollection:
		g := &G{Kind: Collection, Layout: x.Layout(), SRID: x.SRID()}
		for _, m := range x.Geoms() {
			g.Members = append(g.Members, FromGeom(m))
		}
		// Record what the collection *reports*; Equal then compares it with the
		// join the model computes from the members.
		g.Fixed = true
		return g
	}
	return nil
}

func eq1(a, b [][]float64) bool {
	if len(a) != len(b) {
		return false
	}
	for i := range a {
		if !bitsEq(a[i], b[i]) {
			return false
		}
	}
	return true
}

func eq2(a, b [][][]float64) bool {
	if len(a) != len(b) {
		return false
	}
	for i := range a {
		if !eq1(a[i], b[i]) {
			return false
		}
	}
	return true
}

// Opts relaxes Equal where a format cannot carry a field.
type Opts struct {
	IgnoreSRID bool
}

// Equal compares two models: kind, layout (for collections: the reported
// layout), SRID, structure and every coordinate bit.  It returns "" when equal,
// otherwise a description of the first difference.
func Equal(a, b *G, o Opts) string {
	if a == nil || b == nil {
		if a == b {
			return ""
		}
		return "one side is nil"
	}
	if a.Kind != b.Kind {
		return fmt.Sprintf("kind %s vs %s", a.Kind, b.Kind)
	}
	if a.CollectionLayout() != b.CollectionLayout() {
		return fmt.Sprintf("%s layout %s vs %s", a.Kind, a.CollectionLayout(), b.CollectionLayout())
	}
	if !o.IgnoreSRID && a.SRID != b.SRID {
		return fmt.Sprintf("%s srid %d vs %d", a.Kind, a.SRID, b.SRID)
	}
	switch a.Kind {
	case Point:
		if !bitsEq(a.C0, b.C0) {
			return fmt.Sprintf("point coords %v vs %v", a.C0, b.C0)
		}
	case LineString, LinearRing, MultiPoint:
		if !eq1(a.C1, b.C1) {
			return fmt.Sprintf("%s coords differ: %d vs %d members", a.Kind, len(a.C1), len(b.C1))
		}
	case Polygon, MultiLineString:
		if !eq2(a.C2, b.C2) {
			return fmt.Sprintf("%s coords differ: %d vs %d parts", a.Kind, len(a.C2), len(b.C2))
		}
	case MultiPolygon:
		if len(a.C3) != len(b.C3) {
			return fmt.Sprintf("multipolygon %d vs %d polygons", len(a.C3), len(b.C3))
		}
		for i := range a.C3 {
			if !eq2(a.C3[i], b.C3[i]) {
				return fmt.Sprintf("multipolygon polygon %d differs", i)
			}
		}
	case Collection:
		if len(a.Members) != len(b.Members) {
			return fmt.Sprintf("collection %d vs %d members", len(a.Members), len(b.Members))
		}
		for i := range a.Members {
			if d := Equal(a.Members[i], b.Members[i], o); d != "" {
				return fmt.Sprintf("member %d: %s", i, d)
			}
		}
	}
	return ""
}

func capn(n int) int {
	if n > 3 {
		return 3
	}
	return n
}

// Sig is the shape signature: kind, layout and the nested length pattern with
// counts capped at 3.
func (g *G) Sig() string {
	var sb strings.Builder
	g.sig(&sb)
	return sb.String()
}

func (g *G) sig(sb *strings.Builder) {
	fmt.Fprintf(sb, "%s/%s", g.Kind, g.Layout)
	switch g.Kind {
	case Point:
		fmt.Fprintf(sb, "[%d]", capn(len(g.C0)))
	case LineString, LinearRing:
		fmt.Fprintf(sb, "[%d]", capn(len(g.C1)))
	case MultiPoint:
		sb.WriteByte('[')
		for _, c := range g.C1 {
			if len(c) == 0 {
				sb.WriteByte('0')
			} else {
				sb.WriteByte('1')
			}
		}
		sb.WriteByte(']')
	case Polygon, MultiLineString:
		sb.WriteByte('[')
		for _, l := range g.C2 {
			fmt.Fprintf(sb, "%d", capn(len(l)))
		}
		sb.WriteByte(']')
	case MultiPolygon:
		sb.WriteByte('[')
		for _, p := range g.C3 {
			sb.WriteByte('(')
			for _, l := range p {
				fmt.Fprintf(sb, "%d", capn(len(l)))
			}
			sb.WriteByte(')')
		}
		sb.WriteByte(']')
	case Collection:
		if g.Fixed {
			sb.WriteString("fixed")
		}
		sb.WriteByte('{')
		for i, m := range g.Members {
			if i > 0 {
				sb.WriteByte(',')
			}
			m.sig(sb)
		}
		sb.WriteByte('}')
	}
}

// HasEmptyBetween says whether the geometry has an empty component strictly
// between (or before) non-empty ones - the offset re-basing corner.
func (g *G) HasEmptyBetween() bool {
	pat := func(lens []int) bool {
		seenEmpty := false
		for _, n := range lens {
			if n == 0 {
				seenEmpty = true
			} else if seenEmpty {
				return true
			}
		}
		return false
	}
	switch g.Kind {
	case MultiPoint:
		var l []int
		for _, c := range g.C1 {
			l = append(l, len(c))
		}
		return pat(l)
	case Polygon, MultiLineString:
		var l []int
		for _, c := range g.C2 {
			l = append(l, len(c))
		}
		return pat(l)
	case MultiPolygon:
		var l []int
		for _, p := range g.C3 {
			n := 0
			for _, r := range p {
				n += len(r)
			}
			l = append(l, n)
			var rl []int
			for _, r := range p {
				rl = append(rl, len(r))
			}
			if pat(rl) {
				return true
			}
		}
		return pat(l)
	case Collection:
		for _, m := range g.Members {
			if m.HasEmptyBetween() {
				return true
			}
		}
	}
	return false
}

// String renders the model for replay files.
func (g *G) String() string {
	var sb strings.Builder
	g.str(&sb)
	return sb.String()
}

func fs(c []float64) string {
	if c == nil {
		return "nil"
	}
	parts := make([]string, len(c))
	for i, f := range c {
		if math.IsNaN(f) {
			parts[i] = fmt.Sprintf("NaN(%#x)", math.Float64bits(f))
		} else if f == 0 && math.Signbit(f) {
			parts[i] = "-0"
		} else {
			parts[i] = fmt.Sprintf("%v", f)
		}
	}
	return "(" + strings.Join(parts, " ") + ")"
}

func (g *G) str(sb *strings.Builder) {
	fmt.Fprintf(sb, "%s %s", g.Kind, g.Layout)
	if g.SRID != 0 {
		fmt.Fprintf(sb, " srid=%d", g.SRID)
	}
	sb.WriteByte(' ')
	w1 := func(c1 [][]float64) {
		sb.WriteByte('[')
		for i, c := range c1 {
			if i > 0 {
				sb.WriteByte(',')
			}
			sb.WriteString(fs(c))
		}
		sb.WriteByte(']')
	}
	w2 := func(c2 [][][]float64) {
		sb.WriteByte('[')
		for i, l := range c2 {
			if i > 0 {
				sb.WriteByte(',')
			}
			w1(l)
		}
		sb.WriteByte(']')
	}
	switch g.Kind {
	case Point:
		sb.WriteString(fs(g.C0))
	case LineString, LinearRing, MultiPoint:
		w1(g.C1)
	case Polygon, MultiLineString:
		w2(g.C2)
	case MultiPolygon:
		sb.WriteByte('[')
		for i, p := range g.C3 {
			if i > 0 {
				sb.WriteByte(',')
			}
			w2(p)
		}
		sb.WriteByte(']')
	case Collection:
		if g.Fixed {
			sb.WriteString("fixed ")
		}
		sb.WriteByte('{')
		for i, m := range g.Members {
			if i > 0 {
				sb.WriteString("; ")
			}
			m.str(sb)
		}
		sb.WriteByte('}')
	}
}

// Clone deep-copies a model.
func (g *G) Clone() *G {
	n := &G{Kind: g.Kind, Layout: g.Layout, SRID: g.SRID, Fixed: g.Fixed}
	cp := func(c []float64) []float64 {
		if c == nil {
			return nil
		}
		return append([]float64{}, c...)
	}
	cp1 := func(c1 [][]float64) [][]float64 {
		if c1 == nil {
			return nil
		}
		out := make([][]float64, len(c1))
		for i := range c1 {
			out[i] = cp(c1[i])
		}
		return out
	}
	cp2 := func(c2 [][][]float64) [][][]float64 {
		if c2 == nil {
			return nil
		}
		out := make([][][]float64, len(c2))
		for i := range c2 {
			out[i] = cp1(c2[i])
		}
		return out
	}
	n.C0 = cp(g.C0)
	n.C1 = cp1(g.C1)
	n.C2 = cp2(g.C2)
	if g.C3 != nil {
		n.C3 = make([][][][]float64, len(g.C3))
		for i := range g.C3 {
			n.C3[i] = cp2(g.C3[i])
		}
	}
	for _, m := range g.Members {
		n.Members = append(n.Members, m.Clone())
	}
	return n
}

// Shape renders kind, layout and every nested length (uncapped): two models with
// the same Shape differ at most in ordinate values.
func (g *G) Shape() string {
	var sb strings.Builder
	g.shape(&sb)
	return sb.String()
}

func (g *G) shape(sb *strings.Builder) {
	fmt.Fprintf(sb, "%s/%s", g.Kind, g.CollectionLayout())
	switch g.Kind {
	case Point:
		fmt.Fprintf(sb, "[%d]", len(g.C0))
	case LineString, LinearRing, MultiPoint:
		sb.WriteByte('[')
		for _, c := range g.C1 {
			fmt.Fprintf(sb, "%d,", len(c))
		}
		sb.WriteByte(']')
	case Polygon, MultiLineString:
		sb.WriteByte('[')
		for _, l := range g.C2 {
			sb.WriteByte('(')
			for _, c := range l {
				fmt.Fprintf(sb, "%d,", len(c))
			}
			sb.WriteByte(')')
		}
		sb.WriteByte(']')
	case MultiPolygon:
		sb.WriteByte('[')
		for _, p := range g.C3 {
			sb.WriteByte('{')
			for _, l := range p {
				sb.WriteByte('(')
				for _, c := range l {
					fmt.Fprintf(sb, "%d,", len(c))
				}
				sb.WriteByte(')')
			}
			sb.WriteByte('}')
		}
		sb.WriteByte(']')
	case Collection:
		sb.WriteByte('<')
		for _, m := range g.Members {
			m.shape(sb)
			sb.WriteByte(';')
		}
		sb.WriteByte('>')
	}
}
