package model

import (
	"fmt"

	geom "github.com/twpayne/go-geom"
)

// WF is the well-formedness monitor, written from the statement of C01 (not from
// go-geom's verify()): stride == layout dimension; the flat array holds a whole
// number of coordinates (none at all when the stride is 0); end offsets are
// stride-aligned, non-decreasing over the whole geometry and finish exactly at
// the end of the coordinates; a point has 0 or stride ordinates; multipoint steps
// are 0 or stride; collections recurse.
func WF(t geom.T) error {
	if t == nil {
		return fmt.Errorf("nil geometry")
	}
	if gc, ok := t.(*geom.GeometryCollection); ok {
		if gc == nil {
			return fmt.Errorf("nil *GeometryCollection")
		}
		for i, m := range gc.Geoms() {
			if m == nil {
				return fmt.Errorf("collection member %d is nil", i)
			}
			if err := WF(m); err != nil {
				return fmt.Errorf("collection member %d: %w", i, err)
			}
		}
		return nil
	}
	layout := t.Layout()
	stride := t.Stride()
	if layout < 0 {
		return fmt.Errorf("negative layout %d", int(layout))
	}
	if stride != layout.Stride() {
		return fmt.Errorf("stride %d != dimension %d of layout %s", stride, layout.Stride(), layout)
	}
	if int(layout) > 4 && stride != int(layout) {
		return fmt.Errorf("Layout(%d) with stride %d", int(layout), stride)
	}
	flat := t.FlatCoords()
	ends := t.Ends()
	endss := t.Endss()
	if stride == 0 {
		if len(flat) != 0 {
			return fmt.Errorf("stride 0 with %d ordinates", len(flat))
		}
		if len(endss) != 0 {
			return fmt.Errorf("stride 0 with %d endss", len(endss))
		}
		for _, e := range ends {
			if e != 0 {
				return fmt.Errorf("stride 0 with non-zero end %d", e)
			}
		}
		if _, isMP := t.(*geom.MultiPoint); !isMP && len(ends) != 0 {
			return fmt.Errorf("stride 0 with %d ends", len(ends))
		}
		return nil
	}
	if len(flat)%stride != 0 {
		return fmt.Errorf("%d ordinates is not a whole number of %d-coordinates", len(flat), stride)
	}
	checkEnds := func(off int, es []int, step bool) (int, error) {
		for i, e := range es {
			if e%stride != 0 {
				return off, fmt.Errorf("end[%d]=%d not aligned to stride %d", i, e, stride)
			}
			if e < off {
				return off, fmt.Errorf("end[%d]=%d decreases (previous %d)", i, e, off)
			}
			if step && e-off != 0 && e-off != stride {
				return off, fmt.Errorf("multipoint step %d at end[%d]", e-off, i)
			}
			off = e
		}
		return off, nil
	}
	switch t.(type) {
	case *geom.Point:
		if len(flat) != 0 && len(flat) != stride {
			return fmt.Errorf("point with %d ordinates, stride %d", len(flat), stride)
		}
		if len(ends) != 0 || len(endss) != 0 {
			return fmt.Errorf("point with ends")
		}
	case *geom.LineString, *geom.LinearRing:
		if len(ends) != 0 || len(endss) != 0 {
			return fmt.Errorf("linestring/ring with ends")
		}
	case *geom.MultiPoint:
		off, err := checkEnds(0, ends, true)
		if err != nil {
			return err
		}
		if off != len(flat) {
			return fmt.Errorf("last end %d != %d ordinates", off, len(flat))
		}
	case *geom.Polygon, *geom.MultiLineString:
		off, err := checkEnds(0, ends, false)
		if err != nil {
			return err
		}
		if off != len(flat) {
			return fmt.Errorf("last end %d != %d ordinates", off, len(flat))
		}
	case *geom.MultiPolygon:
		if len(ends) != 0 {
			return fmt.Errorf("multipolygon with ends")
		}
		off := 0
		for i, es := range endss {
			var err error
			off, err = checkEnds(off, es, false)
			if err != nil {
				return fmt.Errorf("polygon %d: %w", i, err)
			}
		}
		if off != len(flat) {
			return fmt.Errorf("last end %d != %d ordinates", off, len(flat))
		}
	default:
		return fmt.Errorf("unknown geometry type %T", t)
	}
	return nil
}
