// Package fw is the small framework shared by all monitors: deterministic
// randomness, per-run observation context, worker/parent protocol, evidence.
package fw

import "math"

// Rand is a splitmix64 stream.  Every case gets its own stream derived from
// (seed, property, class, index) so that a case is reproducible in isolation.
type Rand struct{ s uint64 }

func mix(z uint64) uint64 {
	z += 0x9e3779b97f4a7c15
	z = (z ^ (z >> 30)) * 0xbf58476d1ce4e5b9
	z = (z ^ (z >> 27)) * 0x94d049bb133111eb
	return z ^ (z >> 31)
}

// HashString is FNV-1a 64 followed by a splitmix finaliser.
func HashString(s string) uint64 {
	h := uint64(0xcbf29ce484222325)
	for i := 0; i < len(s); i++ {
		h ^= uint64(s[i])
		h *= 0x100000001b3
	}
	return mix(h)
}

// NewRand derives the stream of one case.
func NewRand(seed uint64, prop, class string, idx int) *Rand {
	s := mix(seed ^ 0x5851f42d4c957f2d)
	s = mix(s ^ HashString(prop))
	s = mix(s ^ HashString(class))
	s = mix(s ^ uint64(idx)*0x9e3779b97f4a7c15)
	return &Rand{s: s}
}

func (r *Rand) Uint64() uint64 {
	r.s += 0x9e3779b97f4a7c15
	z := r.s
	z = (z ^ (z >> 30)) * 0xbf58476d1ce4e5b9
	z = (z ^ (z >> 27)) * 0x94d049bb133111eb
	return z ^ (z >> 31)
}

// Intn returns a value in [0,n).  n must be > 0.
func (r *Rand) Intn(n int) int {
	if n <= 0 {
		panic("fw.Rand.Intn: n <= 0")
	}
	return int(r.Uint64() % uint64(n))
}

// Range returns a value in [lo,hi].
func (r *Rand) Range(lo, hi int) int { return lo + r.Intn(hi-lo+1) }

func (r *Rand) Bool() bool { return r.Uint64()&1 == 1 }

// Chance is true with probability num/den.
func (r *Rand) Chance(num, den int) bool { return r.Intn(den) < num }

// Float01 returns a float in [0,1).
func (r *Rand) Float01() float64 { return float64(r.Uint64()>>11) / (1 << 53) }

// FiniteBits returns a uniformly random finite float64 bit pattern.
func (r *Rand) FiniteBits() float64 {
	for {
		f := math.Float64frombits(r.Uint64())
		if !math.IsNaN(f) && !math.IsInf(f, 0) {
			return f
		}
	}
}

// Perm returns a random permutation of 0..n-1.
func (r *Rand) Perm(n int) []int {
	p := make([]int, n)
	for i := range p {
		p[i] = i
	}
	for i := n - 1; i > 0; i-- {
		j := r.Intn(i + 1)
		p[i], p[j] = p[j], p[i]
	}
	return p
}
