package fw

import (
	"fmt"
	"sort"
)

// Class is one workload class of a monitor: a deterministic, indexable list of cases.
type Class struct {
	Name     string
	Quick    int // number of cases in the quick tier
	Thorough int // number of cases in the thorough tier
	Chunk    int // cases per worker job (0 = automatic)
	// Run evaluates case idx.  All randomness must come from c.R.
	Run func(c *Ctx, idx int)
	// Exhaustive marks a class that enumerates a finite sub-space completely
	// (the count is then the size of that space, not a sample size).
	Exhaustive string
	// RawReplay, if set, re-evaluates a byte-string input found elsewhere (fuzzing).
	RawReplay func(c *Ctx, raw []byte)
}

func (cl *Class) N(tier string) int {
	if tier == "thorough" {
		return cl.Thorough
	}
	return cl.Quick
}

// Monitor is the runtime monitor of one property.
type Monitor struct {
	ID      string
	Title   string
	Rule    string   // how cases are generated and what makes one distinct/non-trivial
	Assume  []string // assumptions / trusted base
	Classes []Class
	// Require lists counters that must be non-zero after the run; otherwise the
	// run is inconclusive (a monitor that saw nothing must not pass).
	Require []string
	// MemLimitKB is applied to workers with ulimit -v (0 = default 4 GB, negative = no limit).
	MemLimitKB int
	// MemDeathIsViolation: a worker that dies of memory exhaustion under the limit
	// is a finding of this monitor (C04: the decoder must refuse a forged count
	// before allocating for it); otherwise such a death is re-run without the limit.
	MemDeathIsViolation bool
	// Special, if set, replaces the generic parent (used by the race monitor).
	Special func(p *Parent) int
	// Extra runs in the parent after all classes (e.g. coverage-guided fuzzing in
	// the thorough tier).  It may add violations/counters to the summary.
	Extra func(p *Parent, s *Summary)
}

var registry = map[string]*Monitor{}

func Register(m *Monitor) {
	if _, dup := registry[m.ID]; dup {
		panic("duplicate monitor " + m.ID)
	}
	registry[m.ID] = m
}

func Lookup(id string) (*Monitor, error) {
	m, ok := registry[id]
	if !ok {
		return nil, fmt.Errorf("no monitor for property %q", id)
	}
	return m, nil
}

func IDs() []string {
	var ids []string
	for id := range registry {
		ids = append(ids, id)
	}
	sort.Strings(ids)
	return ids
}

func (m *Monitor) class(name string) *Class {
	for i := range m.Classes {
		if m.Classes[i].Name == name {
			return &m.Classes[i]
		}
	}
	return nil
}
