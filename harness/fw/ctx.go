package fw

import (
	"fmt"
	"math"
	"runtime/debug"
	"sort"
	"strconv"
	"strings"
)

// Violation is one refuting observation, with everything needed to find it again.
type Violation struct {
	Prop   string `json:"property"`
	Class  string `json:"class"`
	Index  int    `json:"index"`
	Seed   uint64 `json:"seed"`
	Tier   string `json:"tier"`
	Kind   string `json:"kind"`
	Detail string `json:"detail"`
	Key    string `json:"key"`
	Input  any    `json:"input"`
	RawHex string `json:"raw_hex,omitempty"`
}

const maxViolationsPerJob = 25
const maxDistinctPerJob = 1 << 21

type describeAbort struct{}

// Ctx collects what one worker observed.
type Ctx struct {
	Prop  string
	Tier  string
	Class string
	Seed  uint64
	Index int
	R     *Rand

	Evals      int64
	Counters   map[string]int64
	Maxes      map[string]float64
	Samples    []any
	Violations []Violation
	distinct   map[uint64]struct{}

	input        any
	rawHex       string
	describeOnly bool
	suppressed   int
}

func NewCtx(prop, tier string, seed uint64) *Ctx {
	return &Ctx{
		Prop: prop, Tier: tier, Seed: seed,
		Counters: map[string]int64{},
		Maxes:    map[string]float64{},
		distinct: map[uint64]struct{}{},
	}
}

func (c *Ctx) Thorough() bool { return c.Tier == "thorough" }

// Eval counts n evaluations (calls into go-geom judged by an oracle).
func (c *Ctx) Eval(n int) { c.Evals += int64(n) }

func (c *Ctx) Count(name string)           { c.Counters[name]++ }
func (c *Ctx) CountN(name string, n int64) { c.Counters[name] += n }

// Max keeps the largest value seen under a name (e.g. error/bound ratios).
func (c *Ctx) Max(name string, v float64) {
	if math.IsNaN(v) {
		return
	}
	if old, ok := c.Maxes[name]; !ok || v > old {
		c.Maxes[name] = v
	}
}

// Distinct records the signature of a non-trivial case.  The number of distinct
// signatures over the whole run is what the evidence reports.
func (c *Ctx) Distinct(sig string) {
	if len(c.distinct) >= maxDistinctPerJob {
		return
	}
	c.distinct[HashString(sig)] = struct{}{}
}

func (c *Ctx) DistinctHashes() []uint64 {
	out := make([]uint64, 0, len(c.distinct))
	for h := range c.distinct {
		out = append(out, h)
	}
	sort.Slice(out, func(i, j int) bool { return out[i] < out[j] })
	return out
}

// Sample keeps a few materialised cases for the evidence file.
func (c *Ctx) Sample(v any) {
	if len(c.Samples) < 3 {
		c.Samples = append(c.Samples, v)
	}
}

// WantSample says whether another sample would be kept (to avoid building it).
func (c *Ctx) WantSample() bool { return len(c.Samples) < 3 }

// SetInput declares the input about to be handed to go-geom.  It must be called
// before the call, so that a panic or a process death can be attributed.
func (c *Ctx) SetInput(v any) {
	c.input = v
	c.rawHex = ""
	if c.describeOnly {
		panic(describeAbort{})
	}
}

// SetRawInput is SetInput for byte-string inputs that a replay should reuse verbatim.
func (c *Ctx) SetRawInput(v any, raw []byte) {
	c.input = v
	c.rawHex = fmt.Sprintf("%x", raw)
	if c.describeOnly {
		panic(describeAbort{})
	}
}

func (c *Ctx) Input() any { return c.input }

// Fail records a violation for the current input.
func (c *Ctx) Fail(kind, format string, args ...any) {
	c.FailKey("", kind, format, args...)
}

// FailKey records a violation with an explicit canonical witness key (used to
// match entries of known_findings.txt).  With key == "" the key is kind + input.
func (c *Ctx) FailKey(key, kind, format string, args ...any) {
	if len(c.Violations) >= maxViolationsPerJob {
		c.suppressed++
		return
	}
	detail := fmt.Sprintf(format, args...)
	if len(detail) > 4000 {
		detail = detail[:4000] + "...(truncated)"
	}
	if key == "" {
		key = kind + ":" + Canon(c.input)
	}
	c.Violations = append(c.Violations, Violation{
		Prop: c.Prop, Class: c.Class, Index: c.Index, Seed: c.Seed, Tier: c.Tier,
		Kind: kind, Detail: detail, Key: key, Input: c.input, RawHex: c.rawHex,
	})
}

// Guard runs f and turns a panic into a violation of the given kind.  It returns
// true if f panicked.
func (c *Ctx) Guard(kind string, f func()) (panicked bool) {
	defer func() {
		if r := recover(); r != nil {
			if _, ok := r.(describeAbort); ok {
				panic(r)
			}
			panicked = true
			st := string(debug.Stack())
			c.Fail(kind, "panic: %v\n%s", r, trimStack(st))
		}
	}()
	f()
	return false
}

// Try runs f and reports whether it panicked, without recording anything.
func Try(f func()) (panicked bool, val any) {
	defer func() {
		if r := recover(); r != nil {
			if _, ok := r.(describeAbort); ok {
				panic(r)
			}
			panicked = true
			val = r
		}
	}()
	f()
	return false, nil
}

func trimStack(st string) string {
	lines := strings.Split(st, "\n")
	var keep []string
	for _, l := range lines {
		if strings.Contains(l, "go-geom") || strings.Contains(l, "/repo/") {
			keep = append(keep, strings.TrimSpace(l))
		}
		if len(keep) >= 12 {
			break
		}
	}
	return strings.Join(keep, "\n")
}

// F formats a float so that it can be read back exactly (NaN payloads included).
func F(f float64) string {
	if math.IsNaN(f) {
		return fmt.Sprintf("NaN(%#x)", math.Float64bits(f))
	}
	if f == 0 && math.Signbit(f) {
		return "-0"
	}
	return strconv.FormatFloat(f, 'g', -1, 64)
}

// Fs formats a float slice.
func Fs(fs []float64) string {
	if fs == nil {
		return "nil"
	}
	var sb strings.Builder
	sb.WriteByte('[')
	for i, f := range fs {
		if i > 0 {
			sb.WriteByte(' ')
		}
		sb.WriteString(F(f))
	}
	sb.WriteByte(']')
	return sb.String()
}

// Canon renders a value canonically (maps sorted by key) for witness keys.
func Canon(v any) string {
	switch x := v.(type) {
	case nil:
		return "nil"
	case string:
		return x
	case map[string]any:
		keys := make([]string, 0, len(x))
		for k := range x {
			keys = append(keys, k)
		}
		sort.Strings(keys)
		var sb strings.Builder
		sb.WriteByte('{')
		for i, k := range keys {
			if i > 0 {
				sb.WriteByte(' ')
			}
			sb.WriteString(k)
			sb.WriteByte('=')
			sb.WriteString(Canon(x[k]))
		}
		sb.WriteByte('}')
		return sb.String()
	case []any:
		var sb strings.Builder
		sb.WriteByte('[')
		for i, e := range x {
			if i > 0 {
				sb.WriteByte(' ')
			}
			sb.WriteString(Canon(e))
		}
		sb.WriteByte(']')
		return sb.String()
	case []float64:
		return Fs(x)
	case float64:
		return F(x)
	default:
		return fmt.Sprintf("%v", v)
	}
}
