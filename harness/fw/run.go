package fw

import (
	"bytes"
	"context"
	"encoding/binary"
	"encoding/hex"
	"encoding/json"
	"fmt"
	"math"
	"os"
	"os/exec"
	"path/filepath"
	"runtime"
	"sort"
	"strconv"
	"strings"
	"sync"
	"time"
)

// VerifDir is where evidence, replays and scratch files live.
func VerifDir() string {
	if d := os.Getenv("VERIF_DIR"); d != "" {
		return d
	}
	// the binary lives in <verif>/.bin: a snapshot of /verif run elsewhere then
	// keeps its scratch files, replays and evidence to itself
	if exe, err := os.Executable(); err == nil {
		if dir := filepath.Dir(exe); filepath.Base(dir) == ".bin" {
			return filepath.Dir(dir)
		}
	}
	return "/verif"
}

// WorkDir returns a scratch directory private to this process, after removing
// the ones that dead processes left behind.
func WorkDir(prop string) (string, error) {
	base := filepath.Join(VerifDir(), ".work")
	if ents, err := os.ReadDir(base); err == nil {
		for _, e := range ents {
			parts := strings.Split(e.Name(), "-")
			if len(parts) < 2 {
				continue
			}
			pid, perr := strconv.Atoi(parts[len(parts)-1])
			if perr != nil {
				continue
			}
			if _, serr := os.Stat(fmt.Sprintf("/proc/%d", pid)); serr != nil {
				os.RemoveAll(filepath.Join(base, e.Name()))
			}
		}
	}
	work := filepath.Join(base, fmt.Sprintf("%s-%d", prop, os.Getpid()))
	os.RemoveAll(work)
	return work, os.MkdirAll(work, 0o755)
}

// JobResult is what a worker writes when it finishes its slice.
type JobResult struct {
	Class      string             `json:"class"`
	Start      int                `json:"start"`
	Count      int                `json:"count"`
	Evals      int64              `json:"evals"`
	Counters   map[string]int64   `json:"counters"`
	Maxes      map[string]float64 `json:"maxes"`
	Samples    []any              `json:"samples"`
	Violations []Violation        `json:"violations"`
	Suppressed int                `json:"suppressed"`
	NDistinct  int                `json:"ndistinct"`
}

// sanitize makes a value JSON-marshalable (non-finite floats become strings).
func sanitize(v any) any {
	switch x := v.(type) {
	case float64:
		if math.IsNaN(x) || math.IsInf(x, 0) {
			return F(x)
		}
		return x
	case []float64:
		return Fs(x)
	case map[string]any:
		out := make(map[string]any, len(x))
		for k, e := range x {
			out[k] = sanitize(e)
		}
		return out
	case []any:
		out := make([]any, len(x))
		for i, e := range x {
			out[i] = sanitize(e)
		}
		return out
	case []string, string, int, int64, uint64, bool, nil:
		return x
	default:
		return fmt.Sprintf("%v", x)
	}
}

// runCase evaluates one case under recover.  A panic that escapes the monitor's
// own guards is attributed to the current input.
func runCase(m *Monitor, cl *Class, c *Ctx, idx int) {
	c.Index = idx
	c.R = NewRand(c.Seed, m.ID, cl.Name, idx)
	c.input = nil
	c.rawHex = ""
	defer func() {
		if r := recover(); r != nil {
			if _, ok := r.(describeAbort); ok {
				return
			}
			c.Fail("panic", "uncaught panic: %v\n%s", r, trimStack(stackString()))
		}
	}()
	cl.Run(c, idx)
}

func stackString() string {
	buf := make([]byte, 1<<16)
	n := runtime.Stack(buf, false)
	return string(buf[:n])
}

// Worker runs cases [start,start+count) of one class and writes <out>.json and
// <out>.distinct.  The index of the case being evaluated is kept in <out>.journal
// so that the parent can attribute a process death.
func Worker(prop, tier string, seed uint64, class string, start, count int, out string) error {
	m, err := Lookup(prop)
	if err != nil {
		return err
	}
	cl := m.class(class)
	if cl == nil {
		return fmt.Errorf("no class %q in %s", class, prop)
	}
	jf, err := os.OpenFile(out+".journal", os.O_CREATE|os.O_WRONLY|os.O_TRUNC, 0o644)
	if err != nil {
		return err
	}
	defer jf.Close()
	c := NewCtx(prop, tier, seed)
	c.Class = class
	var jb [8]byte
	for idx := start; idx < start+count; idx++ {
		binary.LittleEndian.PutUint64(jb[:], uint64(idx))
		if _, err := jf.WriteAt(jb[:], 0); err != nil {
			return err
		}
		runCase(m, cl, c, idx)
	}
	res := JobResult{
		Class: class, Start: start, Count: count, Evals: c.Evals,
		Counters: c.Counters, Maxes: c.Maxes, Suppressed: c.suppressed,
	}
	for _, s := range c.Samples {
		res.Samples = append(res.Samples, sanitize(s))
	}
	for _, v := range c.Violations {
		v.Input = sanitize(v.Input)
		res.Violations = append(res.Violations, v)
	}
	hs := c.DistinctHashes()
	res.NDistinct = len(hs)
	db := make([]byte, 8*len(hs))
	for i, h := range hs {
		binary.LittleEndian.PutUint64(db[8*i:], h)
	}
	if err := os.WriteFile(out+".distinct", db, 0o644); err != nil {
		return err
	}
	jb2, err := json.Marshal(res)
	if err != nil {
		return fmt.Errorf("marshal result: %w", err)
	}
	return os.WriteFile(out+".json", jb2, 0o644)
}

// Describe materialises the input of one case without calling go-geom.
func Describe(prop, tier string, seed uint64, class string, idx int) (any, string) {
	m, err := Lookup(prop)
	if err != nil {
		return err.Error(), ""
	}
	cl := m.class(class)
	if cl == nil {
		return "unknown class", ""
	}
	c := NewCtx(prop, tier, seed)
	c.Class = class
	c.describeOnly = true
	runCase(m, cl, c, idx)
	return sanitize(c.input), c.rawHex
}

// ReplayFile re-evaluates the case recorded in a replay file on the current tree.
func ReplayFile(path string) int {
	data, err := os.ReadFile(path)
	if err != nil {
		fmt.Println("replay:", err)
		return 2
	}
	var v Violation
	if err := json.Unmarshal(data, &v); err != nil {
		fmt.Println("replay:", err)
		return 2
	}
	m, err := Lookup(v.Prop)
	if err != nil {
		fmt.Println("replay:", err)
		return 2
	}
	if m.Special != nil {
		// schedule-dependent witness: re-run the whole round set it came from
		fmt.Printf("replay: %s witnesses depend on the schedule; re-running the %s tier at seed %d\n", v.Prop, v.Tier, v.Seed)
		exe, err := os.Executable()
		if err != nil {
			return 2
		}
		work, _ := WorkDir(v.Prop + "-replay")
		os.RemoveAll(work)
		os.MkdirAll(work, 0o755)
		defer os.RemoveAll(work)
		seed := v.Seed
		if v.Class == "race" && seed >= 1000 {
			seed = seed / 1000
		}
		p := &Parent{M: m, Tier: v.Tier, Seed: seed, Exe: exe, Work: work}
		return p.Run()
	}
	cl := m.class(v.Class)
	if cl == nil {
		fmt.Printf("replay: class %q not found\n", v.Class)
		return 2
	}
	c := NewCtx(v.Prop, v.Tier, v.Seed)
	c.Class = v.Class
	if v.RawHex != "" && cl.RawReplay != nil {
		raw, err := hex.DecodeString(v.RawHex)
		if err != nil {
			fmt.Println("replay:", err)
			return 2
		}
		c.Index = v.Index
		c.R = NewRand(c.Seed, m.ID, cl.Name, v.Index)
		func() {
			defer func() {
				if r := recover(); r != nil {
					c.Fail("panic", "uncaught panic: %v\n%s", r, trimStack(stackString()))
				}
			}()
			cl.RawReplay(c, raw)
		}()
	} else {
		runCase(m, cl, c, v.Index)
	}
	if len(c.Violations) == 0 {
		fmt.Printf("replay: property=%s class=%s index=%d seed=%d: no violation on the current tree\n", v.Prop, v.Class, v.Index, v.Seed)
		return 0
	}
	for _, nv := range c.Violations {
		fmt.Printf("replay: %s: %s\n", nv.Kind, nv.Detail)
	}
	fmt.Printf("VIOLATION property=%s replay=%s\n", v.Prop, path)
	return 1
}

// Summary is the merged observation of a whole run.
type Summary struct {
	Evals        int64
	Counters     map[string]int64
	Maxes        map[string]float64
	ClassCases   map[string]int
	Samples      []any
	Violations   []Violation
	Suppressed   int
	Distinct     map[uint64]struct{}
	Inconclusive []string
	Exhaustive   []string
	mu           sync.Mutex
}

func newSummary() *Summary {
	return &Summary{
		Counters: map[string]int64{}, Maxes: map[string]float64{},
		ClassCases: map[string]int{}, Distinct: map[uint64]struct{}{},
	}
}

func (s *Summary) AddViolation(v Violation) {
	s.mu.Lock()
	defer s.mu.Unlock()
	s.Violations = append(s.Violations, v)
}

func (s *Summary) AddInconclusive(reason string) {
	s.mu.Lock()
	defer s.mu.Unlock()
	s.Inconclusive = append(s.Inconclusive, reason)
}

func (s *Summary) merge(r *JobResult, hashes []uint64) {
	s.mu.Lock()
	defer s.mu.Unlock()
	s.Evals += r.Evals
	for k, v := range r.Counters {
		s.Counters[k] += v
	}
	for k, v := range r.Maxes {
		if old, ok := s.Maxes[k]; !ok || v > old {
			s.Maxes[k] = v
		}
	}
	s.ClassCases[r.Class] += r.Count
	s.Suppressed += r.Suppressed
	s.Violations = append(s.Violations, r.Violations...)
	for _, h := range hashes {
		s.Distinct[h] = struct{}{}
	}
	// keep at most two samples per class, eight overall
	if len(s.Samples) < 8 {
		n := 0
		for _, sm := range r.Samples {
			if n >= 1 || len(s.Samples) >= 8 {
				break
			}
			s.Samples = append(s.Samples, map[string]any{"class": r.Class, "case": sm})
			n++
		}
	}
}

// Parent drives one run of one property.
type Parent struct {
	M     *Monitor
	Tier  string
	Seed  uint64
	Exe   string
	Work  string
	Start time.Time
}

type job struct {
	class        string
	start, count int
	id           int
}

func (p *Parent) jobTimeout() time.Duration {
	if p.Tier == "thorough" {
		return 90 * time.Minute
	}
	return 6 * time.Minute
}

// runJob runs one worker; on a process death it attributes the death through the
// journal and continues after the fatal case.
func (p *Parent) runJob(j job, sum *Summary) {
	start, count := j.start, j.count
	attempt := 0
	// noLimit: the range is being run again without the address-space limit, after a
	// worker died of memory exhaustion under it (see below)
	noLimit := false
	for count > 0 {
		out := filepath.Join(p.Work, fmt.Sprintf("job-%d-%d", j.id, attempt))
		attempt++
		args := []string{"worker", "-prop", p.M.ID, "-tier", p.Tier, "-seed", strconv.FormatUint(p.Seed, 10),
			"-class", j.class, "-start", strconv.Itoa(start), "-count", strconv.Itoa(count), "-out", out}
		ctx, cancel := context.WithTimeout(context.Background(), p.jobTimeout())
		var cmd *exec.Cmd
		memKB := p.M.MemLimitKB
		if memKB == 0 {
			memKB = 4000000 // every worker runs under an address-space limit so that a forged count kills the child, not the sandbox
			if v, e := strconv.Atoi(os.Getenv("VERIF_MEMLIMIT_KB")); e == nil && v > 0 {
				memKB = v // (for testing the re-run logic below)
			}
		}
		if memKB > 0 && !noLimit {
			sh := fmt.Sprintf("ulimit -v %d; exec %q", memKB, p.Exe)
			for _, a := range args {
				sh += " " + fmt.Sprintf("%q", a)
			}
			cmd = exec.CommandContext(ctx, "sh", "-c", sh)
		} else {
			cmd = exec.CommandContext(ctx, p.Exe, args...)
		}
		var stderr bytes.Buffer
		cmd.Stderr = &stderr
		cmd.Stdout = &stderr
		err := cmd.Run()
		timedOut := ctx.Err() == context.DeadlineExceeded
		cancel()
		if err == nil {
			data, rerr := os.ReadFile(out + ".json")
			if rerr != nil {
				sum.AddInconclusive(fmt.Sprintf("worker %s[%d,%d) left no result: %v", j.class, start, start+count, rerr))
				return
			}
			var res JobResult
			if jerr := json.Unmarshal(data, &res); jerr != nil {
				sum.AddInconclusive(fmt.Sprintf("worker %s result unreadable: %v", j.class, jerr))
				return
			}
			var hashes []uint64
			if db, derr := os.ReadFile(out + ".distinct"); derr == nil {
				for i := 0; i+8 <= len(db); i += 8 {
					hashes = append(hashes, binary.LittleEndian.Uint64(db[i:]))
				}
			}
			sum.merge(&res, hashes)
			os.Remove(out + ".json")
			os.Remove(out + ".distinct")
			os.Remove(out + ".journal")
			return
		}
		if timedOut {
			sum.AddInconclusive(fmt.Sprintf("watchdog: worker %s[%d,%d) exceeded %s", j.class, start, start+count, p.jobTimeout()))
			return
		}
		// the worker died.  If it died of memory exhaustion under the address-space
		// limit this harness imposes (4 GB of virtual memory, which a Go heap holding
		// a few 100 MB geometries can reach depending on when the collector runs),
		// the death says nothing about go-geom unless the monitor relies on the
		// limit (C04: a forged count must not be allocated): the same range is run
		// once more without the limit, and only what happens then is judged.
		if es := stderr.String(); !noLimit && memKB > 0 && !p.M.MemDeathIsViolation &&
			(strings.Contains(es, "out of memory") || strings.Contains(es, "cannot allocate memory") || strings.Contains(es, "errno=12")) {
			noLimit = true
			sum.mu.Lock()
			sum.Counters["worker_rerun_without_the_address_space_limit"]++
			sum.mu.Unlock()
			os.Remove(out + ".journal")
			continue
		}
		// which case was it on?
		jb, jerr := os.ReadFile(out + ".journal")
		if jerr != nil || len(jb) < 8 {
			sum.AddInconclusive(fmt.Sprintf("worker %s[%d,%d) died before its first case: %v: %s", j.class, start, start+count, err, tail(stderr.String(), 400)))
			return
		}
		idx := int(binary.LittleEndian.Uint64(jb[:8]))
		if idx < start || idx >= start+count {
			sum.AddInconclusive(fmt.Sprintf("worker %s journal index %d out of range", j.class, idx))
			return
		}
		input, rawHex := p.describe(j.class, idx)
		v := Violation{
			Prop: p.M.ID, Class: j.class, Index: idx, Seed: p.Seed, Tier: p.Tier,
			Kind:   "process-death",
			Detail: fmt.Sprintf("worker process died (%v) while evaluating this case: %s ... %s", err, head(stderr.String(), 400), tail(stderr.String(), 1100)),
			Input:  input, RawHex: rawHex,
		}
		v.Key = v.Kind + ":" + Canon(input)
		sum.AddViolation(v)
		sum.mu.Lock()
		sum.ClassCases[j.class] += idx - start + 1
		sum.mu.Unlock()
		count -= idx - start + 1
		start = idx + 1
		os.Remove(out + ".journal")
	}
}

func head(s string, n int) string {
	s = strings.TrimSpace(s)
	if len(s) > n {
		return s[:n]
	}
	return s
}

func tail(s string, n int) string {
	s = strings.TrimSpace(s)
	if len(s) > n {
		return "..." + s[len(s)-n:]
	}
	return s
}

func (p *Parent) describe(class string, idx int) (any, string) {
	cmd := exec.Command(p.Exe, "describe", "-prop", p.M.ID, "-tier", p.Tier, "-seed", strconv.FormatUint(p.Seed, 10),
		"-class", class, "-index", strconv.Itoa(idx))
	out, err := cmd.Output()
	if err != nil {
		return fmt.Sprintf("(could not describe: %v)", err), ""
	}
	var d struct {
		Input  any    `json:"input"`
		RawHex string `json:"raw_hex"`
	}
	if json.Unmarshal(out, &d) != nil {
		return string(out), ""
	}
	return d.Input, d.RawHex
}

// Run executes the whole property check and returns the process exit code.
func (p *Parent) Run() int {
	p.Start = time.Now()
	if p.M.Special != nil {
		return p.M.Special(p)
	}
	sum := newSummary()
	ncpu := runtime.NumCPU()
	if v := os.Getenv("VERIF_JOBS"); v != "" {
		if n, err := strconv.Atoi(v); err == nil && n > 0 {
			ncpu = n
		}
	}
	var jobs []job
	id := 0
	for i := range p.M.Classes {
		cl := &p.M.Classes[i]
		n := cl.N(p.Tier)
		if n <= 0 {
			continue
		}
		if cl.Exhaustive != "" {
			sum.Exhaustive = append(sum.Exhaustive, fmt.Sprintf("%s: %s (%d cases)", cl.Name, cl.Exhaustive, n))
		}
		chunk := cl.Chunk
		if chunk <= 0 {
			chunk = (n + 2*ncpu - 1) / (2 * ncpu)
			if chunk < 1 {
				chunk = 1
			}
		}
		for s := 0; s < n; s += chunk {
			cnt := chunk
			if s+cnt > n {
				cnt = n - s
			}
			jobs = append(jobs, job{class: cl.Name, start: s, count: cnt, id: id})
			id++
		}
	}
	sem := make(chan struct{}, ncpu)
	var wg sync.WaitGroup
	for _, j := range jobs {
		wg.Add(1)
		sem <- struct{}{}
		go func(j job) {
			defer wg.Done()
			defer func() { <-sem }()
			p.runJob(j, sum)
		}(j)
	}
	wg.Wait()
	if p.M.Extra != nil {
		p.M.Extra(p, sum)
	}
	return p.Finish(sum)
}

// Finding is one line of known_findings.txt.
type Finding struct {
	Prop, Key, Text string
}

func loadFindings() []Finding {
	data, err := os.ReadFile(filepath.Join(VerifDir(), "known_findings.txt"))
	if err != nil {
		return nil
	}
	var out []Finding
	for _, line := range strings.Split(string(data), "\n") {
		line = strings.TrimSpace(line)
		if !strings.HasPrefix(line, "finding:") {
			continue
		}
		rest := strings.TrimSpace(strings.TrimPrefix(line, "finding:"))
		// finding: property=<id> key=<quoted key> <text>
		var f Finding
		if !strings.HasPrefix(rest, "property=") {
			continue
		}
		rest = strings.TrimPrefix(rest, "property=")
		sp := strings.IndexByte(rest, ' ')
		if sp < 0 {
			continue
		}
		f.Prop = rest[:sp]
		rest = strings.TrimSpace(rest[sp:])
		if !strings.HasPrefix(rest, "key=") {
			continue
		}
		rest = strings.TrimPrefix(rest, "key=")
		if strings.HasPrefix(rest, "\"") {
			q, err := strconv.QuotedPrefix(rest)
			if err != nil {
				continue
			}
			f.Key, _ = strconv.Unquote(q)
			f.Text = strings.TrimSpace(rest[len(q):])
		} else {
			sp := strings.IndexByte(rest, ' ')
			if sp < 0 {
				f.Key = rest
			} else {
				f.Key = rest[:sp]
				f.Text = strings.TrimSpace(rest[sp:])
			}
		}
		out = append(out, f)
	}
	return out
}

// Finish writes the evidence file, prints the verdict lines and returns the exit code.
func (p *Parent) Finish(sum *Summary) int {
	m := p.M
	for _, req := range m.Require {
		if sum.Counters[req] == 0 {
			sum.Inconclusive = append(sum.Inconclusive, fmt.Sprintf("required observation %q never made", req))
		}
	}
	// split violations into known findings and new ones
	findings := loadFindings()
	var fresh []Violation
	knownSeen := map[string]Finding{}
	for _, v := range sum.Violations {
		matched := false
		for _, f := range findings {
			if f.Prop == v.Prop && f.Key == v.Key {
				knownSeen[f.Key] = f
				matched = true
				break
			}
		}
		if !matched {
			fresh = append(fresh, v)
		}
	}
	sort.SliceStable(fresh, func(i, j int) bool {
		if fresh[i].Class != fresh[j].Class {
			return fresh[i].Class < fresh[j].Class
		}
		return fresh[i].Index < fresh[j].Index
	})
	wall := time.Since(p.Start).Seconds()
	nd := len(sum.Distinct)
	samples := sum.Samples
	if len(samples) == 0 {
		samples = []any{}
	}
	classes := map[string]int{}
	for k, v := range sum.ClassCases {
		classes[k] = v
	}
	cov := map[string]any{
		"evaluations":         sum.Evals,
		"distinct_nontrivial": nd,
		"rule":                m.Rule,
		"samples":             samples,
		"cases_per_class":     classes,
		"counters":            sum.Counters,
		"maxima":              sum.Maxes,
		"exhaustive":          false,
	}
	if len(sum.Exhaustive) > 0 {
		cov["exhaustive_subspaces"] = sum.Exhaustive
	}
	if f := os.Getenv("VERIF_CODE_REACHED"); f != "" {
		// statement coverage of go-geom measured by ./check (thorough tier only)
		if b, err := os.ReadFile(f); err == nil {
			var cr any
			if json.Unmarshal(b, &cr) == nil {
				cov["code_reached"] = cr
			}
		}
	}
	if len(sum.Inconclusive) > 0 {
		cov["inconclusive"] = sum.Inconclusive
	}
	if len(knownSeen) > 0 {
		var ks []string
		for k := range knownSeen {
			ks = append(ks, k)
		}
		sort.Strings(ks)
		cov["known_findings_observed"] = ks
	}
	ev := map[string]any{
		"property_id": m.ID,
		"tier":        p.Tier,
		"seed":        p.Seed,
		"level":       "exploration",
		"coverage":    cov,
		"assumptions": m.Assume,
		"wall_s":      math.Round(wall*100) / 100,
		"violations":  len(fresh) + sum.Suppressed,
	}
	evDir := filepath.Join(VerifDir(), "evidence")
	os.MkdirAll(evDir, 0o755)
	evb, err := json.MarshalIndent(ev, "", " ")
	if err != nil {
		fmt.Printf("INCONCLUSIVE property=%s reason=evidence-marshal:%v\n", m.ID, err)
		return 2
	}
	if err := os.WriteFile(filepath.Join(evDir, m.ID+".json"), append(evb, '\n'), 0o644); err != nil {
		fmt.Printf("INCONCLUSIVE property=%s reason=evidence-write:%v\n", m.ID, err)
		return 2
	}
	fmt.Printf("%s %s seed=%d: %d evaluations, %d distinct non-trivial cases, %d classes, %.1fs\n",
		m.ID, p.Tier, p.Seed, sum.Evals, nd, len(classes), wall)
	var cn []string
	for k := range sum.Counters {
		cn = append(cn, k)
	}
	sort.Strings(cn)
	var parts []string
	for _, k := range cn {
		parts = append(parts, fmt.Sprintf("%s=%d", k, sum.Counters[k]))
	}
	if len(parts) > 0 {
		fmt.Printf("  observed: %s\n", strings.Join(parts, " "))
	}
	var ks []string
	for k := range knownSeen {
		ks = append(ks, k)
	}
	sort.Strings(ks)
	for _, k := range ks {
		f := knownSeen[k]
		fmt.Printf("KNOWN-FINDING: property=%s %s\n", f.Prop, f.Text)
	}
	if len(fresh) > 0 {
		kinds := map[string]int{}
		for _, v := range fresh {
			kinds[v.Class+"/"+v.Kind]++
		}
		var kn []string
		for k := range kinds {
			kn = append(kn, k)
		}
		sort.Strings(kn)
		for _, k := range kn {
			fmt.Printf("  violations of kind %s: %d\n", k, kinds[k])
		}
		repDir := filepath.Join(VerifDir(), "replays")
		os.MkdirAll(repDir, 0o755)
		max := len(fresh)
		if max > 10 {
			max = 10
		}
		for i := 0; i < max; i++ {
			v := fresh[i]
			path := filepath.Join(repDir, fmt.Sprintf("%s-%d-%d.json", m.ID, p.Seed, i))
			vb, _ := json.MarshalIndent(v, "", " ")
			os.WriteFile(path, append(vb, '\n'), 0o644)
			d := v.Detail
			if nl := strings.IndexByte(d, '\n'); nl >= 0 {
				d = d[:nl]
			}
			if len(d) > 300 {
				d = d[:300] + "..."
			}
			fmt.Printf("  %s[%d] %s: %s\n", v.Class, v.Index, v.Kind, d)
			fmt.Printf("VIOLATION property=%s replay=%s\n", m.ID, path)
		}
		if len(fresh) > max || sum.Suppressed > 0 {
			fmt.Printf("  (%d further violations not written out)\n", len(fresh)-max+sum.Suppressed)
		}
		return 1
	}
	if len(sum.Inconclusive) > 0 {
		for _, r := range sum.Inconclusive {
			fmt.Printf("INCONCLUSIVE property=%s reason=%s\n", m.ID, strings.ReplaceAll(r, "\n", " "))
		}
		return 2
	}
	if nd < 2 {
		fmt.Printf("INCONCLUSIVE property=%s reason=fewer than two distinct non-trivial cases observed\n", m.ID)
		return 2
	}
	return 0
}

// SpecialSummary is the thread-safe accumulator used by monitors with their own
// parent (the race monitor).
type SpecialSummary struct{ s *Summary }

func NewSummaryForSpecial() *SpecialSummary { return &SpecialSummary{s: newSummary()} }

func (x *SpecialSummary) S() *Summary                   { return x.s }
func (x *SpecialSummary) AddViolation(v Violation)      { v.Input = sanitize(v.Input); x.s.AddViolation(v) }
func (x *SpecialSummary) AddInconclusive(reason string) { x.s.AddInconclusive(reason) }

func (x *SpecialSummary) AddCounter(name string, n int64) {
	x.s.mu.Lock()
	defer x.s.mu.Unlock()
	x.s.Counters[name] += n
}

func (x *SpecialSummary) AddEvals(n int64) {
	x.s.mu.Lock()
	defer x.s.mu.Unlock()
	x.s.Evals += n
	x.s.ClassCases["race"]++
}

func (x *SpecialSummary) AddDistinct(sig string) {
	x.s.mu.Lock()
	defer x.s.mu.Unlock()
	x.s.Distinct[HashString(sig)] = struct{}{}
}

func (x *SpecialSummary) AddSample(v any) {
	x.s.mu.Lock()
	defer x.s.mu.Unlock()
	if len(x.s.Samples) < 8 {
		x.s.Samples = append(x.s.Samples, sanitize(v))
	}
}

// WrapSummary gives an Extra hook thread-safe access to the run's summary.
func WrapSummary(s *Summary) *SpecialSummary { return &SpecialSummary{s: s} }
