// Package fuzz exposes the raw-input monitors of C04, C06, C07 and C19 as Go
// fuzz targets.  The fuzzer supplies inputs; the monitor decides.
package fuzz

import (
	"testing"

	"verifharness/mon"
)

func run(f *testing.F, prop string) {
	for _, s := range mon.FuzzSeeds(prop) {
		f.Add(s)
	}
	f.Fuzz(func(t *testing.T, data []byte) {
		if len(data) > 1<<16 {
			return
		}
		if vs := mon.FuzzOne(prop, data); len(vs) > 0 {
			t.Fatalf("monitor %s: %s", prop, vs[0])
		}
	})
}

func FuzzC04(f *testing.F) { run(f, "C04") }
func FuzzC06(f *testing.F) { run(f, "C06") }
func FuzzC07(f *testing.F) { run(f, "C07") }
func FuzzC19(f *testing.F) { run(f, "C19") }
