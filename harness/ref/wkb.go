// Package ref holds reference codecs written from the format specifications
// only (ISO/OGC WKB, PostGIS EWKB, OGC WKT, RFC 7946 / RFC 8259, IGC), sharing
// no code with go-geom.  They work on the nested-list model.
package ref

import (
	"encoding/binary"
	"errors"
	"fmt"
	"math"

	geom "github.com/twpayne/go-geom"

	"verifharness/model"
)

// WKBOpts selects the dialect.
type WKBOpts struct {
	BigEndian bool
	EWKB      bool
	// NaNEmptyPoint encodes an empty point as all-NaN ordinates (always the case in
	// EWKB; in WKB only in the GeoPackage mode).  Without it an empty point is an error.
	NaNEmptyPoint bool
	// Limits, if set, are per-level element limits applied by the reader the way
	// the format's decoders are documented to apply them (-1 = unlimited).
	Limits *[4]int
}

// TooLarge is returned by the reader for a count field above the limit of its level.
type TooLarge struct{ Level, N, Limit int }

func (e *TooLarge) Error() string {
	return fmt.Sprintf("ref: %d elements at level %d exceed the limit %d", e.N, e.Level, e.Limit)
}

// Unbacked is returned for a count field that claims more elements than the
// remaining input could hold, at a level without a configured limit.
type Unbacked struct{ Level, N int }

func (e *Unbacked) Error() string {
	return fmt.Sprintf("ref: count %d at level %d is not backed by input", e.N, e.Level)
}

// Field locates one header field inside an encoding (used by the forgers of C04).
type Field struct {
	Off   int
	Kind  string // "order", "type", "srid", "count"
	Level int    // for counts: the element-limit level (1,2,3), 0 = no level
	Type  string // geometry type the field belongs to
	Depth int
}

var ErrEmptyPoint = errors.New("ref: empty point not encodable in this WKB mode")
var ErrLayout = errors.New("ref: layout not encodable in WKB")

const emptyNaNBits = 0x7FF8000000000000

type wkbWriter struct {
	o      WKBOpts
	buf    []byte
	fields []Field
	bo     binary.ByteOrder
}

func (w *wkbWriter) u32(v uint32) {
	var b [4]byte
	w.bo.PutUint32(b[:], v)
	w.buf = append(w.buf, b[:]...)
}

func (w *wkbWriter) f64(v float64) {
	var b [8]byte
	w.bo.PutUint64(b[:], math.Float64bits(v))
	w.buf = append(w.buf, b[:]...)
}

func (w *wkbWriter) count(n int, level int, typ string, depth int) {
	w.fields = append(w.fields, Field{Off: len(w.buf), Kind: "count", Level: level, Type: typ, Depth: depth})
	w.u32(uint32(n))
}

var wkbCode = map[model.Kind]uint32{
	model.Point: 1, model.LineString: 2, model.LinearRing: 2, model.Polygon: 3,
	model.MultiPoint: 4, model.MultiLineString: 5, model.MultiPolygon: 6, model.Collection: 7,
}

func (w *wkbWriter) header(g *model.G, depth int) error {
	w.fields = append(w.fields, Field{Off: len(w.buf), Kind: "order", Type: g.Kind.String(), Depth: depth})
	if w.o.BigEndian {
		w.buf = append(w.buf, 0)
	} else {
		w.buf = append(w.buf, 1)
	}
	code := wkbCode[g.Kind]
	layout := g.CollectionLayout()
	hasZ, hasM := false, false
	switch layout {
	case geom.XY:
	case geom.XYZ:
		hasZ = true
	case geom.XYM:
		hasM = true
	case geom.XYZM:
		hasZ, hasM = true, true
	case geom.NoLayout:
		if g.Kind != model.Collection || !g.IsEmpty() {
			return ErrLayout
		}
	default:
		return ErrLayout
	}
	w.fields = append(w.fields, Field{Off: len(w.buf), Kind: "type", Type: g.Kind.String(), Depth: depth})
	if w.o.EWKB {
		if hasZ {
			code |= 0x80000000
		}
		if hasM {
			code |= 0x40000000
		}
		if g.SRID != 0 {
			code |= 0x20000000
		}
		w.u32(code)
		if g.SRID != 0 {
			w.fields = append(w.fields, Field{Off: len(w.buf), Kind: "srid", Type: g.Kind.String(), Depth: depth})
			w.u32(uint32(g.SRID))
		}
	} else {
		if hasZ && hasM {
			code += 3000
		} else if hasM {
			code += 2000
		} else if hasZ {
			code += 1000
		}
		w.u32(code)
	}
	return nil
}

func (w *wkbWriter) coords(cs [][]float64) {
	for _, c := range cs {
		for _, v := range c {
			w.f64(v)
		}
	}
}

func (w *wkbWriter) geom(g *model.G, depth int) error {
	if err := w.header(g, depth); err != nil {
		return err
	}
	stride := g.Layout.Stride()
	sub := func(k model.Kind) *model.G { return &model.G{Kind: k, Layout: g.Layout} }
	switch g.Kind {
	case model.Point:
		if len(g.C0) == 0 {
			if !w.o.EWKB && !w.o.NaNEmptyPoint {
				return ErrEmptyPoint
			}
			for i := 0; i < stride; i++ {
				w.f64(math.Float64frombits(emptyNaNBits))
			}
			return nil
		}
		for _, v := range g.C0 {
			w.f64(v)
		}
	case model.LineString, model.LinearRing:
		w.count(len(g.C1), 1, "LineString", depth)
		w.coords(g.C1)
	case model.Polygon:
		w.count(len(g.C2), 2, "Polygon", depth)
		for _, r := range g.C2 {
			w.count(len(r), 1, "Polygon.ring", depth)
			w.coords(r)
		}
	case model.MultiPoint:
		w.count(len(g.C1), 1, "MultiPoint", depth)
		for _, c := range g.C1 {
			p := sub(model.Point)
			p.C0 = c
			if err := w.geom(p, depth+1); err != nil {
				return err
			}
		}
	case model.MultiLineString:
		w.count(len(g.C2), 2, "MultiLineString", depth)
		for _, l := range g.C2 {
			p := sub(model.LineString)
			p.C1 = l
			if err := w.geom(p, depth+1); err != nil {
				return err
			}
		}
	case model.MultiPolygon:
		w.count(len(g.C3), 3, "MultiPolygon", depth)
		for _, pg := range g.C3 {
			p := sub(model.Polygon)
			p.C2 = pg
			if err := w.geom(p, depth+1); err != nil {
				return err
			}
		}
	case model.Collection:
		lvl := 0
		if w.o.EWKB {
			lvl = 1
		}
		w.count(len(g.Members), lvl, "GeometryCollection", depth)
		for _, m := range g.Members {
			if err := w.geom(m, depth+1); err != nil {
				return err
			}
		}
	}
	return nil
}

// WriteWKB encodes a model as WKB or EWKB and returns the header-field map.
func WriteWKB(g *model.G, o WKBOpts) ([]byte, []Field, error) {
	w := &wkbWriter{o: o}
	if o.BigEndian {
		w.bo = binary.BigEndian
	} else {
		w.bo = binary.LittleEndian
	}
	if err := w.geom(g, 0); err != nil {
		return nil, nil, err
	}
	return w.buf, w.fields, nil
}

// ---- reader ----

type wkbReader struct {
	o   WKBOpts
	b   []byte
	pos int
}

var errShort = errors.New("ref: truncated")

func (r *wkbReader) need(n int) error {
	if n < 0 || r.pos+n > len(r.b) || r.pos+n < r.pos {
		return errShort
	}
	return nil
}

func (r *wkbReader) u32(bo binary.ByteOrder) (uint32, error) {
	if err := r.need(4); err != nil {
		return 0, err
	}
	v := bo.Uint32(r.b[r.pos:])
	r.pos += 4
	return v, nil
}

// cnt reads a count field: the limit of its level is checked first, then whether
// the remaining input could hold that many elements of at least minSize bytes.
func (r *wkbReader) cnt(bo binary.ByteOrder, level, minSize int) (uint32, error) {
	n, err := r.u32(bo)
	if err != nil {
		return 0, err
	}
	limited := false
	if r.o.Limits != nil && level > 0 {
		if lim := r.o.Limits[level]; lim >= 0 {
			limited = true
			if int(n) > lim {
				return 0, &TooLarge{Level: level, N: int(n), Limit: lim}
			}
		}
	}
	// (small unbacked counts allocate next to nothing and are plain truncations)
	if need := uint64(n) * uint64(minSize); !limited && need > uint64(len(r.b)-r.pos) && need > 2048 {
		return 0, &Unbacked{Level: level, N: int(n)}
	}
	// a count within its limit that the input cannot back is an ordinary
	// truncation: parsing goes on and fails where the data runs out
	return n, nil
}

func (r *wkbReader) coord(bo binary.ByteOrder, stride int) ([]float64, error) {
	if err := r.need(8 * stride); err != nil {
		return nil, err
	}
	c := make([]float64, stride)
	for i := range c {
		c[i] = math.Float64frombits(bo.Uint64(r.b[r.pos:]))
		r.pos += 8
	}
	return c, nil
}

func (r *wkbReader) coordList(bo binary.ByteOrder, stride int) ([][]float64, error) {
	n, err := r.cnt(bo, 1, stride*8)
	if err != nil {
		return nil, err
	}
	if uint64(n)*uint64(stride)*8 > uint64(len(r.b)-r.pos) {
		return nil, errShort
	}
	out := make([][]float64, 0, n)
	for i := uint32(0); i < n; i++ {
		c, err := r.coord(bo, stride)
		if err != nil {
			return nil, err
		}
		out = append(out, c)
	}
	return out, nil
}

func (r *wkbReader) geom(depth int) (*model.G, error) {
	if depth > 1000000 {
		return nil, errors.New("ref: nesting too deep")
	}
	if err := r.need(1); err != nil {
		return nil, err
	}
	var bo binary.ByteOrder
	switch r.b[r.pos] {
	case 0:
		bo = binary.BigEndian
	case 1:
		bo = binary.LittleEndian
	default:
		return nil, fmt.Errorf("ref: bad byte order %d", r.b[r.pos])
	}
	r.pos++
	t, err := r.u32(bo)
	if err != nil {
		return nil, err
	}
	g := &model.G{}
	var code uint32
	if r.o.EWKB {
		z, m, s := t&0x80000000 != 0, t&0x40000000 != 0, t&0x20000000 != 0
		code = t &^ 0xE0000000
		switch {
		case z && m:
			g.Layout = geom.XYZM
		case z:
			g.Layout = geom.XYZ
		case m:
			g.Layout = geom.XYM
		default:
			g.Layout = geom.XY
		}
		if s {
			v, err := r.u32(bo)
			if err != nil {
				return nil, err
			}
			g.SRID = int(v)
		}
	} else {
		code = t % 1000
		switch t / 1000 {
		case 0:
			g.Layout = geom.XY
		case 1:
			g.Layout = geom.XYZ
		case 2:
			g.Layout = geom.XYM
		case 3:
			g.Layout = geom.XYZM
		default:
			return nil, fmt.Errorf("ref: bad dimension code in type %d", t)
		}
	}
	stride := g.Layout.Stride()
	child := func(want model.Kind) (*model.G, error) {
		c, err := r.geom(depth + 1)
		if err != nil {
			return nil, err
		}
		if c.Kind != want {
			return nil, fmt.Errorf("ref: child %s where %s expected", c.Kind, want)
		}
		if c.Layout != g.Layout {
			return nil, fmt.Errorf("ref: child layout %s in %s parent", c.Layout, g.Layout)
		}
		return c, nil
	}
	switch code {
	case 1:
		g.Kind = model.Point
		c, err := r.coord(bo, stride)
		if err != nil {
			return nil, err
		}
		empty := r.o.EWKB || r.o.NaNEmptyPoint
		for _, v := range c {
			if math.Float64bits(v) != emptyNaNBits {
				empty = false
			}
		}
		if !empty {
			g.C0 = c
		}
	case 2:
		g.Kind = model.LineString
		if g.C1, err = r.coordList(bo, stride); err != nil {
			return nil, err
		}
	case 3:
		g.Kind = model.Polygon
		n, err := r.cnt(bo, 2, 4)
		if err != nil {
			return nil, err
		}
		ringCap := int(n)
		if max := (len(r.b)-r.pos)/4 + 1; ringCap > max {
			ringCap = max
		}
		g.C2 = make([][][]float64, 0, ringCap)
		for i := uint32(0); i < n; i++ {
			l, err := r.coordList(bo, stride)
			if err != nil {
				return nil, err
			}
			g.C2 = append(g.C2, l)
		}
	case 4, 5, 6, 7:
		lvl := map[uint32]int{4: 1, 5: 2, 6: 3, 7: 0}[code]
		if code == 7 && r.o.EWKB {
			lvl = 1
		}
		// the decoders allocate nothing proportional to a multi/collection count up
		// front, so an unbacked count there is an ordinary truncation, not a hazard
		n, err := r.cnt(bo, lvl, 0)
		if err != nil {
			return nil, err
		}
		capHint := int(n)
		if max := (len(r.b)-r.pos)/5 + 1; capHint > max {
			capHint = max
		}
		switch code {
		case 4:
			g.Kind = model.MultiPoint
			g.C1 = make([][]float64, 0, capHint)
		case 5:
			g.Kind = model.MultiLineString
			g.C2 = make([][][]float64, 0, capHint)
		case 6:
			g.Kind = model.MultiPolygon
			g.C3 = make([][][][]float64, 0, capHint)
		case 7:
			g.Kind = model.Collection
		}
		for i := uint32(0); i < n; i++ {
			switch code {
			case 4:
				c, err := child(model.Point)
				if err != nil {
					return nil, err
				}
				g.C1 = append(g.C1, c.C0)
			case 5:
				c, err := child(model.LineString)
				if err != nil {
					return nil, err
				}
				g.C2 = append(g.C2, c.C1)
			case 6:
				c, err := child(model.Polygon)
				if err != nil {
					return nil, err
				}
				g.C3 = append(g.C3, c.C2)
			case 7:
				c, err := r.geom(depth + 1)
				if err != nil {
					return nil, err
				}
				g.Members = append(g.Members, c)
			}
		}
		if code == 7 {
			// an empty collection keeps the layout of its type word; a non-empty one
			// reports the join of its members
			if len(g.Members) == 0 {
				g.Fixed = true
			} else {
				g.Layout = geom.NoLayout
			}
		}
	default:
		return nil, fmt.Errorf("ref: unsupported geometry type code %d", code)
	}
	return g, nil
}

// ReadWKB decodes one geometry and returns the number of bytes it occupies.
func ReadWKB(b []byte, o WKBOpts) (*model.G, int, error) {
	r := &wkbReader{o: o, b: b}
	g, err := r.geom(0)
	if err != nil {
		return nil, r.pos, err
	}
	return g, r.pos, nil
}
