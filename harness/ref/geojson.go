package ref

import (
	"fmt"

	geom "github.com/twpayne/go-geom"

	"verifharness/model"
)

// GeoJSONToModel reads an RFC 7946 geometry object from a parsed JSON tree.
// The layout is taken from the length of the first position found (2 XY, 3 XYZ,
// 4 XYZM, n Layout(n)); a geometry without positions is XY.
func GeoJSONToModel(v any) (*model.G, error) {
	o, ok := v.(*JObj)
	if !ok {
		return nil, fmt.Errorf("refgeojson: geometry is not an object")
	}
	ts, ok := o.Vals["type"].(string)
	if !ok {
		return nil, fmt.Errorf("refgeojson: missing type")
	}
	kinds := map[string]model.Kind{"Point": model.Point, "LineString": model.LineString, "Polygon": model.Polygon,
		"MultiPoint": model.MultiPoint, "MultiLineString": model.MultiLineString, "MultiPolygon": model.MultiPolygon, "GeometryCollection": model.Collection}
	kind, ok := kinds[ts]
	if !ok {
		return nil, fmt.Errorf("refgeojson: unknown type %q", ts)
	}
	g := &model.G{Kind: kind}
	if kind == model.Collection {
		arr, ok := o.Vals["geometries"].([]any)
		if !ok {
			return nil, fmt.Errorf("refgeojson: geometries is not an array")
		}
		for _, e := range arr {
			m, err := GeoJSONToModel(e)
			if err != nil {
				return nil, err
			}
			g.Members = append(g.Members, m)
		}
		return g, nil
	}
	n := 0
	pos := func(v any) ([]float64, error) {
		if v == nil {
			return nil, nil
		}
		arr, ok := v.([]any)
		if !ok {
			return nil, fmt.Errorf("refgeojson: position is not an array")
		}
		c := make([]float64, len(arr))
		for i, e := range arr {
			num, ok := e.(JNum)
			if !ok {
				return nil, fmt.Errorf("refgeojson: ordinate is not a number")
			}
			f, _, err := ParseDecimal(string(num))
			if err != nil {
				return nil, err
			}
			c[i] = f
		}
		if n == 0 {
			n = len(c)
		}
		return c, nil
	}
	list := func(v any) ([][]float64, error) {
		arr, ok := v.([]any)
		if !ok {
			return nil, fmt.Errorf("refgeojson: coordinate list is not an array")
		}
		out := make([][]float64, 0, len(arr))
		for _, e := range arr {
			c, err := pos(e)
			if err != nil {
				return nil, err
			}
			out = append(out, c)
		}
		return out, nil
	}
	list2 := func(v any) ([][][]float64, error) {
		arr, ok := v.([]any)
		if !ok {
			return nil, fmt.Errorf("refgeojson: ring list is not an array")
		}
		out := make([][][]float64, 0, len(arr))
		for _, e := range arr {
			l, err := list(e)
			if err != nil {
				return nil, err
			}
			out = append(out, l)
		}
		return out, nil
	}
	cv, has := o.Vals["coordinates"]
	if !has {
		return nil, fmt.Errorf("refgeojson: missing coordinates")
	}
	var err error
	switch kind {
	case model.Point:
		arr, ok := cv.([]any)
		if !ok {
			return nil, fmt.Errorf("refgeojson: point coordinates is not an array")
		}
		if len(arr) > 0 {
			g.C0, err = pos(cv)
		}
	case model.LineString, model.MultiPoint:
		g.C1, err = list(cv)
	case model.Polygon, model.MultiLineString:
		g.C2, err = list2(cv)
	case model.MultiPolygon:
		arr, ok := cv.([]any)
		if !ok {
			return nil, fmt.Errorf("refgeojson: polygon list is not an array")
		}
		for _, e := range arr {
			p, e2 := list2(e)
			if e2 != nil {
				return nil, e2
			}
			g.C3 = append(g.C3, p)
		}
	}
	if err != nil {
		return nil, err
	}
	switch n {
	case 0, 2:
		g.Layout = geom.XY
	case 3:
		g.Layout = geom.XYZ
	case 4:
		g.Layout = geom.XYZM
	default:
		g.Layout = geom.Layout(n)
	}
	return g, nil
}
