package ref

import (
	"math"
	"testing"

	geom "github.com/twpayne/go-geom"

	"verifharness/fw"
	"verifharness/model"
)

// OGC 06-103r4 (SFA 1.2.1) section 7.2 examples and PostGIS spellings.
func TestWKTVectors(t *testing.T) {
	cases := []struct {
		s    string
		want *model.G
	}{
		{"POINT (10 10)", &model.G{Kind: model.Point, Layout: geom.XY, C0: []float64{10, 10}}},
		{"LINESTRING (10 10, 20 20, 30 40)", &model.G{Kind: model.LineString, Layout: geom.XY, C1: [][]float64{{10, 10}, {20, 20}, {30, 40}}}},
		{"POLYGON ((10 10, 10 20, 20 20, 20 15, 10 10))", &model.G{Kind: model.Polygon, Layout: geom.XY, C2: [][][]float64{{{10, 10}, {10, 20}, {20, 20}, {20, 15}, {10, 10}}}}},
		{"MULTIPOINT ((10 10), (20 20))", &model.G{Kind: model.MultiPoint, Layout: geom.XY, C1: [][]float64{{10, 10}, {20, 20}}}},
		{"MULTIPOINT (10 10, 20 20)", &model.G{Kind: model.MultiPoint, Layout: geom.XY, C1: [][]float64{{10, 10}, {20, 20}}}},
		{"multilinestring ((10 10, 20 20), (15 15, 30 15))", &model.G{Kind: model.MultiLineString, Layout: geom.XY, C2: [][][]float64{{{10, 10}, {20, 20}}, {{15, 15}, {30, 15}}}}},
		{"MULTIPOLYGON (((10 10, 10 20, 20 20, 20 15, 10 10)), ((60 60, 70 70, 80 60, 60 60)))", &model.G{Kind: model.MultiPolygon, Layout: geom.XY,
			C3: [][][][]float64{{{{10, 10}, {10, 20}, {20, 20}, {20, 15}, {10, 10}}}, {{{60, 60}, {70, 70}, {80, 60}, {60, 60}}}}}},
		{"GEOMETRYCOLLECTION (POINT (10 10), POINT (30 30), LINESTRING (15 15, 20 20))", &model.G{Kind: model.Collection, Members: []*model.G{
			{Kind: model.Point, Layout: geom.XY, C0: []float64{10, 10}}, {Kind: model.Point, Layout: geom.XY, C0: []float64{30, 30}},
			{Kind: model.LineString, Layout: geom.XY, C1: [][]float64{{15, 15}, {20, 20}}}}}},
		{"POINT Z (1 2 3)", &model.G{Kind: model.Point, Layout: geom.XYZ, C0: []float64{1, 2, 3}}},
		{"POINTZM(1 2 3 4)", &model.G{Kind: model.Point, Layout: geom.XYZM, C0: []float64{1, 2, 3, 4}}},
		{"Point m\n(1 2 3)", &model.G{Kind: model.Point, Layout: geom.XYM, C0: []float64{1, 2, 3}}},
		{"POINT(1 2 3)", &model.G{Kind: model.Point, Layout: geom.XYZ, C0: []float64{1, 2, 3}}},
		{"POINT EMPTY", &model.G{Kind: model.Point, Layout: geom.XY}},
		{"MULTIPOLYGON Z EMPTY", &model.G{Kind: model.MultiPolygon, Layout: geom.XYZ}},
		{"MULTIPOINT (EMPTY, 1 2)", &model.G{Kind: model.MultiPoint, Layout: geom.XY, C1: [][]float64{nil, {1, 2}}}},
		{"POINT(-1.5e3 .5)", &model.G{Kind: model.Point, Layout: geom.XY, C0: []float64{-1500, 0.5}}},
	}
	for _, tc := range cases {
		g, err := ReadWKT(tc.s)
		if err != nil {
			t.Errorf("%q: %v", tc.s, err)
			continue
		}
		if d := model.Equal(tc.want, g, model.Opts{}); d != "" {
			t.Errorf("%q: %s (got %s)", tc.s, d, g)
		}
		// every spelling reads back to the same model
		for seed := 0; seed < 20; seed++ {
			st := &WKTStyle{R: fw.NewRand(uint64(seed), "t", "t", 0), MixedCase: seed%2 == 0, Whitespace: seed%3 == 0, BareMultiPt: seed%5 == 0, DetachSuffix: seed%7 < 3, ExponentNums: seed%4 == 0}
			sp := st.Spell(tc.want)
			g2, err := ReadWKT(sp)
			if err != nil {
				t.Errorf("spelling %q of %q: %v", sp, tc.s, err)
				continue
			}
			if d := model.Equal(tc.want, g2, model.Opts{}); d != "" {
				t.Errorf("spelling %q of %q: %s", sp, tc.s, d)
			}
		}
	}
	for _, bad := range []string{"POINT", "POINT (1)", "POINT (1 2", "LINESTRING (1 2, 3)", "POINT Z (1 2)", "FOO (1 2)", "POINT (1 2) x"} {
		if _, err := ReadWKT(bad); err == nil {
			t.Errorf("%q accepted", bad)
		}
	}
}

func TestParseDecimal(t *testing.T) {
	cases := map[string]float64{
		"0.1": 0.1, "1e23": 1e23, "9007199254740993": 9007199254740992, "9007199254740995": 9007199254740996,
		"2.2250738585072011e-308": 2.2250738585072011e-308, "4.9e-324": 5e-324, "1.7976931348623157e308": math.MaxFloat64,
		"0.000001": 1e-6, "123456789012345678901234567890": 1.2345678901234568e29,
	}
	for s, want := range cases {
		got, _, err := ParseDecimal(s)
		if err != nil || math.Float64bits(got) != math.Float64bits(want) {
			t.Errorf("%s: got %v (%v), want %v", s, got, err, want)
		}
	}
	if got, _, _ := ParseDecimal("-0"); !math.Signbit(got) || got != 0 {
		t.Errorf("-0: got %v", got)
	}
}
