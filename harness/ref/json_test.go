package ref

import (
	"testing"

	geom "github.com/twpayne/go-geom"

	"verifharness/model"
)

// RFC 7946 appendix A examples.
func TestGeoJSONVectors(t *testing.T) {
	cases := []struct {
		s    string
		want *model.G
	}{
		{`{"type": "Point", "coordinates": [100.0, 0.0]}`, &model.G{Kind: model.Point, Layout: geom.XY, C0: []float64{100, 0}}},
		{`{"type":"LineString","coordinates":[[100.0,0.0],[101.0,1.0]]}`, &model.G{Kind: model.LineString, Layout: geom.XY, C1: [][]float64{{100, 0}, {101, 1}}}},
		{`{"type":"Polygon","coordinates":[[[100.0,0.0],[101.0,0.0],[101.0,1.0],[100.0,1.0],[100.0,0.0]],[[100.8,0.8],[100.8,0.2],[100.2,0.2],[100.2,0.8],[100.8,0.8]]]}`,
			&model.G{Kind: model.Polygon, Layout: geom.XY, C2: [][][]float64{{{100, 0}, {101, 0}, {101, 1}, {100, 1}, {100, 0}}, {{100.8, 0.8}, {100.8, 0.2}, {100.2, 0.2}, {100.2, 0.8}, {100.8, 0.8}}}}},
		{`{"type":"MultiPoint","coordinates":[[100.0,0.0],[101.0,1.0]]}`, &model.G{Kind: model.MultiPoint, Layout: geom.XY, C1: [][]float64{{100, 0}, {101, 1}}}},
		{`{"type":"MultiPolygon","coordinates":[[[[102.0,2.0],[103.0,2.0],[103.0,3.0],[102.0,3.0],[102.0,2.0]]]]}`,
			&model.G{Kind: model.MultiPolygon, Layout: geom.XY, C3: [][][][]float64{{{{102, 2}, {103, 2}, {103, 3}, {102, 3}, {102, 2}}}}}},
		{`{"type":"GeometryCollection","geometries":[{"type":"Point","coordinates":[100.0,0.0]},{"type":"LineString","coordinates":[[101.0,0.0],[102.0,1.0]]}]}`,
			&model.G{Kind: model.Collection, Members: []*model.G{{Kind: model.Point, Layout: geom.XY, C0: []float64{100, 0}}, {Kind: model.LineString, Layout: geom.XY, C1: [][]float64{{101, 0}, {102, 1}}}}}},
		{`{"coordinates":[1e2,-2.5E-1,3],"type":"Point"}`, &model.G{Kind: model.Point, Layout: geom.XYZ, C0: []float64{100, -0.25, 3}}},
	}
	for _, tc := range cases {
		v, err := ReadJSON([]byte(tc.s))
		if err != nil {
			t.Errorf("%s: %v", tc.s, err)
			continue
		}
		g, err := GeoJSONToModel(v)
		if err != nil {
			t.Errorf("%s: %v", tc.s, err)
			continue
		}
		if d := model.Equal(tc.want, g, model.Opts{}); d != "" {
			t.Errorf("%s: %s", tc.s, d)
		}
	}
	for _, bad := range []string{`{`, `{"a":1,}`, `[1,]`, `01`, `1.`, `"\x"`, `{"a" 1}`, `nul`, `[1] 2`, "\"a\nb\""} {
		if _, err := ReadJSON([]byte(bad)); err == nil {
			t.Errorf("%q accepted", bad)
		}
	}
	v, err := ReadJSON([]byte(`{"s":"aé😀\n","n":-0.0e+0,"t":[true,false,null]}`))
	if err != nil {
		t.Fatal(err)
	}
	o := v.(*JObj)
	if o.Vals["s"].(string) != "aé😀\n" || o.Vals["n"].(JNum) != "-0.0e+0" {
		t.Errorf("got %#v", o.Vals)
	}
}
