package ref

import (
	"encoding/hex"
	"strings"
	"testing"

	geom "github.com/twpayne/go-geom"

	"verifharness/model"
)

// Hand-checked vectors (PostGIS ST_AsBinary / ST_AsEWKB output, ISO 13249-3 type codes).
func TestWKBVectors(t *testing.T) {
	pt := func(l geom.Layout, c ...float64) *model.G { return &model.G{Kind: model.Point, Layout: l, C0: c} }
	cases := []struct {
		name string
		g    *model.G
		o    WKBOpts
		hex  string
	}{
		{"POINT(1 2) NDR", pt(geom.XY, 1, 2), WKBOpts{}, "0101000000000000000000F03F0000000000000040"},
		{"POINT(1 2) XDR", pt(geom.XY, 1, 2), WKBOpts{BigEndian: true}, "00000000013FF00000000000004000000000000000"},
		{"SRID=4326;POINT(1 2)", &model.G{Kind: model.Point, Layout: geom.XY, SRID: 4326, C0: []float64{1, 2}}, WKBOpts{EWKB: true}, "0101000020E6100000000000000000F03F0000000000000040"},
		{"POINT Z ISO", pt(geom.XYZ, 1, 2, 3), WKBOpts{}, "01E9030000000000000000F03F00000000000000400000000000000840"},
		{"POINT Z EWKB", pt(geom.XYZ, 1, 2, 3), WKBOpts{EWKB: true}, "0101000080000000000000F03F00000000000000400000000000000840"},
		{"POINT M ISO", pt(geom.XYM, 1, 2, 3), WKBOpts{}, "01D1070000000000000000F03F00000000000000400000000000000840"},
		{"POINT M EWKB", pt(geom.XYM, 1, 2, 3), WKBOpts{EWKB: true}, "0101000040000000000000F03F00000000000000400000000000000840"},
		{"POINT ZM ISO", pt(geom.XYZM, 1, 2, 3, 4), WKBOpts{}, "01B90B0000000000000000F03F000000000000004000000000000008400000000000001040"},
		{"POINT ZM EWKB", pt(geom.XYZM, 1, 2, 3, 4), WKBOpts{EWKB: true}, "01010000C0000000000000F03F000000000000004000000000000008400000000000001040"},
		{"LINESTRING(1 2,3 4)", &model.G{Kind: model.LineString, Layout: geom.XY, C1: [][]float64{{1, 2}, {3, 4}}}, WKBOpts{}, "010200000002000000000000000000F03F000000000000004000000000000008400000000000001040"},
		{"POLYGON((0 0,1 0,1 1,0 0))", &model.G{Kind: model.Polygon, Layout: geom.XY, C2: [][][]float64{{{0, 0}, {1, 0}, {1, 1}, {0, 0}}}}, WKBOpts{},
			"01030000000100000004000000" + "00000000000000000000000000000000" + "000000000000F03F0000000000000000" + "000000000000F03F000000000000F03F" + "00000000000000000000000000000000"},
		{"MULTIPOINT((1 2))", &model.G{Kind: model.MultiPoint, Layout: geom.XY, C1: [][]float64{{1, 2}}}, WKBOpts{}, "0104000000010000000101000000000000000000F03F0000000000000040"},
		{"GEOMETRYCOLLECTION EMPTY", &model.G{Kind: model.Collection}, WKBOpts{}, "010700000000000000"},
		{"POINT EMPTY EWKB", &model.G{Kind: model.Point, Layout: geom.XY}, WKBOpts{EWKB: true}, "0101000000000000000000F87F000000000000F87F"},
		{"MULTILINESTRING Z ((1 2 3,4 5 6)) EWKB srid", &model.G{Kind: model.MultiLineString, Layout: geom.XYZ, SRID: 1, C2: [][][]float64{{{1, 2, 3}, {4, 5, 6}}}}, WKBOpts{EWKB: true},
			"01050000A00100000001000000" + "010200008002000000" + "000000000000F03F00000000000000400000000000000840" + "000000000000104000000000000014400000000000001840"},
		{"GEOMETRYCOLLECTION(POINT(1 2)) ISO", &model.G{Kind: model.Collection, Members: []*model.G{pt(geom.XY, 1, 2)}}, WKBOpts{}, "0107000000010000000101000000000000000000F03F0000000000000040"},
	}
	for _, tc := range cases {
		got, _, err := WriteWKB(tc.g, tc.o)
		if err != nil {
			t.Errorf("%s: %v", tc.name, err)
			continue
		}
		if h := strings.ToUpper(hex.EncodeToString(got)); h != tc.hex {
			t.Errorf("%s:\n got  %s\n want %s", tc.name, h, tc.hex)
		}
		want, _ := hex.DecodeString(tc.hex)
		back, n, err := ReadWKB(want, tc.o)
		if err != nil || n != len(want) {
			t.Errorf("%s: read back: %v (consumed %d of %d)", tc.name, err, n, len(want))
			continue
		}
		tg := tc.g
		if tc.g.Kind == model.Collection && len(tc.g.Members) == 0 {
			// the type word of an empty collection carries a layout
			tg = &model.G{Kind: model.Collection, Layout: geom.XY, Fixed: true}
		}
		if d := model.Equal(tg, back, model.Opts{}); d != "" {
			t.Errorf("%s: read back differs: %s", tc.name, d)
		}
	}
}
