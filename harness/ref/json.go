package ref

import (
	"fmt"
	"strconv"
	"unicode/utf8"
)

// Reference JSON reader (RFC 8259), recursive descent.  Numbers are kept as
// their exact decimal text.

type JNum string

type JObj struct {
	Keys []string
	Vals map[string]any
}

type jsonReader struct {
	b     []byte
	pos   int
	depth int
}

func (r *jsonReader) ws() {
	for r.pos < len(r.b) {
		switch r.b[r.pos] {
		case ' ', '\t', '\n', '\r':
			r.pos++
		default:
			return
		}
	}
}

func (r *jsonReader) fail(msg string) error { return fmt.Errorf("refjson: %s at %d", msg, r.pos) }

func (r *jsonReader) value() (any, error) {
	r.ws()
	if r.pos >= len(r.b) {
		return nil, r.fail("unexpected end")
	}
	r.depth++
	defer func() { r.depth-- }()
	if r.depth > 2000 {
		return nil, r.fail("too deep")
	}
	switch c := r.b[r.pos]; {
	case c == '{':
		r.pos++
		o := &JObj{Vals: map[string]any{}}
		r.ws()
		if r.pos < len(r.b) && r.b[r.pos] == '}' {
			r.pos++
			return o, nil
		}
		for {
			r.ws()
			if r.pos >= len(r.b) || r.b[r.pos] != '"' {
				return nil, r.fail("object key expected")
			}
			k, err := r.str()
			if err != nil {
				return nil, err
			}
			r.ws()
			if r.pos >= len(r.b) || r.b[r.pos] != ':' {
				return nil, r.fail("':' expected")
			}
			r.pos++
			v, err := r.value()
			if err != nil {
				return nil, err
			}
			if _, dup := o.Vals[k]; !dup {
				o.Keys = append(o.Keys, k)
			}
			o.Vals[k] = v
			r.ws()
			if r.pos >= len(r.b) {
				return nil, r.fail("unexpected end in object")
			}
			if r.b[r.pos] == ',' {
				r.pos++
				continue
			}
			if r.b[r.pos] == '}' {
				r.pos++
				return o, nil
			}
			return nil, r.fail("',' or '}' expected")
		}
	case c == '[':
		r.pos++
		arr := []any{}
		r.ws()
		if r.pos < len(r.b) && r.b[r.pos] == ']' {
			r.pos++
			return arr, nil
		}
		for {
			v, err := r.value()
			if err != nil {
				return nil, err
			}
			arr = append(arr, v)
			r.ws()
			if r.pos >= len(r.b) {
				return nil, r.fail("unexpected end in array")
			}
			if r.b[r.pos] == ',' {
				r.pos++
				continue
			}
			if r.b[r.pos] == ']' {
				r.pos++
				return arr, nil
			}
			return nil, r.fail("',' or ']' expected")
		}
	case c == '"':
		return r.str()
	case c == 't':
		return r.lit("true", true)
	case c == 'f':
		return r.lit("false", false)
	case c == 'n':
		return r.lit("null", nil)
	case c == '-' || c >= '0' && c <= '9':
		return r.num()
	}
	return nil, r.fail("unexpected character")
}

func (r *jsonReader) lit(s string, v any) (any, error) {
	if r.pos+len(s) <= len(r.b) && string(r.b[r.pos:r.pos+len(s)]) == s {
		r.pos += len(s)
		return v, nil
	}
	return nil, r.fail("bad literal")
}

func (r *jsonReader) num() (any, error) {
	st := r.pos
	if r.b[r.pos] == '-' {
		r.pos++
	}
	digits := func() int {
		n := 0
		for r.pos < len(r.b) && r.b[r.pos] >= '0' && r.b[r.pos] <= '9' {
			r.pos++
			n++
		}
		return n
	}
	if r.pos < len(r.b) && r.b[r.pos] == '0' {
		r.pos++
	} else if digits() == 0 {
		return nil, r.fail("digit expected")
	}
	if r.pos < len(r.b) && r.b[r.pos] == '.' {
		r.pos++
		if digits() == 0 {
			return nil, r.fail("fraction digit expected")
		}
	}
	if r.pos < len(r.b) && (r.b[r.pos] == 'e' || r.b[r.pos] == 'E') {
		r.pos++
		if r.pos < len(r.b) && (r.b[r.pos] == '+' || r.b[r.pos] == '-') {
			r.pos++
		}
		if digits() == 0 {
			return nil, r.fail("exponent digit expected")
		}
	}
	return JNum(r.b[st:r.pos]), nil
}

func (r *jsonReader) str() (string, error) {
	r.pos++ // opening quote
	var out []byte
	for {
		if r.pos >= len(r.b) {
			return "", r.fail("unterminated string")
		}
		c := r.b[r.pos]
		switch {
		case c == '"':
			r.pos++
			return string(out), nil
		case c < 0x20:
			return "", r.fail("control character in string")
		case c == '\\':
			r.pos++
			if r.pos >= len(r.b) {
				return "", r.fail("bad escape")
			}
			e := r.b[r.pos]
			r.pos++
			switch e {
			case '"', '\\', '/':
				out = append(out, e)
			case 'b':
				out = append(out, '\b')
			case 'f':
				out = append(out, '\f')
			case 'n':
				out = append(out, '\n')
			case 'r':
				out = append(out, '\r')
			case 't':
				out = append(out, '\t')
			case 'u':
				cp, err := r.hex4()
				if err != nil {
					return "", err
				}
				if cp >= 0xD800 && cp < 0xDC00 && r.pos+6 <= len(r.b) && r.b[r.pos] == '\\' && r.b[r.pos+1] == 'u' {
					save := r.pos
					r.pos += 2
					lo, err := r.hex4()
					if err == nil && lo >= 0xDC00 && lo < 0xE000 {
						cp = 0x10000 + (cp-0xD800)<<10 + (lo - 0xDC00)
					} else {
						r.pos = save
					}
				}
				var buf [4]byte
				n := utf8.EncodeRune(buf[:], rune(cp))
				out = append(out, buf[:n]...)
			default:
				return "", r.fail("bad escape")
			}
		default:
			out = append(out, c)
			r.pos++
		}
	}
}

func (r *jsonReader) hex4() (int, error) {
	if r.pos+4 > len(r.b) {
		return 0, r.fail("bad \\u escape")
	}
	v, err := strconv.ParseUint(string(r.b[r.pos:r.pos+4]), 16, 32)
	if err != nil {
		return 0, r.fail("bad \\u escape")
	}
	r.pos += 4
	return int(v), nil
}

// ReadJSON parses one JSON text.
func ReadJSON(b []byte) (any, error) {
	r := &jsonReader{b: b}
	v, err := r.value()
	if err != nil {
		return nil, err
	}
	r.ws()
	if r.pos != len(b) {
		return nil, r.fail("trailing data")
	}
	return v, nil
}

// JSONNumbers collects every number under v in document order.
func JSONNumbers(v any, out *[]JNum) {
	switch x := v.(type) {
	case JNum:
		*out = append(*out, x)
	case []any:
		for _, e := range x {
			JSONNumbers(e, out)
		}
	case *JObj:
		for _, k := range x.Keys {
			JSONNumbers(x.Vals[k], out)
		}
	}
}
