package ref

import (
	"fmt"
	"math"
	"math/big"
	"strconv"
	"strings"

	geom "github.com/twpayne/go-geom"

	"verifharness/fw"
	"verifharness/model"
)

// ---- reference WKT reader (OGC SFA 1.2.1 text, plus EMPTY members and bare
// multipoint members as PostGIS writes them) ----

type wktReader struct {
	s   string
	pos int
}

func (r *wktReader) ws() {
	for r.pos < len(r.s) {
		switch r.s[r.pos] {
		case ' ', '\t', '\n', '\r', '\f', '\v':
			r.pos++
		default:
			return
		}
	}
}

func isLetter(b byte) bool { return b >= 'a' && b <= 'z' || b >= 'A' && b <= 'Z' }

func (r *wktReader) word() string {
	r.ws()
	st := r.pos
	for r.pos < len(r.s) && isLetter(r.s[r.pos]) {
		r.pos++
	}
	return strings.ToUpper(r.s[st:r.pos])
}

func (r *wktReader) peekByte() byte {
	r.ws()
	if r.pos < len(r.s) {
		return r.s[r.pos]
	}
	return 0
}

func (r *wktReader) expect(b byte) error {
	if r.peekByte() != b {
		return fmt.Errorf("refwkt: expected %q at %d", b, r.pos)
	}
	r.pos++
	return nil
}

// ParseDecimal converts a decimal numeral to the nearest float64 through exact
// rational arithmetic (it does not use strconv.ParseFloat).
func ParseDecimal(tok string) (float64, *big.Rat, error) {
	if tok == "" {
		return 0, nil, fmt.Errorf("refwkt: empty number")
	}
	for i := 0; i < len(tok); i++ {
		c := tok[i]
		if !(c >= '0' && c <= '9' || c == '-' || c == '+' || c == '.' || c == 'e' || c == 'E') {
			return 0, nil, fmt.Errorf("refwkt: bad number %q", tok)
		}
	}
	q, ok := new(big.Rat).SetString(tok)
	if !ok {
		return 0, nil, fmt.Errorf("refwkt: bad number %q", tok)
	}
	f, _ := q.Float64()
	if f == 0 && strings.HasPrefix(tok, "-") {
		f = math.Copysign(0, -1)
	}
	return f, q, nil
}

func (r *wktReader) number() (float64, error) {
	r.ws()
	st := r.pos
	for r.pos < len(r.s) {
		c := r.s[r.pos]
		if c >= '0' && c <= '9' || c == '-' || c == '+' || c == '.' || c == 'e' || c == 'E' {
			r.pos++
		} else {
			break
		}
	}
	f, _, err := ParseDecimal(r.s[st:r.pos])
	return f, err
}

func (r *wktReader) coord() ([]float64, error) {
	var c []float64
	for {
		f, err := r.number()
		if err != nil {
			return nil, err
		}
		c = append(c, f)
		b := r.peekByte()
		if !(b >= '0' && b <= '9' || b == '-' || b == '.') {
			return c, nil
		}
	}
}

func (r *wktReader) isEmptyWord() bool {
	r.ws()
	if r.pos+5 <= len(r.s) && strings.EqualFold(r.s[r.pos:r.pos+5], "EMPTY") {
		if r.pos+5 == len(r.s) || !isLetter(r.s[r.pos+5]) {
			r.pos += 5
			return true
		}
	}
	return false
}

func (r *wktReader) coordList() ([][]float64, error) {
	if err := r.expect('('); err != nil {
		return nil, err
	}
	var out [][]float64
	for {
		c, err := r.coord()
		if err != nil {
			return nil, err
		}
		out = append(out, c)
		if r.peekByte() == ',' {
			r.pos++
			continue
		}
		return out, r.expect(')')
	}
}

func (r *wktReader) ringList() ([][][]float64, error) {
	if err := r.expect('('); err != nil {
		return nil, err
	}
	var out [][][]float64
	for {
		if r.isEmptyWord() {
			out = append(out, nil)
		} else {
			l, err := r.coordList()
			if err != nil {
				return nil, err
			}
			out = append(out, l)
		}
		if r.peekByte() == ',' {
			r.pos++
			continue
		}
		return out, r.expect(')')
	}
}

type wktDims struct {
	layout  geom.Layout // NoLayout = not yet known
	tagged  bool
	strides map[int]bool
}

func (d *wktDims) see(n int) { d.strides[n] = true }

func (r *wktReader) geometry() (*model.G, error) {
	w := r.word()
	kinds := map[string]model.Kind{"POINT": model.Point, "LINESTRING": model.LineString, "POLYGON": model.Polygon,
		"MULTIPOINT": model.MultiPoint, "MULTILINESTRING": model.MultiLineString, "MULTIPOLYGON": model.MultiPolygon, "GEOMETRYCOLLECTION": model.Collection}
	suffix := ""
	for _, sfx := range []string{"ZM", "Z", "M"} {
		if strings.HasSuffix(w, sfx) {
			if _, ok := kinds[strings.TrimSuffix(w, sfx)]; ok {
				suffix = sfx
				w = strings.TrimSuffix(w, sfx)
				break
			}
		}
	}
	kind, ok := kinds[w]
	if !ok {
		return nil, fmt.Errorf("refwkt: unknown geometry type %q", w)
	}
	if suffix == "" {
		// detached suffix
		save := r.pos
		s2 := r.word()
		switch s2 {
		case "Z", "M", "ZM":
			suffix = s2
		default:
			r.pos = save
		}
	}
	g := &model.G{Kind: kind}
	tagLayout := geom.NoLayout
	switch suffix {
	case "Z":
		tagLayout = geom.XYZ
	case "M":
		tagLayout = geom.XYM
	case "ZM":
		tagLayout = geom.XYZM
	}
	strides := map[int]bool{}
	see := func(cs ...[]float64) {
		for _, c := range cs {
			strides[len(c)] = true
		}
	}
	if r.isEmptyWord() {
		g.Layout = tagLayout
		if tagLayout == geom.NoLayout {
			g.Layout = geom.XY
		}
		if kind == model.Collection {
			g.Fixed = true
		}
		return g, nil
	}
	switch kind {
	case model.Point:
		if err := r.expect('('); err != nil {
			return nil, err
		}
		c, err := r.coord()
		if err != nil {
			return nil, err
		}
		g.C0 = c
		see(c)
		if err := r.expect(')'); err != nil {
			return nil, err
		}
	case model.LineString:
		l, err := r.coordList()
		if err != nil {
			return nil, err
		}
		g.C1 = l
		see(l...)
	case model.Polygon:
		rl, err := r.ringList()
		if err != nil {
			return nil, err
		}
		g.C2 = rl
		for _, l := range rl {
			see(l...)
		}
	case model.MultiPoint:
		if err := r.expect('('); err != nil {
			return nil, err
		}
		for {
			if r.isEmptyWord() {
				g.C1 = append(g.C1, nil)
			} else if r.peekByte() == '(' {
				r.pos++
				c, err := r.coord()
				if err != nil {
					return nil, err
				}
				if err := r.expect(')'); err != nil {
					return nil, err
				}
				g.C1 = append(g.C1, c)
				see(c)
			} else {
				c, err := r.coord()
				if err != nil {
					return nil, err
				}
				g.C1 = append(g.C1, c)
				see(c)
			}
			if r.peekByte() == ',' {
				r.pos++
				continue
			}
			if err := r.expect(')'); err != nil {
				return nil, err
			}
			break
		}
	case model.MultiLineString:
		rl, err := r.ringList()
		if err != nil {
			return nil, err
		}
		g.C2 = rl
		for _, l := range rl {
			see(l...)
		}
	case model.MultiPolygon:
		if err := r.expect('('); err != nil {
			return nil, err
		}
		for {
			if r.isEmptyWord() {
				g.C3 = append(g.C3, nil)
			} else {
				rl, err := r.ringList()
				if err != nil {
					return nil, err
				}
				g.C3 = append(g.C3, rl)
				for _, l := range rl {
					see(l...)
				}
			}
			if r.peekByte() == ',' {
				r.pos++
				continue
			}
			if err := r.expect(')'); err != nil {
				return nil, err
			}
			break
		}
	case model.Collection:
		if err := r.expect('('); err != nil {
			return nil, err
		}
		for {
			m, err := r.geometry()
			if err != nil {
				return nil, err
			}
			g.Members = append(g.Members, m)
			if r.peekByte() == ',' {
				r.pos++
				continue
			}
			if err := r.expect(')'); err != nil {
				return nil, err
			}
			break
		}
		g.Layout = geom.NoLayout
		if tagLayout != geom.NoLayout {
			for _, m := range g.Members {
				if m.CollectionLayout() != tagLayout {
					return nil, fmt.Errorf("refwkt: member dimensionality %s in a %s collection", m.CollectionLayout(), tagLayout)
				}
			}
		}
		return g, nil
	}
	// dimensionality of a non-collection geometry
	if len(strides) > 1 {
		return nil, fmt.Errorf("refwkt: mixed coordinate lengths")
	}
	n := 0
	for k := range strides {
		n = k
	}
	switch {
	case tagLayout != geom.NoLayout:
		if n != 0 && n != tagLayout.Stride() {
			return nil, fmt.Errorf("refwkt: %d ordinates under a %s tag", n, suffix)
		}
		g.Layout = tagLayout
	case n == 2 || n == 0:
		g.Layout = geom.XY
	case n == 3:
		g.Layout = geom.XYZ
	case n == 4:
		g.Layout = geom.XYZM
	default:
		return nil, fmt.Errorf("refwkt: %d ordinates", n)
	}
	return g, nil
}

// ReadWKT parses one geometry; trailing non-blank text is an error.
func ReadWKT(s string) (*model.G, error) {
	r := &wktReader{s: s}
	g, err := r.geometry()
	if err != nil {
		return nil, err
	}
	r.ws()
	if r.pos != len(s) {
		return nil, fmt.Errorf("refwkt: trailing text at %d", r.pos)
	}
	return g, nil
}

// ---- speller ----

// WKTStyle selects one spelling of a geometry's text.
type WKTStyle struct {
	R            *fw.Rand
	MixedCase    bool
	Whitespace   bool // random whitespace/newlines/tabs between tokens
	BareMultiPt  bool // multipoint members without parentheses
	DetachSuffix bool // "POINT Z" instead of "POINTZ"
	ExponentNums bool // numbers in exponent notation
	feat         map[string]bool
}

func (st *WKTStyle) gap(must bool) string {
	if !st.Whitespace {
		if must {
			return " "
		}
		return ""
	}
	opts := []string{"", " ", "  ", "\n", "\t", " \r\n ", "\n\n"}
	if must {
		opts = opts[1:]
	}
	g := opts[st.R.Intn(len(opts))]
	if strings.ContainsAny(g, "\n\t") {
		st.feat["newline-or-tab"] = true
	}
	return g
}

func (st *WKTStyle) kw(s string) string {
	if !st.MixedCase {
		return s
	}
	st.feat["mixed-case"] = true
	b := []byte(s)
	mode := st.R.Intn(3)
	for i := range b {
		switch mode {
		case 0:
			b[i] = byte(strings.ToLower(string(b[i]))[0])
		case 1:
			if st.R.Bool() {
				b[i] = byte(strings.ToLower(string(b[i]))[0])
			}
		}
	}
	return string(b)
}

func (st *WKTStyle) num(f float64) string {
	if f == 0 && math.Signbit(f) {
		return "-0"
	}
	if st.ExponentNums && st.R.Bool() {
		st.feat["exponent"] = true
		s := strconv.FormatFloat(f, 'e', -1, 64)
		s = strings.Replace(s, "e+", "e", 1)
		if st.R.Bool() {
			s = strings.ToUpper(s)
		}
		return s
	}
	return strconv.FormatFloat(f, 'f', -1, 64)
}

func (st *WKTStyle) coord(c []float64) string {
	parts := make([]string, len(c))
	for i, v := range c {
		parts[i] = st.num(v)
	}
	sep := " "
	if st.Whitespace {
		sep = st.gap(true)
	}
	return strings.Join(parts, sep)
}

func (st *WKTStyle) list(items []string) string {
	var sb strings.Builder
	sb.WriteString("(")
	sb.WriteString(st.gap(false))
	for i, it := range items {
		if i > 0 {
			sb.WriteString(st.gap(false))
			sb.WriteString(",")
			sb.WriteString(st.gap(false))
		}
		sb.WriteString(it)
	}
	sb.WriteString(st.gap(false))
	sb.WriteString(")")
	return sb.String()
}

func (st *WKTStyle) coords(cs [][]float64) string {
	items := make([]string, len(cs))
	for i, c := range cs {
		items[i] = st.coord(c)
	}
	return st.list(items)
}

func (st *WKTStyle) rings(rs [][][]float64) string {
	items := make([]string, len(rs))
	for i, r := range rs {
		if len(r) == 0 {
			items[i] = st.kw("EMPTY")
		} else {
			items[i] = st.coords(r)
		}
	}
	return st.list(items)
}

// Spell writes the geometry in the chosen style and returns the features used.
func (st *WKTStyle) Spell(g *model.G) string {
	if st.feat == nil {
		st.feat = map[string]bool{}
	}
	names := map[model.Kind]string{model.Point: "POINT", model.LineString: "LINESTRING", model.LinearRing: "LINESTRING", model.Polygon: "POLYGON",
		model.MultiPoint: "MULTIPOINT", model.MultiLineString: "MULTILINESTRING", model.MultiPolygon: "MULTIPOLYGON", model.Collection: "GEOMETRYCOLLECTION"}
	var sb strings.Builder
	sb.WriteString(st.gap(false))
	sb.WriteString(st.kw(names[g.Kind]))
	sfx := ""
	switch g.CollectionLayout() {
	case geom.XYZ:
		sfx = "Z"
	case geom.XYM:
		sfx = "M"
	case geom.XYZM:
		sfx = "ZM"
	}
	if sfx != "" {
		if st.DetachSuffix {
			st.feat["detached-suffix"] = true
			sb.WriteString(st.gap(true))
		} else {
			st.feat["attached-suffix"] = true
		}
		sb.WriteString(st.kw(sfx))
	}
	empty := false
	switch g.Kind {
	case model.Point:
		empty = len(g.C0) == 0
	case model.LineString, model.LinearRing, model.MultiPoint:
		empty = len(g.C1) == 0
	case model.Polygon, model.MultiLineString:
		empty = len(g.C2) == 0
	case model.MultiPolygon:
		empty = len(g.C3) == 0
	case model.Collection:
		empty = len(g.Members) == 0
	}
	if empty {
		sb.WriteString(st.gap(true))
		sb.WriteString(st.kw("EMPTY"))
		sb.WriteString(st.gap(false))
		return sb.String()
	}
	sb.WriteString(st.gap(false))
	switch g.Kind {
	case model.Point:
		sb.WriteString(st.list([]string{st.coord(g.C0)}))
	case model.LineString, model.LinearRing:
		sb.WriteString(st.coords(g.C1))
	case model.Polygon, model.MultiLineString:
		sb.WriteString(st.rings(g.C2))
	case model.MultiPoint:
		items := make([]string, len(g.C1))
		for i, c := range g.C1 {
			switch {
			case len(c) == 0:
				items[i] = st.kw("EMPTY")
			case st.BareMultiPt:
				st.feat["bare-multipoint-member"] = true
				items[i] = st.coord(c)
			default:
				st.feat["parenthesised-multipoint-member"] = true
				items[i] = st.list([]string{st.coord(c)})
			}
		}
		sb.WriteString(st.list(items))
	case model.MultiPolygon:
		items := make([]string, len(g.C3))
		for i, p := range g.C3 {
			if len(p) == 0 {
				items[i] = st.kw("EMPTY")
			} else {
				items[i] = st.rings(p)
			}
		}
		sb.WriteString(st.list(items))
	case model.Collection:
		items := make([]string, len(g.Members))
		for i, m := range g.Members {
			items[i] = st.Spell(m)
		}
		sb.WriteString(st.list(items))
	}
	sb.WriteString(st.gap(false))
	return sb.String()
}

// Features lists the spelling features used so far.
func (st *WKTStyle) Features() []string {
	var out []string
	for k := range st.feat {
		out = append(out, k)
	}
	return out
}
